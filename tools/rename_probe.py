import ast, os, re, sys, shutil, subprocess, tempfile, json, concurrent.futures as cf
REPO='/repo'
cands=json.load(open('/tmp/rename_cands.json'))
# literal -> properties
mods={}
for f in os.listdir('/verif/allfedsa'):
    m=re.match(r'c(\d\d)\.py', f)
    if m:
        txt=open('/verif/allfedsa/'+f).read()
        mods['C'+m.group(1)]=txt
import sys as _s
ONLY=set(_s.argv[1:])
CLAIMED=[p for p in sorted(mods) if p!='C16' and (not ONLY or p in ONLY)]
def props_for(name):
    ps=[p for p in CLAIMED if re.search(r'\b'+re.escape(name)+r'\b', mods[p])]
    return ps
def rename_in_file(path, name, new):
    src=open(path).read()
    mod=ast.parse(src)
    lines=src.splitlines(True)
    edits=[]
    for fn in [n for n in ast.walk(mod) if isinstance(n, ast.FunctionDef)]:
        # only outermost functions that assign the name locally
        params=set()
        for sub in ast.walk(fn):
            if isinstance(sub, ast.FunctionDef):
                params |= {a.arg for a in sub.args.args+sub.args.kwonlyargs}
                if sub.args.vararg: params.add(sub.args.vararg.arg)
                if sub.args.kwarg: params.add(sub.args.kwarg.arg)
        if name in params: continue
        stores=[n for n in ast.walk(fn) if isinstance(n, ast.Name) and n.id==name and isinstance(n.ctx, ast.Store)]
        if not stores: continue
        if any(isinstance(n,(ast.Global,ast.Nonlocal)) and name in n.names for n in ast.walk(fn)): 
            pass
        for n in ast.walk(fn):
            if isinstance(n, ast.Name) and n.id==name:
                edits.append((n.lineno, n.col_offset))
            if isinstance(n,(ast.Global,ast.Nonlocal)) and name in n.names:
                return None
    edits=sorted(set(edits), reverse=True)
    if not edits: return None
    for ln,col in edits:
        l=lines[ln-1]
        # col_offset is in utf8 bytes; assume ascii lines
        if l[col:col+len(name)]!=name: return None
        lines[ln-1]=l[:col]+new+l[col+len(name):]
    out=''.join(lines)
    try: compile(out, path, 'exec')
    except SyntaxError: return None
    return out
def run(c):
    path,name=c
    ps=props_for(name)
    if not ps: return (c, [], 'no-prop')
    new=name+'_rn'
    out=rename_in_file(path,name,new)
    if out is None: return (c, ps, 'skip')
    tmp=tempfile.mkdtemp(prefix='rn_')
    try:
        for item in ['src','scenarios','scripts','tests']:
            shutil.copytree(os.path.join(REPO,item), os.path.join(tmp,item), ignore=shutil.ignore_patterns('__pycache__','*.pyc'))
        os.symlink(os.path.join(REPO,'data'), os.path.join(tmp,'data'))
        rel=os.path.relpath(path, REPO)
        open(os.path.join(tmp,rel),'w').write(out)
        env=dict(os.environ); env['ALLFEDSA_REPO']=tmp; env['ALLFEDSA_EVIDENCE_DIR']=os.path.join(tmp,'_ev')
        res=[]
        for p in ps:
            r=subprocess.run(['/venv/bin/python','-m','allfedsa.cli',p], cwd='/verif', env=env, capture_output=True, text=True)
            if r.returncode!=0:
                lines=[l.strip() for l in r.stdout.splitlines() if ' @ ' in l or 'ANALYSIS-ERROR' in l]
                res.append((p, r.returncode, lines[:3]))
        return (c, ps, res)
    finally:
        shutil.rmtree(tmp, ignore_errors=True)
with cf.ThreadPoolExecutor(max_workers=8) as ex:
    results=list(ex.map(run, [tuple(c) for c in cands]))
bad=[r for r in results if isinstance(r[2], list) and r[2]]
print('candidates', len(results), 'ran', sum(1 for r in results if isinstance(r[2], list)), 'alarms', len(bad))
for c,ps,res in bad:
    print(os.path.relpath(c[0],REPO), c[1])
    for p,rc,lines in res:
        print('    ',p,'rc',rc, lines[:2])
