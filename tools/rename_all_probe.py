"""per source file: rename EVERY local variable of every function (scope-aware), then run all checks on the scratch copy"""
import ast, os, sys, shutil, subprocess, tempfile, json, concurrent.futures as cf
REPO='/repo'
PROPS=["C%02d"%i for i in range(1,19) if i!=16]
def rename_file(path):
    src=open(path).read()
    mod=ast.parse(src)
    lines=src.splitlines(True)
    edits=set()
    def handle(fn):
        params=set(); declared=set()
        for sub in ast.walk(fn):
            if isinstance(sub,(ast.FunctionDef,ast.Lambda,ast.AsyncFunctionDef)):
                a=sub.args
                for x in a.args+a.kwonlyargs+a.posonlyargs: params.add(x.arg)
                if a.vararg: params.add(a.vararg.arg)
                if a.kwarg: params.add(a.kwarg.arg)
            if isinstance(sub,(ast.Global,ast.Nonlocal)): declared|=set(sub.names)
        stores={n.id for n in ast.walk(fn) if isinstance(n,ast.Name) and isinstance(n.ctx,ast.Store)}
        names={n for n in stores if n not in params and n not in declared and not n.startswith('__') and n not in ('dict','list','type','min','max','sum','len','str','int','float','id','input','all','any','next','iter','map','filter','range','print','zip','sorted','reversed','set','tuple','bool','round','abs')}
        for n in ast.walk(fn):
            if isinstance(n,ast.Name) and n.id in names:
                edits.add((n.lineno,n.col_offset,n.id))
        return names
    # outermost functions only (nested handled inside)
    def outer_functions(node):
        for ch in ast.iter_child_nodes(node):
            if isinstance(ch,(ast.FunctionDef,ast.AsyncFunctionDef)):
                yield ch
            elif isinstance(ch,ast.ClassDef):
                yield from outer_functions(ch)
    total=0
    for fn in outer_functions(mod):
        total+=len(handle(fn))
    for ln,col,name in sorted(edits, reverse=True):
        l=lines[ln-1]
        # col_offset counts utf8 bytes; convert
        b=l.encode('utf8')
        if b[col:col+len(name)].decode('utf8','ignore')!=name: return None,0
        lines[ln-1]=(b[:col]+(name+'_rn').encode()+b[col+len(name):]).decode('utf8')
    out=''.join(lines)
    try: compile(out,path,'exec')
    except SyntaxError as e: return None,0
    return out,total
files=[]
for root,_,fs in os.walk(REPO+'/src'):
    for f in fs:
        if f.endswith('.py') and 'plotter' not in f and 'plot' not in root: files.append(os.path.join(root,f))
def run(path):
    out,total=rename_file(path)
    rel=os.path.relpath(path,REPO)
    if out is None or total==0: return rel,total,'skip'
    tmp=tempfile.mkdtemp(prefix='rnall_')
    try:
        for item in ['src','scenarios','scripts','tests']:
            shutil.copytree(os.path.join(REPO,item), os.path.join(tmp,item), ignore=shutil.ignore_patterns('__pycache__','*.pyc'))
        os.symlink(os.path.join(REPO,'data'), os.path.join(tmp,'data'))
        open(os.path.join(tmp,rel),'w').write(out)
        env=dict(os.environ); env['ALLFEDSA_REPO']=tmp; env['ALLFEDSA_EVIDENCE_DIR']=os.path.join(tmp,'_ev')
        res=[]
        for p in PROPS:
            r=subprocess.run(['/venv/bin/python','-m','allfedsa.cli',p], cwd='/verif', env=env, capture_output=True, text=True)
            known=[l for l in r.stdout.splitlines() if l.startswith('KNOWN')]
            if r.returncode!=0:
                ls=[l.strip()[:200] for l in r.stdout.splitlines() if ' @ ' in l or 'ANALYSIS-ERROR' in l]
                res.append((p,r.returncode,ls[:3]))
        return rel,total,res
    finally:
        shutil.rmtree(tmp, ignore_errors=True)
with cf.ThreadPoolExecutor(max_workers=6) as ex:
    results=list(ex.map(run, sorted(files)))
for rel,total,res in results:
    if res=='skip': print('skip',rel,total); continue
    if res:
        print('ALARM',rel,total)
        for p,rc,ls in res: print('    ',p,rc,ls)
    else: print('ok',rel,total)
