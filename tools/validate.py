#!/usr/bin/env python3
"""validate MANIFEST.json and every evidence file against the schemas (run with python3-vt)"""
import json, glob, sys, jsonschema
m=json.load(open('/verif/MANIFEST.json')); jsonschema.validate(m, json.load(open('/root/.vp/MANIFEST.schema.json')))
es=json.load(open('/root/.vp/EVIDENCE.schema.json'))
for c in m['checks']:
    p=c['evidence_file']
    try:
        e=json.load(open(p)); jsonschema.validate(e, es)
        cov=e['coverage']
        print(c['property_id'],'ok', e['level'], 'obl',cov.get('obligations'),'dis',cov.get('discharged'),'dn',cov.get('distinct_nontrivial'), 'wall', e['wall_s'])
    except Exception as ex:
        print(c['property_id'],'INVALID', str(ex)[:300])
print('manifest valid;', len(m['checks']), 'checks')
