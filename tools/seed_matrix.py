"""Rewrites the seeded-defect matrix in DESIGN.md (between the SEED-MATRIX markers) from seeded/*/meta.json."""
import json
import os

HERE = os.path.dirname(os.path.dirname(os.path.abspath(__file__)))


def main():
    rows = []
    sd = os.path.join(HERE, "seeded")
    for d in sorted(os.listdir(sd)):
        mp = os.path.join(sd, d, "meta.json")
        if not os.path.exists(mp):
            continue
        m = json.load(open(mp))
        caught = ", ".join(f"{c['rule']}" + (f" (check {c['property']})" if c["property"] != m["property"] else "") for c in m["caught_by"]) or "**not caught**"
        rows.append(f"| {m['id']} | {m['summary']} | {m['needs_to_manifest']} | {m['first_result']} | {caught} | {m.get('strengthened') or '-'} |")
    table = "| seed | change | needs | first run of the checks | reported by | what was strengthened |\n|---|---|---|---|---|---|\n" + "\n".join(rows)
    p = os.path.join(HERE, "DESIGN.md")
    s = open(p).read()
    a = s.index("<!-- SEED-MATRIX-BEGIN -->") + len("<!-- SEED-MATRIX-BEGIN -->")
    b = s.index("<!-- SEED-MATRIX-END -->")
    s = s[:a] + "\n" + table + "\n" + s[b:]
    open(p, "w").write(s)
    print(len(rows), "seeds in the matrix")


if __name__ == "__main__":
    main()
