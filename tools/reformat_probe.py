"""every source file re-emitted by ast.unparse (comments dropped, layout and line numbers changed): all checks must stay silent"""
import ast, os, sys, shutil, subprocess, tempfile
REPO = os.environ.get("ALLFEDSA_REPO", "/repo")
PROPS = ["C%02d" % i for i in range(1, 19) if i != 16]
tmp = tempfile.mkdtemp(prefix="reformat_")
try:
    for item in ["src", "scenarios", "scripts", "tests"]:
        shutil.copytree(os.path.join(REPO, item), os.path.join(tmp, item), ignore=shutil.ignore_patterns("__pycache__", "*.pyc"))
    os.symlink(os.path.join(REPO, "data"), os.path.join(tmp, "data"))
    n = 0
    for root, _, fs in os.walk(os.path.join(tmp, "src")):
        for f in fs:
            if f.endswith(".py"):
                p = os.path.join(root, f)
                src = open(p).read()
                try:
                    out = ast.unparse(ast.parse(src)) + "\n"
                except SyntaxError:
                    continue
                open(p, "w").write(out)
                n += 1
    print("re-emitted", n, "files")
    env = dict(os.environ)
    env["ALLFEDSA_REPO"] = tmp
    env["ALLFEDSA_EVIDENCE_DIR"] = os.path.join(tmp, "_ev")
    bad = 0
    for pid in PROPS:
        r = subprocess.run(["/venv/bin/python", "-m", "allfedsa.cli", pid], cwd=os.path.dirname(os.path.dirname(os.path.abspath(__file__))), env=env,
                           capture_output=True, text=True)
        if r.returncode != 0:
            bad += 1
            print(pid, "rc", r.returncode)
            for l in r.stdout.splitlines():
                if " @ " in l or "ANALYSIS-ERROR" in l:
                    print("   ", l.strip()[:220])
    print("alarms:", bad)
finally:
    shutil.rmtree(tmp, ignore_errors=True)
