#!/bin/bash
# usage: seedvalidate.sh <id e.g. C04_1>
id=$1; d=/tmp/seed_out/$id; wt=/tmp/sv_$id; out=/tmp/seed_out/_validate/$id
mkdir -p $out
git -C /repo worktree add --detach $wt HEAD -q 2>$out/wt.err || { echo "$id worktree failed"; exit 1; }
cd $wt
timeout 3000 /venv/bin/python $d/demo.py > $out/demo_clean.log 2>&1; echo "demo_clean_rc=$?" > $out/summary
if ! git apply $d/patch.diff 2>$out/apply.err; then echo "apply_failed" >> $out/summary; else
timeout 3000 /venv/bin/python $d/demo.py > $out/demo_patched.log 2>&1; echo "demo_patched_rc=$?" >> $out/summary
git status --short | grep -v "^ M" | head -5 >> $out/untracked
timeout 4000 /venv/bin/python -m pytest -ra -q -p no:cacheprovider --timeout=900 --continue-on-collection-errors --junitxml=$out/junit.xml > $out/suite.log 2>&1
echo "suite_rc=$? $(tail -1 $out/suite.log)" >> $out/summary
/venv/bin/python - $out/junit.xml >> $out/summary <<'P'
import sys, json, xml.etree.ElementTree as ET
stable=set(json.load(open('/root/.vp/BASELINE.json'))['stable_pass'])
t=ET.parse(sys.argv[1]); ok=set()
for tc in t.iter('testcase'):
    if not any(c.tag in ('failure','error','skipped') for c in tc):
        ok.add(tc.get('classname')+'::'+tc.get('name'))
print('stable_missing=%d %s' % (len(stable-ok), sorted(stable-ok)[:5]))
P
fi
cd /; git -C /repo worktree remove --force $wt
echo "$id: $(tr '\n' ' ' < $out/summary)"
