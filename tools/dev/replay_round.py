import sys, json, os
sys.path.insert(0, '/verif')
from allfedsa import mutants
ids = sorted(d for d in os.listdir('/verif/seeded') if d[3] == sys.argv[1])
bypid = {}
for d in ids:
    meta = json.load(open(f'/verif/seeded/{d}/meta.json'))
    for c in meta['caught_by']:
        bypid.setdefault(c['property'], set()).add('seeded:' + d)
bad = 0
for pid, names in sorted(bypid.items()):
    r = mutants.run(pid, only=sorted(names), with_probes=False)
    print(pid, sorted(names), '->', r)
    if r: bad += 1
print('BAD' if bad else 'ALL OK')
