#!/bin/bash
# all checks, one seed: prints rule ids / AE per check that is not silent
id=$1
d=/tmp/seed_out/$id
t=$(mktemp -d /tmp/refrepo_XXXXXX)
mkdir -p $t/r && cd /repo && rsync -a --exclude __pycache__ src scenarios scripts plot_manuscript_figures.py tests data mkgendocs.yml README.md docs $t/r/ 2>/dev/null
cd $t/r && git init -q . 2>/dev/null && git apply $d/patch.diff 2>/dev/null || { echo "$id APPLY-FAIL"; rm -rf $t; exit; }
for p in C01 C02 C03 C04 C05 C06 C07 C08 C09 C10 C11 C12 C13 C14 C15 C17 C18; do
  out=$(cd ${VERIF_DIR:-/verif} && ALLFEDSA_REPO=$t/r ALLFEDSA_EVIDENCE_DIR=$t/ev /venv/bin/python -m allfedsa.cli $p 2>&1); rc=$?
  if [ $rc -ne 0 ]; then echo "$id $p rc=$rc: $(echo "$out" | grep " @ " | awk '{print $1}' | sort | uniq -c | tr '\n' ' ') $(echo "$out" | grep ANALYSIS | head -1 | cut -c1-140)"; fi
done
rm -rf $t
echo "$id end"
