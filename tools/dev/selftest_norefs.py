import sys, json
sys.path.insert(0, '/verif')
from allfedsa import mutants
for pid in sys.argv[1:]:
    names = [m["name"] for m in mutants.CORPUS if m["pid"] == pid] + [m["name"] for m in mutants.seeded_for(pid)] + [m["name"] for m in mutants.probes_for(pid)]
    r = mutants.run(pid, only=names)
    print(pid, json.dumps({k: v for k, v in r.items()}), flush=True)
