#!/bin/bash
# usage: probe_try.sh <kind> -> scratch copy, rewrite, run all checks
kind=$1
t=$(mktemp -d /tmp/probe_XXXXXX); mkdir -p $t/r; cd /repo && rsync -a --exclude __pycache__ src scenarios scripts plot_manuscript_figures.py tests $t/r/ && ln -s /repo/data $t/r/data
cd /verif && /venv/bin/python - "$t/r" "$kind" <<'P'
import sys
from allfedsa import probes
root, kind = sys.argv[1], sys.argv[2]
f = probes.rewrite_signatures if kind in ("reorder-params", "rename-params") else probes.rewrite_tree if kind in ("swap-else", "range0", "flip-compare", "keywordise", "positionalise") else probes.rewrite_statements
print(kind, "sites:", f(root, kind))
P
ev=$(mktemp -d /tmp/ref_ev_XXXXXX)
one() { p=$1; out=$(cd /verif && ALLFEDSA_REPO=$2 ALLFEDSA_EVIDENCE_DIR=$3 /venv/bin/python -m allfedsa.cli $p 2>&1); rc=$?
  if [ $rc -ne 0 ]; then echo "check=$p rc=$rc"; echo "$out" | grep -A1 " @ " | head -${4:-8}; echo "$out" | grep "ANALYSIS-ERROR" | head -3; fi; }
export -f one
printf "%s\n" C01 C02 C03 C04 C05 C06 C07 C08 C09 C10 C11 C12 C13 C14 C15 C17 C18 | xargs -P 4 -I{} bash -c "one {} $t/r $ev"
if [ "$2" = keep ]; then echo "kept $t/r"; else rm -rf $t; fi; rm -rf $ev
