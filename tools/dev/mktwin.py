#!/usr/bin/env python3
"""usage: mktwin.py <seed id> <twin name> <file rel> <old> <new>  - apply seed patch on a scratch copy, replace old->new once in file, write twin patch"""
import sys, subprocess, os, shutil, tempfile
seed, twin, rel, old, new = sys.argv[1:6]
t = tempfile.mkdtemp(prefix="/tmp/tw_")
subprocess.check_call(f"cd /repo && git worktree add -q --detach {t}/w HEAD", shell=True)
try:
    subprocess.check_call(f"cd {t}/w && git apply /tmp/seed_out/{seed}/patch.diff", shell=True)
    p = f"{t}/w/{rel}"
    s = open(p).read()
    assert s.count(old) == 1, s.count(old)
    open(p, "w").write(s.replace(old, new))
    os.makedirs(f"/tmp/seed_out/{twin}", exist_ok=True)
    subprocess.check_call(f"cd {t}/w && git add -A && git diff --cached > /tmp/seed_out/{twin}/patch.diff", shell=True)
    print(open(f"/tmp/seed_out/{twin}/patch.diff").read().count("\n"), "lines")
finally:
    subprocess.call(f"git -C /repo worktree remove --force {t}/w", shell=True)
    shutil.rmtree(t, ignore_errors=True)
