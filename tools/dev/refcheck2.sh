#!/bin/bash
# usage: refcheck.sh <dir with patch.diff> [keep] -> runs all checks on a scratch copy of /repo with the patch applied
d=$1
t=$(mktemp -d /tmp/refrepo_XXXXXX)
mkdir -p $t/r && cd /repo && rsync -a --exclude __pycache__ src scenarios scripts plot_manuscript_figures.py tests data $t/r/
cd $t/r && git init -q . 2>/dev/null
if ! git apply --check $d/patch.diff 2>/dev/null; then echo "$d: APPLY-FAIL"; rm -rf $t; exit; fi
git apply $d/patch.diff
ev=$(mktemp -d /tmp/ref_ev_XXXXXX)
one() { p=$1; out=$(cd /verif && ALLFEDSA_REPO=$2 ALLFEDSA_EVIDENCE_DIR=$3 /venv/bin/python -m allfedsa.cli $p 2>&1); rc=$?
  if [ $rc -ne 0 ]; then echo "$4 check=$p rc=$rc"; echo "$out" | grep -A1 " @ " | head -8; echo "$out" | grep "ANALYSIS-ERROR" | head -3; fi; }
export -f one
printf "%s\n" ${CHECKS:-C01 C02 C03 C04 C05 C06 C07 C08 C09 C10 C11 C12 C13 C14 C15 C17 C18} | xargs -P 8 -I{} bash -c "one {} $t/r $ev $d"
if [ "$2" = keep ]; then echo "kept $t/r"; else rm -rf $t; fi
rm -rf $ev
echo "$d done"
