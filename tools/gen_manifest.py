#!/usr/bin/env python3
"""Regenerates /verif/MANIFEST.json from the table below (one entry per property)."""
import json
import os

HERE = os.path.dirname(os.path.dirname(os.path.abspath(__file__)))

TRUST = ("CPython ast parses what the interpreter runs; PuLP/CBC semantics; NumPy elementwise semantics; "
         "the specification tables in /verif/allfedsa/c*.py (each obligation states its reason)")

# pid -> (claimed text, level_note, technique, category)
CLAIMED = {
    "C01": (
        "Decides, for every month class x round x stock regime x ADD_* flag combination, that the LP built by "
        "optimizer.py contains the stock-and-flow equalities (stored food, crops, meat, seaweed), monthly caps (SCP, "
        "cellulosic sugar), seaweed bounds, lowBound=0 on every variable, the terminal 'fully used' conditions and the "
        "feed/biofuel equalities / ceilings / monotone-decrease constraints that imply the physical limits of C01; "
        "obligations are rational-form identities (span membership) on constraint templates extracted by abstract "
        "evaluation of the source. A necessary condition of the behaviour: solver feasibility is assumed, not decided.",
        "Assumes CBC returns a feasible point of the LP it is given and that the reported values are those variables "
        "(C04). " + TRUST,
        "abstract interpretation of the LP-building code into rational constraint templates + linear-span obligations",
        "other",
    ),
    "C02": (
        "Decides that the programme handed to CBC is the documented one: objective variable bounded by every month's "
        "consumed kcals and maximised; consumed kcals = the nine contributions with the documented coefficients; the "
        "3 x (2 human + feed + biofuel) intake caps; round-2 objective <= 2/3 total feed + 1/3 total biofuel; round-2 pins "
        "symmetric within 1e-3 on the right variable; the reported optimum is the first solve's objective value read "
        "after the success assertion. Exact rational identities on extracted constraint templates, every month class / "
        "round / flag combination. Optimality of the solver's answer is not decided (section 6).",
        "Assumes CBC returns an optimal point (within gapRel) of the LP it is given. " + TRUST,
        "abstract interpretation into constraint templates + template/specification identity; statement-order analysis",
        "other",
    ),
    "C12": (
        "Scale clause decided for all inputs: every constraint template of the human-maximising LP is a homogeneous form "
        "under the declared degree table (supplies, stocks, areas, needs, population: 1; percentages, waste, densities, "
        "ratios: 0), hence the feasible set is a cone map x->t x preserving consumed_kcals. Monotonicity clause: the "
        "structural premises (supplies only on relaxing sides or as sources of correctly oriented stock balances, charges "
        "only as the constant of use-sum equalities, foods add positively to consumption) are decided; the conclusion "
        "for equality ledgers is LP duality and is not re-proved.",
        "Solver assumed exact (tolerances gapRel / 0.99995 ignored); waste < 100 %. " + TRUST,
        "homogeneity (degree) analysis and sign analysis of extracted rational constraint templates",
        "other",
    ),
    "C10": (
        "Proof for all parameter values (exact rational arithmetic): the three multiplier tables are closed under the "
        "total / each-month / per-month forms with identical multipliers; get_conversion returns to/from of the matching "
        "nutrient table for every ordered pair (873); hence round trip = identity and path independence for all pairs and "
        "triples (also checked explicitly); the requirement converts to 100 percent, to the daily requirement per person "
        "and to population/1e9 billion people fed (all three nutrients, effective-kcal variants included); in_units and "
        "its five wrappers preserve the label form and scale each lane by its own factor.",
        "Real arithmetic (float rounding of the running code is outside the claim); parameters non-zero. Trusted: CPython "
        "ast, allfedsa.rat polynomial identity, allfedsa.symx evaluation rules for the straight-line fragment used.",
        "symbolic evaluation of the conversion code into rational functions + polynomial identity checking",
        "proof",
    ),
    "C11": (
        "Decides per clause, for all inputs: the duplicated label list is coherent at every exit (typestate); result "
        "labels of all 33 Food constructions match the operation table and __mul__ carries the non-ratio operand's labels "
        "whichever side the ratio is on; nutrient lanes never cross (flow through locals); no operation writes to an "
        "operand, alias or view; every read of another operand's numbers is preceded on every path by a unit assertion; "
        "the list and scalar arms of the 16 comparison predicates are propositionally equivalent under all four flag "
        "settings (truth tables). Not decided: relabelling on integer indexing (run-time key type).",
        "numpy elementwise semantics; a one-month series compares like its element; include_* == not exclude_*. " + TRUST,
        "typestate, label-provenance, information-flow, effect and path analyses over the ast; propositional abstraction "
        "of predicates compared by truth table",
        "other",
    ),
    "C13": (
        "Decides for every option family and value: exactly-once typestate of all setters (assert-unset before the first "
        "write, set before every return, flag sets agree, all-set check before use); dispatcher exhaustiveness (presence "
        "asserted, one setter of one family per arm, rejecting else, distinct families); documented values accepted; sibling "
        "setters write the same keys and the literals the documentation states; the caller's dictionary is never written; "
        "the head-count override key round trip for every species column of the table, the other overrides write exactly "
        "their key with a range check and are not written again by anything that runs after them (the shut-off setters come first), multipliers scale exactly the yearly ratios, which nothing rewrites afterwards; every constant read downstream is "
        "written by every value of its family or read under its flag; the shipped presets are accepted.",
        "CPython string semantics (strip/slicing) as evaluated by the checker; the YAML subset parser. " + TRUST,
        "typestate, dispatch-table, key writer/reader and effect analyses over the ast + README/YAML/CSV-header artefact checks",
        "other",
    ),
    "C15": (
        "Decides the formula and the selection semantics for all inputs: one iteration of the country loop is evaluated for a "
        "symbolic row and symbolic running totals; on every feasible path a country is either left out for a stated reason "
        "(not selected, NaN population, failed optimisation) with totals and results untouched, or adds its population to the "
        "denominator, min(1, ratio) x population to the numerator and its result once under its name; totals start at zero and "
        "are returned as such; the selection function, evaluated on lists of 0-3 symbolic codes for every '!'-pattern, returns "
        "the documented inclusion/exclusion lists, does not modify its argument, and the YAML runner hands the file's own list "
        "over unchanged; iso3 and country are unique in the shipped table. 0 <= aggregate <= 1 follows for a non-negative ratio.",
        "ratio non-negative (objective lowBound 0, C01) and finite (NaN rows are skipped). " + TRUST,
        "per-path abstract evaluation of the loop body and of the selection function over symbolic list shapes; mutation/flow rules",
        "other",
    ),
    "C17": (
        "Exhaustive over the shipped artefact (164 x 211 cells): one complete row per expected country, no missing values, "
        "every bound asserted by verify_country_data (read from its AST), reductions >= -1, seasonality shares in 0..1 summing "
        "to one, fractions in 0..1, quantities non-negative. Pipeline wiring: every create script runs and the merge runs "
        "last; tables written = merged = shipped; inner join with null and country-set assertions; every column the model "
        "reads exists. Averaging helper: all accept/reject patterns of symbolic vectors of length 1-3 give the renormalised "
        "weighted mean of the accepted entries or the sentinel; boundary literals decide the rejection thresholds. NOT "
        "decided: that re-running the scripts on the raw data reproduces the tables (needs pandas/openpyxl execution).",
        "The reproduction clause of C17 is not claimed (DESIGN.md section 6). " + TRUST,
        "artefact (CSV/shell) checks driven by bounds read from the ast + abstract evaluation of the averaging helper",
        "other",
    ),
    "C14": (
        "Decides the shared-state discipline the property's mechanism relies on (necessary conditions): the only writer of "
        "the process-wide conversion settings is set_nutrition_requirements, which is straight-line in its parameters and "
        "assigns every setting read anywhere; it is reached at the start of every run before any food quantity is built; no "
        "class/module-level container or mutable default is written by run code; per-run objects are constructed per run and "
        "later rounds deep-copy round-1 dictionaries; no randomness, wall-clock values only reach file names. Equality of "
        "results across histories and processes is NOT decided.",
        "Third-party libraries deterministic for identical inputs; no state shared through files. " + TRUST,
        "effect (write-set) analysis, def-before-use and statement-order analysis over the ast; shared-state inventory",
        "other",
    ),
    "C18": (
        "Decides for all inputs: ceiling = KCALS_DAILY x min(T, pf1)/100; the greedy closure returns min(food, remaining) and "
        "lowers remaining by it, remaining reset every month, hence per month the hand-off sums to min(available, ceiling) and "
        "each entry <= its food; the nine foods are filled in the documented order into the right keys; re-timed meat = round-1 "
        "meat + filled difference, the fill is a sequence of balanced transfers capped by the donor (total conserved, donors "
        "non-negative) with the run-time assertions carrying the rest; the bump only ever adds max(0, .). NOT decided: that the "
        "bump stays within the demand schedule.",
        "Foods handed in are non-negative; the filled difference is non-negative (asserted at run time). " + TRUST,
        "abstract evaluation of the helper code into rational forms with opaque min/max atoms + structural transfer rules",
        "other",
    ),
    "C04": (
        "Decides for all inputs: each reported contribution is the optimiser's variable (or supply constant) of that food, in "
        "the to-humans slot, times the factor that equals its coefficient in the LP's consumption sum (so contribution% = the "
        "term the LP sums); the headline is the min-nutrient value of the sum of exactly the nine unrounded contributions; the "
        "floor c x optimum <= consumed[m], c >= 0.9999, is added for every month before both tie-breaking solves, which run on "
        "that model or a copy; each CSV column is the unmodified kcal-equivalent series of its food; the crop split adds up in "
        "both arms. Not decided: solver tolerance; equality of the 3-decimal rounded display values with the headline.",
        "PuLP model.copy() shares variables; CBC respects the floor within tolerance. " + TRUST,
        "slot/positional provenance over the ast, symbolic evaluation of the conversion helpers, constraint-template coefficients",
        "other",
    ),
    "C03": (
        "Decides: the demand schedules are exactly [monthly demand]*d + [0]*(N-d) per nutrient with d the configured shut-off "
        "delay (symbolic d and N) - zero from the shut-off month on; after every round that ran, total use of the five "
        "human-edible sources is checked against the RIGHT demand (tuple-slot provenance through four hand-offs) by validators "
        "that assert demand - used(1-eps) > -1e-6; the round-2 ceilings derive from the same demand, round 2 pins the hand-off "
        "computed from round 1, round 3 charges round 2's feed/biofuel within (biofuel, feed) demand in the right slots. NOT "
        "decided: final percent fed vs threshold / no-feed result and 'essentially no feed when people starve' (relations "
        "between three solver outputs; the code's own guards only print - reported as information).",
        "Validators active (fat/protein tracking is rejected by the loader); herd feed_used <= offered feed (C07). " + TRUST,
        "abstract evaluation into run-length lists; positional (tuple-slot) provenance and statement-order analysis over the ast",
        "other",
    ),
    "C05": (
        "Decides the coupling formulas and wiring for all inputs: meat energy = sum over the five size classes of culled head x "
        "kcal/kg x kg/head of the SAME class /1e9 x (1 - distribution waste), month m to entry m, running total of the same "
        "series; the three species->size-class chains agree and the arrays are bound by position; milk energy = this round's "
        "milk-bearing herd x yield/12 x kcal/kg x (1-dist)(1-retail); round 3 charges its own herd's feed_used, changed only by "
        "the never-lowering bump; round 1 runs its herd on zero feed and charges that herd's asserted-zero feed. The herd "
        "trajectory and grass use are C06/C07; total preservation under re-timing is C18.",
        "The slaughter/population arrays are the herd simulation's (C06). " + TRUST,
        "symbolic evaluation of the yield/energy formulas; sibling-chain cross-check; positional provenance over the ast",
        "other",
    ),
    "C07": (
        "Decides, for every symbolic grass/feed/requirement/efficiency/herd value and both species kinds, on every branch of "
        "the feeding routine: resources left are non-negative and never increased; energy credited = efficiency x resources "
        "consumed and lies in [0, required]; non-ruminants leave grass untouched; fed = herd when the requirement is met, else "
        "round(delivered/required x herd); plus structurally: starving = herd - fed for every animal each month, one pass in "
        "priority order (descending net kcals per slaughter hour) with balances reset first and leftovers threaded correctly, "
        "month m's supply offered and offered - left recorded. The 120-month trajectory is not analysed.",
        "Supplies, requirement and herd size non-negative; efficiencies positive. " + TRUST,
        "abstract evaluation with guard-derived sign reasoning per leaf; provenance traces of the feeding pass and of one generic month (events, not statement text); hidden-state (memoisation / lazy-cache) analysis",
        "other",
    ),
    "C06": (
        "Decides one month-step for all symbolic inputs: end = start + additive - (deaths + retirements) - slaughter applied, "
        "then - (starvation deaths + healthy + starving home-kill), with zero clamps only under guards that established "
        "negativity; slaughter applied is 0 / herd-target / allocation, >= 0, <= allocation, never below target; each ledger "
        "term is the value recorded that month; dairy retirements + surviving male calves = animals added to the meat herd; "
        "slaughter rate = min(need, remaining hours)/hours-per-head, budget = class baseline capacity recomputed monthly, reduced "
        "by what was applied and asserted >= 0. The 120-month trajectory and data-dependent signs are NOT decided.",
        "Target size, allocated rate >= 0; hours per head > 0. " + TRUST,
        "abstract evaluation with guard-derived reasoning per leaf; provenance traces of the population step and of one generic month; must-execute rule for the per-animal passes; hidden-state analysis",
        "other",
    ),
    "C08": (
        "Decides, for symbolic inputs, the closed form of each supply builder: crop seasonal cycle entry j = seasonality share of "
        "calendar month (May-1+j) mod 12 x annual yield x 4e6/1e9; crop schedule blocks 8,12x8,16 and grass blocks 8,12,...,16 "
        "(every horizon 48..120) carry year k's ratio; month i reads cycle i mod 12 and reduction i; fish, stored food, "
        "single-cell protein and cellulosic sugar equal the documented product of baseline, percent, waste factors; each "
        "delayed series has exactly delay + lead-in zero months, a non-decreasing ramp, its cap, and is cut to NMONTHS from a "
        "long-enough list; seaweed monthly growth x LP ledger factor = (1 + d/100)^30; world-scale baseline literals agree in "
        "unit with the country table. Finiteness/non-negativity for concrete data and the feed/biofuel demand series (C03) are not decided here.",
        "Seasonality shares, ratios, baselines non-negative; delays are non-negative integers. " + TRUST,
        "abstract evaluation over run-length array models with exact rational fills; closed-form comparison; table cross-check",
        "other",
    ),
    "C09": (
        "Decides, on both settings of the relocation flag: every stored piece of the outdoor series is grown[months] x (1 - "
        "greenhouse share[same months]) with share = this run's greenhouse area / total cropland, production = that x (1 - "
        "distribution waste); greenhouse share is zero for delay + 5 months then a non-decreasing ramp from 0 to the "
        "configured multiplier, identically zero without greenhouses; relocated month = m*r (r>1) or m*r^e guarded by the "
        "in-loop assertion, expanded area multiplies by a ramp starting at 1 and only for ratio > 1; no rounding / int / "
        "floor call or integer-typed array store lies on the path. The inequality r^e >= r needs the exponent in (0,1] (data).",
        "Relocation exponent in (0,1]; greenhouse multiplier in [0,1]. " + TRUST,
        "all-paths abstract evaluation of the production statement; run-length array model; syntactic quantisation rule with reaching stores",
        "other",
    ),
}

NOT_APPLICABLE = {
    "C16": "completion of every country x preset is feasibility of ~10^4 concrete LPs plus run-time validators on solver "
           "output; no static argument in reach bounds that (its configuration well-formedness fragment is decided "
           "under C13.KEYS)",
}

PENDING_REASON = "check not built yet in this session (planned in DESIGN.md section 4; will be claimed when its rule set is complete)"

ALL = ["C%02d" % i for i in range(1, 19)]


# what the later rounds of seeded changes and refactorings added to each claim (appended to the text above)
ADDED = {
    "C02": " Also states the feasible sets as each round builds them: the charge met exactly in the human rounds, demand ceilings and never-rising "
           "feed/biofuel totals for every month class of the feed round; the resource balances (C02.FEAS_*); the feed objective runs over every month.",
    "C03": " Call sites are read by parameter (positional or keyword), construction helpers and dispatch helpers are looked through, and the bump's "
           "(series, ceiling) slots are found by evaluating it with a zero request.",
    "C04": " The extractor and the interpreter's two mapping methods are evaluated (loops over tables of foods, setattr and spread argument lists read "
           "like the hand-written form); the floor value is evaluated from the call site; the saved table must replace the file (no append mode); no function of src/ changes a "
           "nutrient series of the result in place through a local, a list or a loop variable that is the series' own storage.",
    "C05": " The LP's reading of the meat made available is part of the claim (stock = horizon total minus eaten; without storage month m bounded by month "
           "m's slaughter; the stock may be kept at the end or at the start of the month, whatever its variables are called); hidden state of process-wide objects "
           "and in-place changes of a handed-over series through an alias, anywhere in src/, are reported.",
    "C06": " The below-zero clamp is accepted only on paths whose conditions make the unslaughtered herd negative; the labour budget is evaluated on a "
           "small mixed herd.",
    "C07": " The priority-ordered list must not be reordered in place by any routine it is handed to (two levels); the requirement is reset on every path; "
           "the ruminant list is decided for every digestion type of the shipped species table.",
    "C08": " Whole-array (vectorised) forms are decided by generic-entry evaluation against the documented piecewise functions; the supply modules keep "
           "no state between calls (class/module-level arrays included, writes through aliases); the cultivated-area ramp is the documented one; a "
           "routine that is given the horizon hands it on to every routine that takes one with a default.",
    "C09": " A country without cropland has a zero greenhouse share; element types are inferred (integer results of np.piecewise / integer arrays that "
           "receive fractional values are reported); the outdoor series handed to the rounds is not changed in place by exporters or plotters.",
    "C10": " No class derived from UnitConversions replaces a conversion routine with logic of its own; every listed unit is tried as the operand's own; "
           "the factors do not depend on the fat/protein inclusion flags.",
    "C11": " min_elementwise is evaluated (every nutrient of the result is the smaller operand's on every path, whatever the inclusion flags); the "
           "label transformers compute label k from label k only; rounding spellings are normalised before the two arms of a predicate are compared; "
           "the constructor stores every number and label in its own slot and hands the labels to the setter in the setter's order.",
    "C12": " In every stock balance the uses stand with the end-of-month stock against the stock carried in (also in months without a supply term); waste "
           "monotonicity is read per unit of supply; the LP takes no number from the process-wide conversion settings.",
    "C13": " The country-specific nuclear-winter setters are evaluated (ratio of year k = 1 + the row's change of year k); table-driven dispatch and "
           "dict.update are read like the if/elif and store forms; a setter that only hands over to another setter is a setter of that family; a "
           "validation pass made before the dispatch must accept exactly the values that have an arm.",
    "C14": " One-level copies of shared nested containers, process-wide objects that keep containers, and containers carried from one iteration of the "
           "simulation / country loops into the run of the next (a container, or a setting re-bound only under a condition) are reported.",
    "C15": " The map helper is followed when the loop uses its return value; file-writing helpers are recorded, not followed.",
    "C17": " Every create_*_csv.py is executed abstractly at module level: the columns of one family are derived alike from one raw column each.",
    "C18": " The evaluated fill reads shared priority tables of other classes and series summed before indexing; the re-timed series is what the "
           "returned monthly constants carry; every potential increase of the bump is within the head-room of its series on every path and the "
           "granted total is split in proportion to the potential increases.",
}
ROBUST = (" The rules read a canonical form of the syntax trees (comparison orientation, if/else polarity, else-after-return, keyword/positional "
          "arguments, range(0, n), method values) named tuples, tuple parameters; renamed parameters and methods are read under the names of the reference tree) and statement-level inlined helpers, so behaviour-preserving rewrites do not change the verdict "
          "(215 sub-agent refactorings, 17 corrected twins of seeded refactorings and 18 kinds of whole-tree probes are replayed by the thorough tier).")


def main():
    checks = []
    for pid in ALL:
        if pid not in CLAIMED:
            continue
        text, note, tech, cat = CLAIMED[pid]
        text = text + ADDED.get(pid, "") + ROBUST
        checks.append({
            "property_id": pid,
            "quick_cmd": f"/venv/bin/python -m allfedsa.cli {pid} --tier quick",
            "thorough_cmd": f"/venv/bin/python -m allfedsa.cli {pid} --tier thorough",
            "evidence_file": f"/verif/evidence/{pid}.json",
            "replay_cmd_template": f"/venv/bin/python -m allfedsa.cli {pid} --replay {{path}}",
            "engine": "allfedsa",
            "level_claimed": {"category": cat, "text": text, "design_ref": f"DESIGN.md section 4 ({pid}), section 6"},
            "level_note": note,
            "technique": "static analysis: " + tech,
        })
    na = []
    for pid in ALL:
        if pid in CLAIMED:
            continue
        na.append({"property_id": pid, "reason": NOT_APPLICABLE.get(pid, PENDING_REASON)})
    man = {
        "version": 1,
        "setup_cmd": "/venv/bin/python -m compileall -q /verif/allfedsa",
        "hooks": {
            "guard": "ALLFED_INTEGRATED_MODEL_VERIF",
            "enable": "none needed: the checks parse /repo's working tree and execute nothing of it",
            "baseline_off_cmd": "cd /repo && /venv/bin/python -m pytest -ra -q -p no:cacheprovider --timeout=900 --continue-on-collection-errors",
            "source_commits": [],
            "add_only": True,
        },
        "engines": [
            {"name": "allfedsa", "path": "/verif/allfedsa", "serves_properties": sorted(CLAIMED),
             "kind_free_text": "repository-specific static analyser: ast index, rational-form abstract evaluation (symx), "
                               "effect/typestate/dominance analyses, artefact (CSV/YAML/README) checks; no execution of /repo"},
        ],
        "checks": checks,
        "not_applicable": na,
        "notes": "Exit codes: 0 ok / known findings only, 1 VIOLATION, 2 ANALYSIS-ERROR (fail closed). Known findings: "
                 "/verif/known_findings.json. Thorough tier adds the mutation self-test (seeded defects must be reported, "
                 "behaviour-preserving rewrites must stay silent) on scratch copies under mktemp.",
    }
    with open(os.path.join(HERE, "MANIFEST.json"), "w") as f:
        json.dump(man, f, indent=1)
    print("MANIFEST.json:", len(checks), "checks,", len(na), "not_applicable")


if __name__ == "__main__":
    main()
