#!/usr/bin/env python3
"""Writes allfedsa/ref_signatures.json: the parameter names of every function of src/ on the reference tree (the tree the rules were
written against).  The index uses it to read a function whose parameters were merely renamed (same number, different names) under the
reference names again (core.Index._restore_reference_names).  Regenerate only when the rules are re-confirmed against a new tree."""
import ast, json, os, sys
root = sys.argv[1] if len(sys.argv) > 1 else "/repo"
out = {}
for d, _, fs in os.walk(os.path.join(root, "src")):
    for f in sorted(fs):
        if not f.endswith(".py"):
            continue
        p = os.path.join(d, f)
        rel = os.path.relpath(p, root)
        try:
            mod = ast.parse(open(p, encoding="utf-8").read())
        except SyntaxError:
            continue
        sig = {}
        for n in mod.body:
            if isinstance(n, ast.FunctionDef):
                sig[n.name] = [a.arg for a in n.args.args]
            if isinstance(n, ast.ClassDef):
                for m in n.body:
                    if isinstance(m, ast.FunctionDef):
                        sig[f"{n.name}.{m.name}"] = [a.arg for a in m.args.args]
        if sig:
            out[rel] = sig
dst = os.path.join(os.path.dirname(os.path.abspath(__file__)), "..", "allfedsa", "ref_signatures.json")
json.dump(out, open(dst, "w"), indent=0, sort_keys=True)
print(sum(len(v) for v in out.values()), "signatures ->", os.path.normpath(dst))
