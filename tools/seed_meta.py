"""Writes /verif/seeded/<id>/meta.json from the table below (kept in one place so the catch matrix in DESIGN.md can be regenerated)."""
import json
import os

HERE = os.path.dirname(os.path.dirname(os.path.abspath(__file__)))
RAN = ("validated in a scratch git worktree of /repo HEAD (/tmp/sv_<id>, removed afterwards): `python demo.py` on the clean tree -> exit 0; "
       "`git apply patch.diff` then `python demo.py` -> exit 1; full suite (the BASELINE.json command) with the patch applied -> all 233 "
       "stable tests pass{extra}. Then `git -C /repo apply patch.diff`, `python -m allfedsa.cli <PID>`, `git -C /repo checkout -- .`.")

SEEDS = {
    "C12_1": dict(property="C12", summary="retail meat waste applied the wrong way round in add_meat_to_model_no_storage: eaten x (1 - w) <= slaughtered",
                  needs="no_stored_between_years regimes, culled meat with non-zero waste, a livestock-heavy country (IRL)",
                  caught_by=[("C12", "C12.WASTE"), ("C01", "C01.MEAT")], first_result="silent in the C12 check (waste monotonicity was listed as not decided); caught by C01.MEAT",
                  strengthened="new rule C12.WASTE: the coefficient of every eaten variable, as a function of each retail-waste percentage, has a derivative of "
                               "the coefficient's own sign (exact symbolic derivative, sign by interval arithmetic on its numerator)"),
    "C12_2": dict(property="C12", summary="`if POP < 1e7: continue` skips the intake cap relative to actual intake for small countries",
                  needs="a country under 10 million people, resilient foods with intake constraints, the cap binding",
                  caught_by=[("C12", "C12.SCALE"), ("C02", "C02.CAPS")], first_result="silent in the C12 check; caught by C02.CAPS",
                  strengthened="C12.SCALE also requires every data-dependent decision taken while building the to-humans programme to be homogeneous "
                               "(an absolute threshold on a degree-1 quantity is reported)"),
    "C12_3": dict(property="C12", summary="last-month crop balance of to-humans runs rearranged with production subtracted",
                  needs="the final month limiting the max-min objective (short horizons, declining supply)",
                  caught_by=[("C12", "C12.SIGN"), ("C01", "C01.CROP")], first_result="caught as written", strengthened=None),
    "C06_1": dict(property="C06", summary="early `return 0` in calculate_animal_population when the herd starts the month at zero",
                  needs="a herd first run down to exactly zero (reduced / feed_only_ruminants strategies): arrivals (dairy retirees, bull calves, births) vanish",
                  caught_by=[("C06", "C06.LEDGER")], first_result="caught as written", strengthened=None),
    "C06_2": dict(property="C06", summary="`pass ... else:` flattened into `continue` in the month-end per-animal loop: calculate_final_population is skipped",
                  needs="a baseline-like herd with 0 < starvation deaths < 10 in a month (small national herds, last head of a starving herd)",
                  caught_by=[("C06", "C06.RECORD")], first_result="missed (the rule only checked that the final step is the last statement of the loop)",
                  strengthened="C06.RECORD: no continue/break/return anywhere in the per-animal passes of the month loop, and the final step is unconditional (must-execute)"),
    "C06_3": dict(property="C06", summary="retiring_milk_head_monthly(fed_only=True) used for the hand-off to the meat herd, the unchanged call for the dairy herd's own deduction",
                  needs="an under-fed dairy herd, or a dairy herd emptied under `reduced` (population_fed keeps its last value)",
                  caught_by=[("C06", "C06.XFER")], first_result="caught as written", strengthened=None),
    "C09_1": dict(property="C09", summary="zero initialisation hoisted to one np.array([0] * NMONTHS) (int64) that the relocation branch fills by slice assignment",
                  needs="OG_USE_BETTER_ROTATION on; material for small producers (Djibouti loses half its outdoor production)",
                  caught_by=[("C09", "C09.QUANT")], first_result="caught as written (the reaching-stores rule written for F2)", strengthened=None),
    "C09_2": dict(property="C09", summary="greenhouse limit area sized from cropland x RATIO_INCREASED_CROP_AREA while the share stays relative to initial cropland",
                  needs="greenhouses and expanded cropland both on (all_resilient_foods_and_more_area)",
                  caught_by=[("C09", "C09.AREA"), ("C08", "C08.DELAY")], first_result="caught as written", strengthened=None),
    "C09_3": dict(property="C09", summary="hand-off recomputes the greenhouse share as greenhouse_area / INITIAL_CROP_AREA_HA (1.08 x the cropland the area was sized from)",
                  needs="greenhouses on and scale: country",
                  caught_by=[("C09", "C09.GH")], first_result="caught as written", strengthened=None),
    "C15_1": dict(property="C15", summary="`capped_ratio = 1` hoisted out of the country loop and only overridden when needs_ratio < 1",
                  needs="a deficit country earlier in the table than a surplus country of the same selection",
                  caught_by=[("C15", "C15.ACC")], first_result="caught (by the per-path evaluation of one loop iteration written after the C04/C18 seeds)", strengthened=None),
    "C15_2": dict(property="C15", summary="all-'!' branch of get_countries_to_run_and_skip strips the markers in the caller's list",
                  needs="an exclusion list used twice (a YAML file with more than one simulation)",
                  caught_by=[("C15", "C15.SEL")], first_result="ANALYSIS-ERROR (enumerate not modelled)",
                  strengthened="C15.SEL: the selection helper must not modify its argument (alias-aware mutation analysis); enumerate/zip modelled in symx"),
    "C15_3": dict(property="C15", summary="new helper in run_scenarios_from_yaml drops 'unknown' codes - '!XXX' entries count as unknown, an emptied list means run all",
                  needs="the YAML entry point with an exclusion list or an all-invalid inclusion list",
                  caught_by=[("C15", "C15.SEL")], first_result="missed (the YAML entry point was not analysed)",
                  strengthened="C15.SEL: the list handed to run_model_no_trade is the file's own setting (only [], [x] wrapping and per-element "
                               "strip/upper normalisation are accepted between the two)"),
    "C03_1": dict(property="C03", summary="people-first ceiling merged into KCALS x (minimum/100) x min(round-1 %/100, 1)",
                  needs="a minimum share below 100 % (the ..._after_10_percent_fed schedules) with the no-feed round under 100 %",
                  caught_by=[("C03", "C03.MIN"), ("C18", "C18.CAP")], first_result="silent in the C03 check; caught by C18.CAP (same defect as C18_2)",
                  strengthened="the ceiling evaluation is now also run under C03 (rule C03.MIN): the hand-off is an anchor of both properties"),
    "C03_2": dict(property="C03", summary="get_biofuel_usage called with the feed shut-off month",
                  needs="a schedule whose biofuel shut-off is earlier than the feed shut-off and a country with biofuel use",
                  caught_by=[("C03", "C03.SHUT"), ("C03", "C03.ARGLANE")], first_result="caught as written (C03.SHUT)",
                  strengthened="additionally reported by the new role-agreement rule (lanes.py): a feed-named value reaches a biofuel-named parameter"),
    "C03_3": dict(property="C03", summary="when round 2 is abandoned the stand-in for its results carries the full biofuel demand into round 3",
                  needs="the rarely taken abort branch (meat with feed < meat without) and non-zero biofuel use (KEN, MNG, MOZ, PAK)",
                  caught_by=[("C03", "C03.SKIP")], first_result="missed",
                  strengthened="new rule C03.SKIP: get_interpreted_results_for_round3_if_zero_feed is evaluated for each of its call sites; the "
                               "biofuel (and, if written, feed) series of the stand-in must be the zero series"),
    "C05_1": dict(property="C05", summary="round-3 milk computed from the round-1 (zero-feed) herd's milk-bearing animals",
                  needs="feed granted in round 3 and a dairy herd that cannot live on grass alone (15 of 164 countries, e.g. GUY, IND, CHN)",
                  caught_by=[("C05", "C05.MILK")], first_result="caught as written", strengthened=None),
    "C05_2": dict(property="C05", summary="per-head meat constants cached per country in a module-level dict",
                  needs="a second run of the same country in one process with a different kg_meat_per_large_animal (or other per-head override)",
                  caught_by=[("C05", "C05.STATE"), ("C14", "C14.STATE")], first_result="C05: ANALYSIS-ERROR; C14: caught as written (shared-container rule)",
                  strengthened="new rule C05.STATE (memo.hidden_state_rules over meat_and_dairy.py and parameters.py), evaluated before the formula rules"),
    "C05_3": dict(property="C05", summary="round-3 feed charge relaxed from == to <= in the no-storage regime when culled meat is eaten",
                  needs="no_stored_between_years regimes with cull: do_eat_culled and feed in use",
                  caught_by=[("C01", "C01.FB_EQ")], first_result="silent in the C05 check (the LP row is C01's subject); caught as written by C01.FB_EQ",
                  strengthened=None),
    "C07_1": dict(property="C07", summary="feeding loop breaks once grass and feed are both used up; later species keep last month's fed count",
                  needs="a history: a species served in one month, then a month where supplies run out before it is reached",
                  caught_by=[("C07", "C07.PRIO")], first_result="caught as written", strengthened=None),
    "C07_2": dict(property="C07", summary="`NE_from_feed >= NE_required` loosened to `>= NE_required * (1 - 1e-3)` while the full requirement is still charged",
                  needs="remaining feed within the last 0.1 % below what a species still needs",
                  caught_by=[("C07", "C07.RES"), ("C07", "C07.NE")], first_result="caught as written", strengthened=None),
    "C07_3": dict(property="C07", summary="per-head requirement memoised on the object before the regional LSU factor is set",
                  needs="the integrated-model call path (meat dict passed) and a species whose regional factor differs from 1",
                  caught_by=[("C07", "C07.STATE"), ("C14", "C14.STATE")], first_result="missed",
                  strengthened="new analysis memo.lazy_attribute_caches: a method that keeps its first result in self.X (hasattr / is None / __dict__ guard) "
                               "while an attribute it is computed from is assigned outside __init__ and nothing resets X; used by C07.STATE, C06.STATE, C05.STATE, C14.STATE"),
    "C10_1": dict(property="C10", summary="multiplier tables cached on Food.conversions, invalidated only when (kcals_monthly, population) changes",
                  needs="requirements set twice with equal kcals and population but different fat/protein (nutrition: baseline then catastrophe)",
                  caught_by=[("C10", "C10.PURE"), ("C14", "C14.RESET")], first_result="C10: ANALYSIS-ERROR; C14: caught as written",
                  strengthened="new rule C10.PURE: table builders, get_conversion and in_units store nothing on self / the conversions object and are not memoised"),
    "C10_2": dict(property="C10", summary="the ' per month' branch of in_units passes the protein and fat units to get_conversion in swapped order",
                  needs="a scalar ' per month' quantity converted to different fat and protein units (no wrapper does that)",
                  caught_by=[("C10", "C10.FORM"), ("C11", "C11.ARGLANE")], first_result="missed (only the wrappers were evaluated; they ask for the same unit for fat and protein)",
                  strengthened="C10.FORM evaluates in_units itself for mixed unit triples in all three forms; new role-agreement rule C11.ARGLANE"),
    "C10_3": dict(property="C10", summary="default diet on every UnitConversions instance + `self.kcals_daily` instead of the configured conversions object in one table entry",
                  needs="a daily kcal requirement other than 2100 and a scalar ' per month' quantity in kcals per person per day",
                  caught_by=[("C10", "C10.TABLE"), ("C10", "C10.ANCHOR")], first_result="caught as written", strengthened=None),
    "C14_1": dict(property="C14", summary="lru_cache on the five animal CSV readers; the head-count override is written into the cached frame",
                  needs="an earlier run in the same process with a *_head override, then a run of the same country",
                  caught_by=[("C14", "C14.STATE"), ("C13", "C13.OVERRIDE")], first_result="caught (rule added after C13_3, same defect)", strengthened=None),
    "C14_2": dict(property="C14", summary="alter_scenario_if_known_to_fail applies its correction to the caller's dictionary (scenario_option.update)",
                  needs="ALB, SLV or ECU processed earlier in the same call than the observed country",
                  caught_by=[("C14", "C14.FRESH"), ("C13", "C13.NOMUT")], first_result="silent in the C14 check; caught by C13.NOMUT",
                  strengthened="C14.FRESH: no function that takes the scenario options may mutate them (the dictionary is shared by all countries of a simulation)"),
    "C14_3": dict(property="C14", summary="enabled LP resources collected in a set comprehension and iterated: constraint order follows the per-process string hash",
                  needs="fresh processes with different hash seeds and an LP with alternative optima (3 of 32 country/scenario pairs)",
                  caught_by=[("C14", "C14.DET")], first_result="missed",
                  strengthened="new analysis memo.set_order_dependence under C14.DET: for-loops, list/tuple/join/next(iter()) over set-valued expressions "
                               "(sorted/min/max/len/dict- and set-building consumers are exempt)"),
    "C17_1": dict(property="C17", summary="upper validity bound of the averaging helper written as a class constant 1e3 ('1000x') but compared with the percentage",
                  needs="inputs in (1000, 1e5] percent (6 cells of the nuclear-winter import)",
                  caught_by=[("C17", "C17.AVG")], first_result="ANALYSIS-ERROR (class-level constant not resolved)",
                  strengthened="symx resolves class-level literal constants (Class.NAME, self.NAME)"),
    "C17_2": dict(property="C17", summary="KOR/PRK iso-code correction collected in a new list that only the first table is taken from",
                  needs="re-running the import: 44 columns of KOR and PRK are swapped, no assertion fails",
                  caught_by=[("C17", "C17.WIRE")], first_result="missed",
                  strengthened="new flow obligation in C17.WIRE: every table entering the merge list comes from the container the correction wrote into"),
    "C17_3": dict(property="C17", summary="no-data sentinel replaced by -1 before the /100 scaling in a de-duplicating refactor of clean_up_nw_csv",
                  needs="the eight countries without Rutgers data: -0.01 (1 % loss) instead of -1 (total loss)",
                  caught_by=[("C17", "C17.NODATA")], first_result="missed",
                  strengthened="new rule C17.NODATA: clean_up_nw_csv is evaluated elementwise for a symbolic cell; valid percentages must become x/100 and "
                               "the helper's no-data value -1 in the final units, whatever the code shape"),
    "C01_1": dict(property="C01", summary="last-month link stored_food_start[N-1] == stored_food_end[N-2] indented under `optimization_type != 'to_animals'`",
                  needs="round 2 only, storage between years, last month, stored food binding for feed (GBR, LUX, JPN, USA)",
                  caught_by=[("C01", "C01.SF")], first_result="caught as written", strengthened=None),
    "C01_2": dict(property="C01", summary="STORED_FOOD_WASTE_RETAIL taken from the crop distribution waste in Parameters.init_stored_food",
                  needs="a waste setting other than zero with stored food switched on",
                  caught_by=[("C01", "C01.WASTE")], first_result="caught as written", strengthened=None),
    "C01_3": dict(property="C01", summary="month-0 seaweed pins rewritten as a loop that overwrites one dictionary key (only biofuel[0] == 0 survives)",
                  needs="a resilient-food set containing seaweed; month 0 only",
                  caught_by=[("C01", "C01.SW")], first_result="caught as written",
                  strengthened="(the demonstrations of C01_1-3 audit the seaweed ledger with the pre-repair factor 1 + g; aligned with fix b92ea95 when the seeds were kept)"),
    "C02_1": dict(property="C02", summary="intake-cap fractions cached in a class-level dict shared by every Optimizer in the process",
                  needs="two simulations in one process whose intake_constraints differ, a resilient-food scenario and a binding cap",
                  caught_by=[("C02", "C02.INPUTS"), ("C14", "C14.STATE")],
                  first_result="C02: ANALYSIS-ERROR (store into a class attribute); C14: caught as written (shared-container rule)",
                  strengthened="new rule C02.INPUTS (optimizer.py keeps no class-/module-level container its methods write, no memoised builder), run "
                               "before the template extraction so that it is the verdict; the demonstration's restated seaweed ledger was aligned "
                               "with the repaired ledger (fix b92ea95) when the seed was kept"),
    "C02_2": dict(property="C02", summary="retail-waste gross-up of meat inverted to x(1 - w) in add_meat_to_model_no_storage",
                  needs="no_stored_between_years regimes, culled meat eaten, non-zero waste, meat binding in the worst month (URY)",
                  caught_by=[("C01", "C01.MEAT")], first_result="silent in the C02 check (the constraint set is C01's subject); caught as written by C01.MEAT",
                  strengthened=None),
    "C02_3": dict(property="C02", summary="get_feed_sum/get_biofuel_sum merged into one helper whose conversion table omits seaweed_biofuel (factor 1 instead of SEAWEED_KCALS)",
                  needs="a seaweed food set, a continued-type shutoff and a country with seaweed and a surplus",
                  caught_by=[("C02", "C02.ANIMAL"), ("C01", "C01.FB_EQ")], first_result="caught as written",
                  strengthened="(demonstration's restated seaweed ledger aligned with fix b92ea95 when the seed was kept)"),
    "C08_1": dict(property="C08", summary="alter_scenario_if_known_to_fail applies its correction with scenario_option.update(...) on the caller's dictionary",
                  needs="a multi-country run with ALB/SLV/ECU earlier in the list: later countries get all-zero feed and biofuel demand",
                  caught_by=[("C13", "C13.NOMUT")], first_result="silent in the C08 check (each series is still the documented function of the options it "
                  "is given); caught as written by C13.NOMUT", strengthened=None),
    "C08_2": dict(property="C08", summary="country exceptions of the year-1 ratio refactored to `{...}.get(iso3) or sum(seasonality[:4])`: the zero overrides are swallowed",
                  needs="JPN, PRK or KOR with a year-1 disruption ratio other than 1 (months 0-7 only)",
                  caught_by=[("C08", "C08.Y1")], first_result="missed (the helper was an opaque atom)",
                  strengthened="new rule C08.Y1: the helper is evaluated for every country code it mentions and for any other code; on every feasible "
                               "path the result must be the documented piecewise function of (ratio, harvest-before-May) with harvest-before-May = the "
                               "value the code itself states for that country; and/or now return their operand as in Python"),
    "C08_3": dict(property="C08", summary="untouched stock buffer taken from min(end_of_month_stocks[month_before_index:]) instead of the annual minimum",
                  needs="ratio_stocks_untouched baseline and a country whose stock minimum falls in January-March (ALB, BOL, CHL, IRN, LAO, PER, URY)",
                  caught_by=[("C08", "C08.STOCK")], first_result="caught as written", strengthened=None),
    "C04_1": dict(property="C04", summary="tie-break floor loosened from 0.99995 to 0.9997 when food is not stored between years",
                  needs="ratio_stocks_untouched: no_stored_between_years (or baseline_no_stored_between_years); headline then sits 0.03 % below the optimum",
                  caught_by=[("C04", "C04.FLOOR")], first_result="caught as written", strengthened=None),
    "C04_2": dict(property="C04", summary="crop split vectorised with numpy; draws from new storage below 1 (billion kcal) are zeroed",
                  needs="a small country with months where 0 < eaten - produced < 1 billion kcal",
                  caught_by=[("C04", "C04.SPLIT")], first_result="ANALYSIS-ERROR (month loop not found): fail-closed but not a verdict",
                  strengthened="symx gained an elementwise array model (NArr comparison -> NMask, masked store, np.minimum/maximum/where, "
                               "comprehension over a symbolic range); C04.SPLIT evaluates the array form per feasible combination of the "
                               "elementwise tests (Fourier-Motzkin feasibility, implied equalities) - a correct vectorisation stays silent"),
    "C04_3": dict(property="C04", summary="per-food table is only written when no file of that title exists yet",
                  needs="a history: a second run under the same title with different options keeps the stale table",
                  caught_by=[("C04", "C04.CSV")], first_result="missed",
                  strengthened="new obligation C04.CSV written-on-every-call: the to_csv call may only sit under literal-True flags and no "
                               "return/raise may precede it"),
    "C11_1": dict(property="C11", summary="negative_values_to_zero clips through np.asarray(self.kcals, dtype=float) with a boolean-mask store",
                  needs="operand arrays already float64 (np.asarray then returns the same buffer), a negative month, operand reused afterwards",
                  caught_by=[("C11", "C11.PURE")], first_result="missed",
                  strengthened="C11.PURE alias analysis treats np.asarray/asanyarray/ravel/reshape/squeeze/... , .view()/.reshape()/..., "
                               ".T/.flat and np.array(copy=False) of operand storage as views"),
    "C11_2": dict(property="C11", summary="series arm of all_less_than_or_equal_to returns on `exclude_fat or exclude_protein` (should be `and`)",
                  needs="exactly one of fat / protein counted and the counted nutrient exceeding the bound; both-on and both-off agree",
                  caught_by=[("C11", "C11.PRED")], first_result="ANALYSIS-ERROR (return inside a flag branch)",
                  suite_note=" (one unrelated random-fixture error in tests/test_methane_scp.py, `randrange(1, 1)`, passes on re-run)",
                  strengthened="C11.PRED abstraction now follows both arms of every undecided test to the returns (early returns, branch-local "
                               "assignments); the equivalent early-return rewrite is a silent refactor in the corpus"),
    "C11_3": dict(property="C11", summary="unit-multiplier cache keyed by the kcals label only",
                  needs="two conversions in one requirements setting sharing the kcals label but differing in fat/protein labels",
                  caught_by=[("C10", "C10.CONV")], first_result="missed by the C11 check; caught as written by the C10 check (the cache persists "
                  "across the 873 evaluated conversions, so the second unit system returns the first one's multipliers)", strengthened=None),
    "C13_1": dict(property="C13", summary="alter_scenario_if_known_to_fail edits the caller's dictionary, copying only at return",
                  needs="ALB/SLV/ECU with the hard-coded failing combinations; later countries of the same simulation inherit the rewrite",
                  caught_by=[("C13", "C13.NOMUT")], first_result="caught as written", strengthened=None),
    "C13_2": dict(property="C13", summary="set_country_grasses_to_zero asserts DISRUPTION_SET instead of GRASSES_SET",
                  needs="calling the grasses setters twice with the zero-grazing one second (or crop disruption before zero grazing)",
                  caught_by=[("C13", "C13.ONCE")], first_result="caught as written", strengthened=None),
    "C13_3": dict(property="C13", summary="lru_cache on the five CSV readers; the head-count override is written in place into the cached frame",
                  needs="a history of runs in one process: an override run followed by a run of the same country without it",
                  caught_by=[("C13", "C13.OVERRIDE"), ("C14", "C14.STATE")], first_result="missed",
                  strengthened="new analysis allfedsa/memo.py: results of memoised functions (lru_cache/cache/*memo*) must not be stored into, "
                               "mutated in place or passed to a callee that mutates the parameter; used by C13.OVERRIDE and C14.STATE. "
                               "Memoising a reader whose result is only read stays silent. The demonstration's check of the other species' first "
                               "recorded month was dropped when the seed was kept (it fails on the repaired tree for a legitimate reason: shared feed)"),
    "C18_1": dict(property="C18", summary="fill_negatives_with_positives uses np.asarray and so edits its argument; the caller's adjustment becomes zero",
                  needs="a month where no-feed meat exceeds feed-round meat (Mongolia, Mauritania, Pakistan in nuclear winter)",
                  caught_by=[("C18", "C18.RETIME")], first_result="caught as written", strengthened=None),
    "C18_2": dict(property="C18", summary="minimum-needs ceiling computed as threshold x min(round-1 fed, 100 %) instead of min(threshold, round-1 fed)",
                  needs="a threshold other than 100 (shutoff continued_after_10_percent_fed or the custom threshold key)",
                  caught_by=[("C18", "C18.CAP")], first_result="ANALYSIS-ERROR (ceiling computation did not fork as expected)",
                  suite_note=" (one unrelated random-fixture error in tests/test_methane_scp.py, `randrange(1, 1)`, passes on re-run)",
                  strengthened="C18.CAP (and C18.GREEDY) no longer expect one syntactic shape: every feasible leaf of the evaluation must give "
                               "KCALS_DAILY x T/100 where its conditions imply fed >= T, or KCALS_DAILY x fed/100 where they imply fed <= T; "
                               "builtin min/max fork in symx; a correct min() rewrite is a silent refactor in the corpus"),
    "C18_3": dict(property="C18", summary="the two never-decrease clamps of increase_biofuels_then_feed replaced by one clamp on the shared budget",
                  needs="feed or biofuel handed in above its demand schedule (solver-tolerance noise)",
                  caught_by=[("C18", "C18.BUMP")], first_result="caught as written", strengthened=None),
}


def main():
    for sid, d in SEEDS.items():
        path = os.path.join(HERE, "seeded", sid)
        if not os.path.isdir(path):
            continue
        extra = d.get("suite_note", "")
        meta = {
            "id": sid,
            "property": d["property"],
            "summary": d["summary"],
            "needs_to_manifest": d["needs"],
            "written_by": "fresh sub-agent given only the property text and its own scratch worktree",
            "what_i_ran": RAN.format(extra=extra).replace("<id>", sid).replace("<PID>", d["caught_by"][0][0]),
            "first_result": d["first_result"],
            "strengthened": d["strengthened"],
            "caught_by": [{"property": p, "rule": r} for p, r in d["caught_by"]],
        }
        with open(os.path.join(path, "meta.json"), "w") as f:
            json.dump(meta, f, indent=1)
    print("meta.json written for", len(SEEDS), "seeds")


if __name__ == "__main__":
    main()
