"""Writes /verif/seeded/<id>/meta.json from the table below (kept in one place so the catch matrix in DESIGN.md can be regenerated)."""
import json
import os

HERE = os.path.dirname(os.path.dirname(os.path.abspath(__file__)))
RAN = ("validated in a scratch git worktree of /repo HEAD (/tmp/sv_<id>, removed afterwards): `python demo.py` on the clean tree -> exit 0; "
       "`git apply patch.diff` then `python demo.py` -> exit 1; full suite (the BASELINE.json command) with the patch applied -> all 233 "
       "stable tests pass{extra}. Then `git -C /repo apply patch.diff`, `python -m allfedsa.cli <PID>`, `git -C /repo checkout -- .`.")

SEEDS = {
    "C01_1": dict(property="C01", summary="last-month link stored_food_start[N-1] == stored_food_end[N-2] indented under `optimization_type != 'to_animals'`",
                  needs="round 2 only, storage between years, last month, stored food binding for feed (GBR, LUX, JPN, USA)",
                  caught_by=[("C01", "C01.SF")], first_result="caught as written", strengthened=None),
    "C01_2": dict(property="C01", summary="STORED_FOOD_WASTE_RETAIL taken from the crop distribution waste in Parameters.init_stored_food",
                  needs="a waste setting other than zero with stored food switched on",
                  caught_by=[("C01", "C01.WASTE")], first_result="caught as written", strengthened=None),
    "C01_3": dict(property="C01", summary="month-0 seaweed pins rewritten as a loop that overwrites one dictionary key (only biofuel[0] == 0 survives)",
                  needs="a resilient-food set containing seaweed; month 0 only",
                  caught_by=[("C01", "C01.SW")], first_result="caught as written",
                  strengthened="(the demonstrations of C01_1-3 audit the seaweed ledger with the pre-repair factor 1 + g; aligned with fix b92ea95 when the seeds were kept)"),
    "C02_1": dict(property="C02", summary="intake-cap fractions cached in a class-level dict shared by every Optimizer in the process",
                  needs="two simulations in one process whose intake_constraints differ, a resilient-food scenario and a binding cap",
                  caught_by=[("C02", "C02.INPUTS"), ("C14", "C14.STATE")],
                  first_result="C02: ANALYSIS-ERROR (store into a class attribute); C14: caught as written (shared-container rule)",
                  strengthened="new rule C02.INPUTS (optimizer.py keeps no class-/module-level container its methods write, no memoised builder), run "
                               "before the template extraction so that it is the verdict; the demonstration's restated seaweed ledger was aligned "
                               "with the repaired ledger (fix b92ea95) when the seed was kept"),
    "C02_2": dict(property="C02", summary="retail-waste gross-up of meat inverted to x(1 - w) in add_meat_to_model_no_storage",
                  needs="no_stored_between_years regimes, culled meat eaten, non-zero waste, meat binding in the worst month (URY)",
                  caught_by=[("C01", "C01.MEAT")], first_result="silent in the C02 check (the constraint set is C01's subject); caught as written by C01.MEAT",
                  strengthened=None),
    "C02_3": dict(property="C02", summary="get_feed_sum/get_biofuel_sum merged into one helper whose conversion table omits seaweed_biofuel (factor 1 instead of SEAWEED_KCALS)",
                  needs="a seaweed food set, a continued-type shutoff and a country with seaweed and a surplus",
                  caught_by=[("C02", "C02.ANIMAL"), ("C01", "C01.FB_EQ")], first_result="caught as written",
                  strengthened="(demonstration's restated seaweed ledger aligned with fix b92ea95 when the seed was kept)"),
    "C08_1": dict(property="C08", summary="alter_scenario_if_known_to_fail applies its correction with scenario_option.update(...) on the caller's dictionary",
                  needs="a multi-country run with ALB/SLV/ECU earlier in the list: later countries get all-zero feed and biofuel demand",
                  caught_by=[("C13", "C13.NOMUT")], first_result="silent in the C08 check (each series is still the documented function of the options it "
                  "is given); caught as written by C13.NOMUT", strengthened=None),
    "C08_2": dict(property="C08", summary="country exceptions of the year-1 ratio refactored to `{...}.get(iso3) or sum(seasonality[:4])`: the zero overrides are swallowed",
                  needs="JPN, PRK or KOR with a year-1 disruption ratio other than 1 (months 0-7 only)",
                  caught_by=[("C08", "C08.Y1")], first_result="missed (the helper was an opaque atom)",
                  strengthened="new rule C08.Y1: the helper is evaluated for every country code it mentions and for any other code; on every feasible "
                               "path the result must be the documented piecewise function of (ratio, harvest-before-May) with harvest-before-May = the "
                               "value the code itself states for that country; and/or now return their operand as in Python"),
    "C08_3": dict(property="C08", summary="untouched stock buffer taken from min(end_of_month_stocks[month_before_index:]) instead of the annual minimum",
                  needs="ratio_stocks_untouched baseline and a country whose stock minimum falls in January-March (ALB, BOL, CHL, IRN, LAO, PER, URY)",
                  caught_by=[("C08", "C08.STOCK")], first_result="caught as written", strengthened=None),
    "C04_1": dict(property="C04", summary="tie-break floor loosened from 0.99995 to 0.9997 when food is not stored between years",
                  needs="ratio_stocks_untouched: no_stored_between_years (or baseline_no_stored_between_years); headline then sits 0.03 % below the optimum",
                  caught_by=[("C04", "C04.FLOOR")], first_result="caught as written", strengthened=None),
    "C04_2": dict(property="C04", summary="crop split vectorised with numpy; draws from new storage below 1 (billion kcal) are zeroed",
                  needs="a small country with months where 0 < eaten - produced < 1 billion kcal",
                  caught_by=[("C04", "C04.SPLIT")], first_result="ANALYSIS-ERROR (month loop not found): fail-closed but not a verdict",
                  strengthened="symx gained an elementwise array model (NArr comparison -> NMask, masked store, np.minimum/maximum/where, "
                               "comprehension over a symbolic range); C04.SPLIT evaluates the array form per feasible combination of the "
                               "elementwise tests (Fourier-Motzkin feasibility, implied equalities) - a correct vectorisation stays silent"),
    "C04_3": dict(property="C04", summary="per-food table is only written when no file of that title exists yet",
                  needs="a history: a second run under the same title with different options keeps the stale table",
                  caught_by=[("C04", "C04.CSV")], first_result="missed",
                  strengthened="new obligation C04.CSV written-on-every-call: the to_csv call may only sit under literal-True flags and no "
                               "return/raise may precede it"),
    "C11_1": dict(property="C11", summary="negative_values_to_zero clips through np.asarray(self.kcals, dtype=float) with a boolean-mask store",
                  needs="operand arrays already float64 (np.asarray then returns the same buffer), a negative month, operand reused afterwards",
                  caught_by=[("C11", "C11.PURE")], first_result="missed",
                  strengthened="C11.PURE alias analysis treats np.asarray/asanyarray/ravel/reshape/squeeze/... , .view()/.reshape()/..., "
                               ".T/.flat and np.array(copy=False) of operand storage as views"),
    "C11_2": dict(property="C11", summary="series arm of all_less_than_or_equal_to returns on `exclude_fat or exclude_protein` (should be `and`)",
                  needs="exactly one of fat / protein counted and the counted nutrient exceeding the bound; both-on and both-off agree",
                  caught_by=[("C11", "C11.PRED")], first_result="ANALYSIS-ERROR (return inside a flag branch)",
                  suite_note=" (one unrelated random-fixture error in tests/test_methane_scp.py, `randrange(1, 1)`, passes on re-run)",
                  strengthened="C11.PRED abstraction now follows both arms of every undecided test to the returns (early returns, branch-local "
                               "assignments); the equivalent early-return rewrite is a silent refactor in the corpus"),
    "C11_3": dict(property="C11", summary="unit-multiplier cache keyed by the kcals label only",
                  needs="two conversions in one requirements setting sharing the kcals label but differing in fat/protein labels",
                  caught_by=[("C10", "C10.CONV")], first_result="missed by the C11 check; caught as written by the C10 check (the cache persists "
                  "across the 873 evaluated conversions, so the second unit system returns the first one's multipliers)", strengthened=None),
    "C13_1": dict(property="C13", summary="alter_scenario_if_known_to_fail edits the caller's dictionary, copying only at return",
                  needs="ALB/SLV/ECU with the hard-coded failing combinations; later countries of the same simulation inherit the rewrite",
                  caught_by=[("C13", "C13.NOMUT")], first_result="caught as written", strengthened=None),
    "C13_2": dict(property="C13", summary="set_country_grasses_to_zero asserts DISRUPTION_SET instead of GRASSES_SET",
                  needs="calling the grasses setters twice with the zero-grazing one second (or crop disruption before zero grazing)",
                  caught_by=[("C13", "C13.ONCE")], first_result="caught as written", strengthened=None),
    "C13_3": dict(property="C13", summary="lru_cache on the five CSV readers; the head-count override is written in place into the cached frame",
                  needs="a history of runs in one process: an override run followed by a run of the same country without it",
                  caught_by=[("C13", "C13.OVERRIDE"), ("C14", "C14.STATE")], first_result="missed",
                  strengthened="new analysis allfedsa/memo.py: results of memoised functions (lru_cache/cache/*memo*) must not be stored into, "
                               "mutated in place or passed to a callee that mutates the parameter; used by C13.OVERRIDE and C14.STATE. "
                               "Memoising a reader whose result is only read stays silent. The demonstration's check of the other species' first "
                               "recorded month was dropped when the seed was kept (it fails on the repaired tree for a legitimate reason: shared feed)"),
    "C18_1": dict(property="C18", summary="fill_negatives_with_positives uses np.asarray and so edits its argument; the caller's adjustment becomes zero",
                  needs="a month where no-feed meat exceeds feed-round meat (Mongolia, Mauritania, Pakistan in nuclear winter)",
                  caught_by=[("C18", "C18.RETIME")], first_result="caught as written", strengthened=None),
    "C18_2": dict(property="C18", summary="minimum-needs ceiling computed as threshold x min(round-1 fed, 100 %) instead of min(threshold, round-1 fed)",
                  needs="a threshold other than 100 (shutoff continued_after_10_percent_fed or the custom threshold key)",
                  caught_by=[("C18", "C18.CAP")], first_result="ANALYSIS-ERROR (ceiling computation did not fork as expected)",
                  suite_note=" (one unrelated random-fixture error in tests/test_methane_scp.py, `randrange(1, 1)`, passes on re-run)",
                  strengthened="C18.CAP (and C18.GREEDY) no longer expect one syntactic shape: every feasible leaf of the evaluation must give "
                               "KCALS_DAILY x T/100 where its conditions imply fed >= T, or KCALS_DAILY x fed/100 where they imply fed <= T; "
                               "builtin min/max fork in symx; a correct min() rewrite is a silent refactor in the corpus"),
    "C18_3": dict(property="C18", summary="the two never-decrease clamps of increase_biofuels_then_feed replaced by one clamp on the shared budget",
                  needs="feed or biofuel handed in above its demand schedule (solver-tolerance noise)",
                  caught_by=[("C18", "C18.BUMP")], first_result="caught as written", strengthened=None),
}


def main():
    for sid, d in SEEDS.items():
        path = os.path.join(HERE, "seeded", sid)
        if not os.path.isdir(path):
            continue
        extra = d.get("suite_note", "")
        meta = {
            "id": sid,
            "property": d["property"],
            "summary": d["summary"],
            "needs_to_manifest": d["needs"],
            "written_by": "fresh sub-agent given only the property text and its own scratch worktree",
            "what_i_ran": RAN.format(extra=extra).replace("<id>", sid).replace("<PID>", d["caught_by"][0][0]),
            "first_result": d["first_result"],
            "strengthened": d["strengthened"],
            "caught_by": [{"property": p, "rule": r} for p, r in d["caught_by"]],
        }
        with open(os.path.join(path, "meta.json"), "w") as f:
            json.dump(meta, f, indent=1)
    print("meta.json written for", len(SEEDS), "seeds")


if __name__ == "__main__":
    main()
