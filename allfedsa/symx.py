"""E2 `symx` — syntax-directed abstract evaluation of the numeric Python fragment used by
allfed-integrated-model into exact rational forms.

Nothing of the repository is imported or executed: the evaluator walks `ast` nodes.
Branches are decided only from a finite vocabulary of predicates (month-interval
predicates, literal comparisons, flags whose value the driver fixed); an undecided
predicate makes the *driver* fork the abstract environment (both arms are analysed),
never a solver.  Anything outside the fragment raises `Unsupported` (-> exit 2).
"""
from __future__ import annotations

import ast
import re
from fractions import Fraction

from .rat import Rat, Poly, V, K, Idx, RatError

MONTH = "M"  # atom for the symbolic month
NSYM = "N"  # atom for NMONTHS
N_RANGE = (48, 120)

MAX_DEPTH = 8
MAX_ENVS = 4096


class Unsupported(Exception):
    """construct outside the analysed fragment (fail closed)"""

    def __init__(self, msg, node=None):
        loc = f" (line {getattr(node, 'lineno', '?')})" if node is not None else ""
        super().__init__(msg + loc)


class Fork(Exception):
    def __init__(self, key):
        self.key = key


class MonthSplit(Exception):
    def __init__(self, threshold):
        self.threshold = threshold  # (n, c): threshold = n*N + c


class Abort(Exception):
    """sys.exit()/raise reached: the path rejects"""

    def __init__(self, why="exit"):
        self.why = why


class _Return(Exception):
    def __init__(self, value):
        self.value = value


class _Continue(Exception):
    pass


class _Break(Exception):
    pass


# ------------------------------------------------------------------------------------
# abstract values


class Path:
    """symbolic reference into a constants structure: root.parts (optionally month-indexed)"""

    __slots__ = ("parts", "idx")

    def __init__(self, parts, idx=None):
        self.parts = tuple(parts)
        self.idx = idx

    def key(self):
        from .rat import idx_str

        return ".".join(self.parts) + idx_str(self.idx)

    def __repr__(self):
        return "Path(" + self.key() + ")"


class Cmp:
    """expr (sense) 0 with sense in {'<=', '=='}; built from a comparison involving LP variables"""

    __slots__ = ("expr", "sense", "node")

    def __init__(self, lhs, op, rhs, node=None):
        if op == ">=":
            lhs, rhs, op = rhs, lhs, "<="
        self.expr = lhs - rhs
        self.sense = op
        self.node = node

    def __repr__(self):
        return f"{self.expr} {self.sense} 0"


class NewVar:
    """result of LpVariable(...)"""

    def __init__(self, name, low, up, node):
        self.name, self.low, self.up, self.node = name, low, up, node
        self.atom = None


class PList:
    def __init__(self, items):
        self.items = list(items)


class RLE:
    """[fill] * length with a symbolic length"""

    def __init__(self, fill, length):
        self.fill, self.length = fill, length


class RLECat:
    """concatenation of run-length segments [(fill, length), ...]"""

    def __init__(self, segs):
        self.segs = list(segs)


class NArr:
    """numpy array modelled as run-length segments with ELEMENTWISE arithmetic"""

    def __init__(self, segs, truncated_to=None):
        self.segs = list(segs)
        self.truncated_to = truncated_to

    def map(self, f):
        return NArr([(f(x), n) for x, n in self.segs], self.truncated_to)


class NMask:
    """boolean array (result of an elementwise comparison): run-length segments of decided truth values"""

    def __init__(self, segs):
        self.segs = list(segs)


EIDX = ("elem-index",)  # atom standing for the generic element index of an elementwise array / comprehension


def _segs(v):
    if isinstance(v, NArr):
        return list(v.segs)
    if isinstance(v, RLE):
        return [(v.fill, v.length)]
    if isinstance(v, RLECat):
        return list(v.segs)
    if isinstance(v, PList):
        return [(x, Rat.const(1)) for x in v.items]
    return None


class PDict:
    """dict literal/object; `d` maps a hashable key digest to the value, `k` to the original key"""

    def __init__(self, d=None, k=None):
        self.d = dict(d or {})
        self.k = dict(k or {})

    def orig(self, dk):
        return self.k.get(dk, dk)

    def okeys(self):
        return [self.orig(x) for x in self.d]


class Obj:
    """an object with an attribute map (e.g. `self`)"""

    def __init__(self, cls=None, attrs=None, name="self"):
        self.cls = cls
        self.attrs = dict(attrs or {})
        self.name = name


class BoundMethod:
    def __init__(self, obj, fn):
        self.obj, self.fn = obj, fn


class FuncRef:
    """a nested function together with the environment it was defined in (closure)"""

    def __init__(self, fn, env=None):
        self.fn = fn
        self.env = env


class Opaque:
    """a python object we do not model (module, solver, ...)"""

    def __init__(self, name):
        self.name = name

    def __repr__(self):
        return f"Opaque({self.name})"


class Model:
    def __init__(self, name="model"):
        self.name = name
        self.constraints = []  # (name, Cmp)
        self.objective = None
        self.sense = None
        self.events = []

    def copy(self):
        m = Model(self.name + "'")
        m.constraints = list(self.constraints)
        m.objective = self.objective
        m.sense = self.sense
        return m


class VarsDict:
    """the optimiser's `variables` dictionary"""

    def __init__(self, enabled):
        self.enabled = enabled  # callable(family, interp) -> bool
        self.created = {}  # (family, idx) -> NewVar
        self.extra = {}


class VarFamily:
    def __init__(self, vd, family):
        self.vd, self.family = vd, family


def canon(v):
    """deterministic text of an abstract value (for opaque keys and reports)"""
    if isinstance(v, Rat):
        return str(v)
    if isinstance(v, Path):
        return v.key()
    if isinstance(v, str):
        return repr(v)
    if isinstance(v, (bool, type(None))):
        return repr(v)
    if isinstance(v, PList):
        return "[" + ",".join(canon(x) for x in v.items) + "]"
    if isinstance(v, tuple):
        return "(" + ",".join(canon(x) for x in v) + ")"
    if isinstance(v, PDict):
        return "{" + ",".join(f"{canon(k)}:{canon(x)}" for k, x in v.d.items()) + "}"
    if isinstance(v, Cmp):
        return repr(v)
    if isinstance(v, RLE):
        return f"[{canon(v.fill)}]*({canon(v.length)})"
    if isinstance(v, RLECat):
        return " + ".join(f"[{canon(f)}]*({canon(n)})" for f, n in v.segs)
    if isinstance(v, NArr):
        return "array(" + " + ".join(f"[{canon(f)}]*({canon(n)})" for f, n in v.segs) + ")"
    if isinstance(v, NewVar):
        return f"LpVariable({canon(v.name)})"
    if isinstance(v, Opaque):
        return v.name
    if isinstance(v, VarFamily):
        return f"variables[{v.family!r}]"
    if isinstance(v, Obj):
        return v.name
    return f"<{type(v).__name__}>"


# ------------------------------------------------------------------------------------


class MonthClass:
    """integer interval [lo, hi] of the symbolic month; endpoints (n, c) = n*N + c"""

    def __init__(self, lo=(0, 0), hi=(1, -1)):
        self.lo, self.hi = lo, hi

    def singleton(self):
        return self.lo == self.hi

    def at(self, end, n):
        nn, c = end
        return nn * n + c

    def __repr__(self):
        def s(e):
            nn, c = e
            if nn == 0:
                return str(c)
            return ("N" if nn == 1 else f"{nn}N") + (f"{c:+d}" if c else "")

        return f"[{s(self.lo)},{s(self.hi)}]"

    def key(self):
        return repr(self)


class Interp:
    resolver = None  # optional: name ("func" or "Class.func") -> FunctionDef of a repository function to follow
    global_literals = None  # optional: module-level NAME -> literal expression node (unique names over the repository)
    def __init__(self, classes=None, decisions=None, month_class=None, opaque_calls=True):
        self.classes = classes or {}  # class name -> ast.ClassDef
        self.decisions = decisions if decisions is not None else {}
        self.mc = month_class
        self.depth = 0
        self.opaque_calls = opaque_calls
        self.asserts = []  # recorded assert tests (canonical text)
        self.used_decisions = []
        self.trace_calls = []
        self.globals = {}
        self.path_alias = {}  # path parts -> replacement value
        self.pred_exprs = {}  # fork key -> (Rat diff, op) for data-dependent numeric predicates met on this path
        self.call_hook = None  # optional: (interp, dotted, args, kwargs, node) -> value | NotImplemented

    # ---------------------------------------------------------------- helpers
    def to_rat(self, v, node=None):
        if isinstance(v, Rat):
            return v
        if isinstance(v, bool):
            return Rat.const(int(v))
        if isinstance(v, Path):
            return Rat.atom(K(v.parts, v.idx))
        if isinstance(v, NewVar):
            if v.atom is None:
                v.atom = V(("new", canon(v.name)), None)
            return Rat.atom(v.atom)
        raise Unsupported(f"arithmetic on {canon(v)}", node)

    def index_of(self, r, node=None):
        """Rat -> Idx (affine in month and NMONTHS with integer coefficients)"""
        r = self.to_rat(r, node)
        if not (r.d.is_const()):
            raise Unsupported("non-affine index " + str(r), node)
        dv = r.d.const_value()
        m = n = 0
        c = Fraction(0)
        for mono, co in r.n.t.items():
            co = co / dv
            if mono == ():
                c = co
            elif mono == ((MONTH, 1),):
                m = co
            elif mono == ((NSYM, 1),):
                n = co
            else:
                raise Unsupported("index depends on data: " + str(r), node)
        for x in (m, n, c):
            if Fraction(x).denominator != 1:
                raise Unsupported("fractional index " + str(r), node)
        m, n, c = int(m), int(n), int(c)
        if m and self.mc is not None and self.mc.singleton():
            ln, lc = self.mc.lo
            n += m * ln
            c += m * lc
            m = 0
        return Idx(m, n, c)

    def month_affine(self, r):
        """decompose r = m*M + n*N + c or None"""
        if not isinstance(r, Rat) or not r.d.is_const():
            return None
        dv = r.d.const_value()
        m = n = c = Fraction(0)
        for mono, co in r.n.t.items():
            co = co / dv
            if mono == ():
                c = co
            elif mono == ((MONTH, 1),):
                m = co
            elif mono == ((NSYM, 1),):
                n = co
            else:
                return None
        return m, n, c

    def decide_month_cmp(self, diff, op, node):
        """diff = a - b affine in M,N ; decide `diff op 0` over the month class, or split"""
        m, n, c = diff
        if self.mc is None:
            if m != 0:
                raise Unsupported("month predicate without a month class", node)
            lo = hi = (0, 0)
        else:
            lo, hi = self.mc.lo, self.mc.hi
        vals = []
        for N in N_RANGE:
            for end in (lo, hi):
                M = end[0] * N + end[1]
                vals.append(m * M + n * N + c)
        tests = {
            "<": lambda x: x < 0,
            "<=": lambda x: x <= 0,
            ">": lambda x: x > 0,
            ">=": lambda x: x >= 0,
            "==": lambda x: x == 0,
            "!=": lambda x: x != 0,
        }
        t = tests[op]
        res = [t(x) for x in vals]
        if op in ("==", "!="):
            allzero = all(x == 0 for x in vals)
            pos = all(x > 0 for x in vals)
            neg = all(x < 0 for x in vals)
            if allzero or pos or neg:
                return res[0]
        elif all(res) or not any(res):
            # monotone affine: agreeing corners decide the whole class
            return res[0]
        # undecided: split the class at the threshold M = -(n*N + c)/m
        if m == 0:
            raise Unsupported("predicate on NMONTHS not decidable for all supported horizons", node)
        tn = -n / m
        tc = -c / m
        if Fraction(tn).denominator != 1 or Fraction(tc).denominator != 1:
            raise Unsupported("fractional month threshold", node)
        raise MonthSplit((int(tn), int(tc)))

    def truth(self, v, node=None):
        if isinstance(v, bool):
            return v
        if v is None:
            return False
        if isinstance(v, str):
            return bool(v)
        if isinstance(v, Rat):
            if v.is_const():
                return v.const_value() != 0
            self.pred_exprs["nonzero:" + str(v)] = (v, "!=")
            return self.fork("nonzero:" + str(v))
        if isinstance(v, (PList,)):
            return bool(v.items)
        if isinstance(v, tuple):
            return bool(v)
        if isinstance(v, PDict):
            return bool(v.d)
        if isinstance(v, Path):
            return self.fork(v.key())
        if isinstance(v, Cmp):
            raise Unsupported("truth value of an LP constraint", node)
        if isinstance(v, (Obj, Opaque, Model, NewVar, BoundMethod)):
            return True
        raise Unsupported(f"truth value of {canon(v)}", node)

    def fork(self, key):
        if key in self.decisions:
            self.used_decisions.append(key)
            return self.decisions[key]
        if getattr(self, "_assuming", False):
            self.decisions[key] = True
            self.used_decisions.append(key)
            return True
        raise Fork(key)

    # ---------------------------------------------------------------- functions
    def call_function(self, fn, args, kwargs, self_obj=None, node=None, closure_env=None):
        if self.depth >= MAX_DEPTH:
            raise Unsupported("inlining depth bound exceeded in " + fn.name, node)
        params = fn.args
        if params.vararg or params.kwarg or params.posonlyargs:
            raise Unsupported("varargs in " + fn.name, node)
        names = [a.arg for a in params.args]
        env = dict(closure_env) if closure_env is not None else {}   # free variables of a closure read the defining scope
        pos = list(args)
        if self_obj is not None:
            pos = [self_obj] + pos
        if len(pos) > len(names):
            raise Unsupported("too many positional arguments for " + fn.name, node)
        for nme, val in zip(names, pos):
            env[nme] = val
        for k, v in kwargs.items():
            if k not in names and k not in [a.arg for a in params.kwonlyargs]:
                raise Unsupported(f"unknown keyword {k} for {fn.name}", node)
            env[k] = v
        defaults = params.defaults
        for a, d in zip(names[len(names) - len(defaults):], defaults):
            if a not in env:
                env[a] = self.eval(d, {})
        for a, d in zip(params.kwonlyargs, params.kw_defaults):
            if a.arg not in env and d is not None:
                env[a.arg] = self.eval(d, {})
        missing = [a for a in names if a not in env]
        if missing:
            raise Unsupported(f"missing arguments {missing} for {fn.name}", node)
        self.depth += 1
        self.trace_calls.append(fn.name)
        try:
            self.exec_block(fn.body, env)
            return None
        except _Return as r:
            return r.value
        finally:
            self.depth -= 1
            if closure_env is not None:
                # `nonlocal x` assignments are visible in the defining scope
                for st in fn.body:
                    if isinstance(st, ast.Nonlocal):
                        for nme in st.names:
                            if nme in env:
                                closure_env[nme] = env[nme]

    def find_method(self, obj, name):
        cls = obj.cls
        seen = 0
        while cls is not None and seen < 5:
            for st in cls.body:
                if isinstance(st, ast.FunctionDef) and st.name == name:
                    return st
            base = None
            for b in cls.bases:
                if isinstance(b, ast.Name) and b.id in self.classes:
                    base = self.classes[b.id]
            cls = base
            seen += 1
        return None

    # ---------------------------------------------------------------- statements
    def exec_block(self, stmts, env):
        for st in stmts:
            self.exec(st, env)

    def exec(self, st, env):
        if isinstance(st, ast.Expr):
            if isinstance(st.value, ast.Constant):
                return
            self.eval(st.value, env)
        elif isinstance(st, ast.Assign):
            val = self.eval(st.value, env)
            for tgt in st.targets:
                self.assign(tgt, val, env)
        elif isinstance(st, ast.AnnAssign):
            if st.value is not None:
                self.assign(st.target, self.eval(st.value, env), env)
        elif isinstance(st, ast.AugAssign):
            cur = self.eval(st.target, env)  # eval ignores the ctx field
            val = self.eval(st.value, env)
            if isinstance(cur, Model):
                self.model_add(cur, val, st)
                return
            new = self.binop(st.op, cur, val, st)
            self.assign(st.target, new, env)
        elif isinstance(st, ast.If):
            if self.truth(self.eval(st.test, env), st.test):
                self.exec_block(st.body, env)
            else:
                self.exec_block(st.orelse, env)
        elif isinstance(st, ast.For):
            self.exec_for(st, env)
        elif isinstance(st, ast.Return):
            raise _Return(self.eval(st.value, env) if st.value is not None else None)
        elif isinstance(st, ast.Pass):
            return
        elif isinstance(st, ast.Continue):
            raise _Continue()
        elif isinstance(st, ast.Break):
            raise _Break()
        elif isinstance(st, ast.Assert):
            # a conjunction of comparisons that is asserted holds on every continuing path: its undecided atoms are assumed true
            # instead of being explored both ways (the failing side only raises)
            conj = not any(isinstance(n, (ast.Or, ast.Not, ast.Invert, ast.BitOr, ast.IfExp, ast.NotEq)) for n in ast.walk(st.test)) and not any(
                isinstance(n, ast.Call) and (_dotted(n.func) or "") not in ("np.all", "all", "np.array", "len", "abs", "np.abs", "np.sum", "sum")
                and not (isinstance(n.func, ast.Attribute) and n.func.attr in ("all", "sum")) for n in ast.walk(st.test))
            prev = getattr(self, "_assuming", False)
            self._assuming = conj
            try:
                v = self.eval(st.test, env)
            finally:
                self._assuming = prev
            self.asserts.append((canon(v) if not isinstance(v, bool) else ast.unparse(st.test), st.lineno))
            if v is False:
                raise Abort("assert False")
        elif isinstance(st, ast.Raise):
            raise Abort("raise")
        elif isinstance(st, ast.With):
            self.exec_block(st.body, env)
        elif isinstance(st, ast.Try):
            # the no-exception path (handlers are not modelled)
            self.exec_block(st.body, env)
            self.exec_block(st.orelse, env)
            self.exec_block(st.finalbody, env)
        elif isinstance(st, (ast.Import, ast.ImportFrom, ast.Global, ast.Nonlocal)):
            return
        elif isinstance(st, ast.FunctionDef):
            env[st.name] = FuncRef(st, env)
        else:
            raise Unsupported("statement " + type(st).__name__, st)

    def exec_for(self, st, env):
        it = self.eval(st.iter, env)
        items = None
        if isinstance(it, PList):
            items = list(it.items)
        elif isinstance(it, tuple):
            items = list(it)
        elif isinstance(it, PDict):
            items = it.okeys()
        elif isinstance(it, SymRange):
            return self.exec_symbolic_loop(st, it, env)
        elif isinstance(it, (NArr, RLECat, RLE)):
            return self.exec_segment_loop(st, it, env)
        if items is None:
            raise Unsupported("for over " + canon(it), st)
        for x in items:
            self.assign(st.target, x, env)
            try:
                self.exec_block(st.body, env)
            except _Continue:
                continue
            except _Break:
                break
        else:
            self.exec_block(st.orelse, env)

    def exec_segment_loop(self, st, it, env):
        """for x in <run-length list>: body may only append f(x) to lists; executed once per segment and the appended
        values are re-assembled as run-length segments of the same lengths"""
        if not isinstance(st.target, ast.Name):
            raise Unsupported("segment loop target", st)
        lists = {}
        for n in ast.walk(ast.Module(body=st.body, type_ignores=[])):
            if isinstance(n, ast.Call) and isinstance(n.func, ast.Attribute) and n.func.attr == "append" and isinstance(n.func.value, ast.Name):
                lists[n.func.value.id] = None
            elif isinstance(n, (ast.Assign, ast.AugAssign)):
                pass
        for name in lists:
            cur = env.get(name)
            if not (isinstance(cur, PList) and not cur.items):
                raise Unsupported("segment loop appends to a non-empty list", st)
        out = {name: [] for name in lists}
        for fill, length in _segs(it):
            for name in lists:
                env[name] = PList([])
            env[st.target.id] = fill
            self.exec_block(st.body, env)
            for name in lists:
                items = env[name].items
                if len(items) != 1:
                    raise Unsupported("segment loop body does not append exactly one value per element", st)
                out[name].append((items[0], length))
        for name in lists:
            r = RLECat(out[name])
            r.truncated_to = getattr(it, "truncated_to", None)
            env[name] = r

    def exec_symbolic_loop(self, st, rng, env):
        """for j in range(a, N): the body is evaluated once with the loop variable bound to the
        symbolic month of the class [a, N-1].  `x += f(j)` accumulators become sum-atoms;
        constraints added to a model inside the body are tagged with that class."""
        if not isinstance(st.target, ast.Name):
            raise Unsupported("symbolic loop target", st)
        if self.mc is not None:
            raise Unsupported("symbolic loop inside a month-parametric function", st)
        if not (rng.step.is_const() and rng.step.const_value() == 1):
            raise Unsupported("symbolic loop with a step", st)
        lo = self.index_of(rng.lo, st)
        hi = self.index_of(rng.hi, st)
        if lo.m or hi.m:
            raise Unsupported("loop bounds depend on month", st)
        accs = set()
        plain = set()
        for n in ast.walk(ast.Module(body=st.body, type_ignores=[])):
            if isinstance(n, ast.AugAssign) and isinstance(n.target, ast.Name):
                if isinstance(n.op, ast.Add):
                    accs.add(n.target.id)
                else:
                    plain.add(n.target.id)
            elif isinstance(n, ast.Assign):
                for t in n.targets:
                    for nm in ast.walk(t):
                        if isinstance(nm, ast.Name):
                            plain.add(nm.id)
        if accs & plain:
            raise Unsupported("loop variable both accumulated and reassigned", st)
        before = dict(env)
        models = [v for v in env.values() if isinstance(v, Model)]
        for o in env.values():
            if isinstance(o, Obj):
                models += [v for v in o.attrs.values() if isinstance(v, Model)]
        marks = [(m, len(m.constraints)) for m in models]
        self.mc = MonthClass((lo.n, lo.c), (hi.n, hi.c - 1))
        env[st.target.id] = Rat.atom(MONTH)
        try:
            try:
                self.exec_block(st.body, env)
            except _Continue:
                pass
            except MonthSplit:
                raise Unsupported("month predicate inside a symbolic loop", st)
        finally:
            loop_class = self.mc
            self.mc = None
        for m, n0 in marks:
            if not hasattr(m, "loop_class"):
                m.loop_class = {}
            for i in range(n0, len(m.constraints)):
                m.loop_class[i] = loop_class
        for name in accs:
            if name not in env:
                continue
            new = env[name]
            old = before.get(name)
            if isinstance(new, Model):
                continue
            if not isinstance(new, Rat) or not isinstance(old, (Rat, NewVar)):
                raise Unsupported("accumulator " + name + " is not numeric", st)
            oldr = self.to_rat(old, st)
            env[name] = oldr + self.sum_over(new - oldr, lo, hi, st)
        for name in plain:
            if name in env:
                env[name] = Opaque("loop-local:" + name)
        env[st.target.id] = Rat.atom(NSYM) * Rat.const(hi.n) + Rat.const(hi.c - 1)

    def sum_over(self, delta, lo, hi, node):
        """sum_{M=lo}^{hi-1} delta(M), delta linear in month-indexed atoms"""
        def month_dep(a):
            if a == MONTH:
                return True
            idx = getattr(a, "idx", None)
            return isinstance(idx, Idx) and idx.m != 0

        if any(month_dep(a) for a in delta.d.atoms()):
            raise Unsupported("month-dependent denominator in an accumulated sum", node)
        count = Rat.atom(NSYM) * Rat.const(hi.n - lo.n) + Rat.const(hi.c - lo.c)
        out = Rat.const(0)
        den = Rat(Poly.const(1), delta.d)
        for mono, c in delta.n.t.items():
            deps = [(a, e) for a, e in mono if month_dep(a)]
            rest = tuple((a, e) for a, e in mono if not month_dep(a))
            base = Rat(Poly({rest: c}))
            if not deps:
                out = out + base * count
                continue
            if len(deps) > 1 or deps[0][1] != 1 or deps[0][0] == MONTH:
                raise Unsupported("accumulated term not linear in month-indexed atoms", node)
            a = deps[0][0]
            tag = ("sum", (lo.n, lo.c), (hi.n, hi.c), a.idx.c)
            a2 = type(a)(a[0], tag)
            out = out + base * Rat.atom(a2)
        return out * den

    def assign(self, tgt, val, env):
        if isinstance(tgt, ast.Name):
            env[tgt.id] = val
        elif isinstance(tgt, (ast.Tuple, ast.List)):
            if isinstance(val, PList):
                vals = val.items
            elif isinstance(val, tuple):
                vals = list(val)
            else:
                raise Unsupported("unpacking " + canon(val), tgt)
            stars = [i for i, t in enumerate(tgt.elts) if isinstance(t, ast.Starred)]
            if len(stars) == 1 and len(vals) >= len(tgt.elts) - 1:
                i = stars[0]
                n_after = len(tgt.elts) - i - 1
                mid = vals[i:len(vals) - n_after]
                for t, v in zip(tgt.elts[:i], vals[:i]):
                    self.assign(t, v, env)
                self.assign(tgt.elts[i].value, PList(list(mid)), env)
                for t, v in zip(tgt.elts[i + 1:], vals[len(vals) - n_after:] if n_after else []):
                    self.assign(t, v, env)
                return
            if len(vals) != len(tgt.elts):
                raise Unsupported("unpack arity mismatch", tgt)
            for t, v in zip(tgt.elts, vals):
                self.assign(t, v, env)
        elif isinstance(tgt, ast.Attribute):
            obj = self.eval(tgt.value, env)
            if isinstance(obj, Obj):
                obj.attrs[tgt.attr] = val
            elif isinstance(obj, Model):
                setattr(obj, tgt.attr, val) if tgt.attr in ("sense",) else None
            else:
                raise Unsupported("attribute store on " + canon(obj), tgt)
        elif isinstance(tgt, ast.Subscript):
            obj = self.eval(tgt.value, env)
            key = self.eval(tgt.slice, env)
            if isinstance(obj, PDict):
                dk = self.dkey(key, tgt)
                obj.d[dk] = val
                obj.k.setdefault(dk, key)
            elif isinstance(obj, VarFamily):
                idx = self.index_of(key, tgt)
                if not isinstance(val, NewVar):
                    raise Unsupported("non-variable stored into variables[...]", tgt)
                val.atom = V(obj.family, idx)
                obj.vd.created[(obj.family, idx)] = val
            elif isinstance(obj, VarsDict):
                obj.extra[self.dkey(key, tgt)] = val
                if isinstance(val, NewVar):
                    val.atom = V(self.dkey(key, tgt), None)
            elif isinstance(obj, PList):
                i = self.to_rat(key, tgt).as_int()
                obj.items[i] = val
            elif isinstance(obj, NArr) and isinstance(key, NMask) and len(key.segs) == len(obj.segs) and isinstance(val, (Rat, Path, bool)):
                obj.segs = [((val if m else f), n) for (f, n), (m, _) in zip(obj.segs, key.segs)]
            else:
                raise Unsupported("subscript store on " + canon(obj), tgt)
        else:
            raise Unsupported("assignment target " + type(tgt).__name__, tgt)

    def dkey(self, key, node=None):
        if isinstance(key, str):
            return key
        if isinstance(key, Rat) and key.is_const():
            v = key.const_value()
            return int(v) if v.denominator == 1 else v
        if isinstance(key, (bool, type(None))):
            return key
        if isinstance(key, Rat):
            return ("sym", str(key))
        if isinstance(key, Path):
            return ("path", key.key())
        raise Unsupported("dict key " + canon(key), node)

    def model_add(self, model, val, node):
        name = None
        if isinstance(val, tuple) and len(val) == 2:
            val, name = val
        if isinstance(val, Cmp):
            model.constraints.append((name, val))
            model.events.append(("constraint", name, val, getattr(node, "lineno", None)))
        elif isinstance(val, (Rat, NewVar, Path)):
            model.objective = self.to_rat(val, node)
            model.events.append(("objective", None, model.objective, getattr(node, "lineno", None)))
        elif isinstance(val, bool):
            # a comparison that folded to a python bool (no LP variable in it)
            model.constraints.append((name, val))
            model.events.append(("bool", name, val, getattr(node, "lineno", None)))
        else:
            raise Unsupported("model += " + canon(val), node)

    # ---------------------------------------------------------------- expressions
    def eval(self, e, env):
        m = getattr(self, "e_" + type(e).__name__, None)
        if m is None:
            raise Unsupported("expression " + type(e).__name__, e)
        return m(e, env)

    def e_Lambda(self, e, env):
        # a lambda is a small nested function: same closure semantics as `def`
        fn = ast.FunctionDef(name="<lambda>", args=e.args, body=[ast.Return(value=e.body)], decorator_list=[], returns=None, type_comment=None)
        ast.copy_location(fn, e)
        ast.fix_missing_locations(fn)
        return FuncRef(fn, env)

    def e_Constant(self, e, env):
        v = e.value
        if isinstance(v, bool) or v is None or isinstance(v, str):
            return v
        if isinstance(v, (int, float)):
            return Rat.lit(v)
        raise Unsupported("constant " + repr(v), e)

    def e_Name(self, e, env):
        if e.id in env:
            return env[e.id]
        if e.id in self.globals:
            return self.globals[e.id]
        if e.id in self.classes:
            return Opaque("class:" + e.id)
        if Interp.global_literals is not None and e.id in Interp.global_literals:
            node = Interp.global_literals[e.id]
            try:
                return self.eval(node, {})
            except Unsupported:
                pass
        if e.id in ("True", "False", "None"):
            return {"True": True, "False": False, "None": None}[e.id]
        return Opaque(e.id)

    def e_Tuple(self, e, env):
        return tuple(self.eval(x, env) for x in e.elts)

    def e_List(self, e, env):
        return PList([self.eval(x, env) for x in e.elts])

    def e_Dict(self, e, env):
        d = PDict()
        for k, v in zip(e.keys, e.values):
            if k is None:
                raise Unsupported("dict unpacking", e)
            kv = self.eval(k, env)
            dk = self.dkey(kv, e)
            d.d[dk] = self.eval(v, env)
            d.k[dk] = kv
        return d

    def e_JoinedStr(self, e, env):
        out = ""
        for part in e.values:
            if isinstance(part, ast.Constant):
                out += str(part.value)
            else:
                out += self.to_str(self.eval(part.value, env), part)
        return out

    def to_str(self, v, node=None):
        if isinstance(v, str):
            return v
        if isinstance(v, Rat):
            if v.is_const():
                c = v.const_value()
                return str(int(c)) if c.denominator == 1 else str(float(c))
            return "{" + str(v) + "}"
        if isinstance(v, Path):
            return "{" + v.key() + "}"
        if isinstance(v, (bool, type(None))):
            return str(v)
        return "{" + canon(v) + "}"

    def e_IfExp(self, e, env):
        if self.truth(self.eval(e.test, env), e.test):
            return self.eval(e.body, env)
        return self.eval(e.orelse, env)

    def e_UnaryOp(self, e, env):
        v = self.eval(e.operand, env)
        if isinstance(e.op, ast.Not):
            return not self.truth(v, e)
        if isinstance(e.op, ast.USub):
            return -self.to_rat(v, e)
        if isinstance(e.op, ast.UAdd):
            return self.to_rat(v, e)
        if isinstance(e.op, ast.Invert) and isinstance(v, NMask):
            return NMask([(not t, n) for t, n in v.segs])
        if isinstance(e.op, ast.Invert) and isinstance(v, bool):
            return not v
        raise Unsupported("unary op", e)

    def e_BoolOp(self, e, env):
        if isinstance(e.op, ast.And):
            last = True
            for x in e.values:
                last = self.eval(x, env)
                if not self.truth(last, x):
                    return last  # python semantics: the operand itself
            return last
        last = False
        for x in e.values:
            last = self.eval(x, env)
            if self.truth(last, x):
                return last
        return last

    def e_BinOp(self, e, env):
        a = self.eval(e.left, env)
        b = self.eval(e.right, env)
        return self.binop(e.op, a, b, e)

    def binop(self, op, a, b, node):
        if isinstance(op, (ast.BitAnd, ast.BitOr)) and (isinstance(a, (NMask, bool)) and isinstance(b, (NMask, bool))):
            f = (lambda x, y: x and y) if isinstance(op, ast.BitAnd) else (lambda x, y: x or y)
            if isinstance(a, bool) and isinstance(b, bool):
                return f(a, b)
            if isinstance(a, bool):
                return NMask([(f(a, t), n) for t, n in b.segs])
            if isinstance(b, bool):
                return NMask([(f(t, b), n) for t, n in a.segs])
            if len(a.segs) == len(b.segs) and all(canon(x[1]) == canon(y[1]) for x, y in zip(a.segs, b.segs)):
                return NMask([(f(x[0], y[0]), x[1]) for x, y in zip(a.segs, b.segs)])
            raise Unsupported("boolean arrays of different shapes", node)
        if isinstance(a, NArr) or isinstance(b, NArr):
            return self.narr_binop(op, a, b, node)
        if isinstance(op, ast.Add):
            if isinstance(a, str) or isinstance(b, str):
                return self.to_str(a, node) + self.to_str(b, node)
            if isinstance(a, PList) and isinstance(b, PList):
                return PList(a.items + b.items)
            if isinstance(a, (RLE, RLECat)) or isinstance(b, (RLE, RLECat)):
                sa, sb = _segs(a), _segs(b)
                if sa is None or sb is None:
                    raise Unsupported("list concatenation with a non-list", node)
                return RLECat(sa + sb)
            if isinstance(a, tuple) and isinstance(b, tuple):
                return a + b
            if isinstance(a, Cmp) or isinstance(b, Cmp):
                raise Unsupported("arithmetic on a constraint (operator precedence?)", node)
            return self.to_rat(a, node) + self.to_rat(b, node)
        if isinstance(op, ast.Mult):
            if isinstance(a, PList) and isinstance(b, (Rat, Path)):
                return self.repeat(a, b, node)
            if isinstance(b, PList) and isinstance(a, (Rat, Path)):
                return self.repeat(b, a, node)
            if isinstance(a, str) or isinstance(b, str):
                raise Unsupported("string repetition", node)
        if isinstance(a, Cmp) or isinstance(b, Cmp):
            raise Unsupported("arithmetic on a constraint (operator precedence?)", node)
        ra, rb = self.to_rat(a, node), self.to_rat(b, node)
        try:
            if isinstance(op, ast.Sub):
                return ra - rb
            if isinstance(op, ast.Mult):
                return ra * rb
            if isinstance(op, ast.Div):
                if rb.is_zero():
                    raise Unsupported("division by literal zero", node)
                return ra / rb
            if isinstance(op, ast.Pow):
                if rb.is_const() and rb.const_value().denominator == 1:
                    return ra ** int(rb.const_value())
                return Rat.atom(("pow", str(ra), str(rb)))
            if isinstance(op, ast.FloorDiv):
                if ra.is_const() and rb.is_const():
                    return Rat.const(ra.const_value() // rb.const_value())
                return Rat.atom(("floordiv", str(ra), str(rb)))
            if isinstance(op, ast.Mod):
                if ra.is_const() and rb.is_const():
                    return Rat.const(ra.const_value() % rb.const_value())
                return Rat.atom(("mod", str(ra), str(rb)))
        except RatError as ex:
            raise Unsupported(str(ex), node)
        raise Unsupported("binary op " + type(op).__name__, node)

    def narr_binop(self, op, a, b, node):
        def scalar(x):
            return isinstance(x, (Rat, Path, NewVar, bool))

        if isinstance(a, NArr) and scalar(b):
            rb = self.to_rat(b, node)
            return a.map(lambda x: self.binop(op, self.to_rat(x, node), rb, node))
        if isinstance(b, NArr) and scalar(a):
            ra = self.to_rat(a, node)
            return b.map(lambda x: self.binop(op, ra, self.to_rat(x, node), node))
        if isinstance(a, NArr) and isinstance(b, NArr) and len(a.segs) == len(b.segs) and all(
                canon(x[1]) == canon(y[1]) for x, y in zip(a.segs, b.segs)):
            return NArr([(self.binop(op, self.to_rat(x[0], node), self.to_rat(y[0], node), node), x[1]) for x, y in zip(a.segs, b.segs)],
                        a.truncated_to)
        raise Unsupported("array arithmetic with mismatched shapes", node)

    def repeat(self, lst, n, node):
        n = self.to_rat(n, node)
        if n.is_const() and (n.as_int() <= 24 or len(lst.items) != 1):
            return PList(lst.items * n.as_int())
        if len(lst.items) == 1:
            return RLE(lst.items[0], n)
        raise Unsupported("symbolic repetition of a multi-element list", node)

    def e_Compare(self, e, env):
        left = self.eval(e.left, env)
        result = True
        for op, rnode in zip(e.ops, e.comparators):
            right = self.eval(rnode, env)
            r = self.compare(op, left, right, e)
            if len(e.ops) == 1:
                return r
            if not self.truth(r, e):
                return False
            left = right
        return result

    def compare(self, op, a, b, node):
        opname = {
            ast.Eq: "==", ast.NotEq: "!=", ast.Lt: "<", ast.LtE: "<=", ast.Gt: ">", ast.GtE: ">=",
            ast.In: "in", ast.NotIn: "not in", ast.Is: "is", ast.IsNot: "is not",
        }[type(op)]
        if opname in ("in", "not in"):
            if isinstance(b, PList):
                keys = [self.dkey(x) if not isinstance(x, (tuple, PList)) else canon(x) for x in b.items]
                res = self.dkey(a) in keys
            elif isinstance(b, tuple):
                res = self.dkey(a) in [self.dkey(x) for x in b]
            elif isinstance(b, PDict):
                res = self.dkey(a) in b.d
            elif isinstance(b, str) and isinstance(a, str):
                res = a in b
            else:
                return self.fork(f"{canon(a)} in {canon(b)}") ^ (opname == "not in")
            return res ^ (opname == "not in")
        if opname in ("is", "is not"):
            if a is None or b is None:
                res = (a is None) and (b is None)
                if (a is None) != (b is None) and isinstance(a if b is None else b, (Path, Opaque)):
                    return self.fork(f"{canon(a)} is {canon(b)}") ^ (opname == "is not")
                return res ^ (opname == "is not")
            raise Unsupported("identity comparison", node)
        if isinstance(a, str) and isinstance(b, str):
            if opname == "==":
                return a == b
            if opname == "!=":
                return a != b
            raise Unsupported("string ordering", node)
        if isinstance(a, (bool, type(None))) and isinstance(b, (bool, type(None))) and opname in ("==", "!="):
            return (a == b) ^ (opname == "!=")
        if isinstance(a, str) or isinstance(b, str):
            other = b if isinstance(a, str) else a
            if isinstance(other, (Rat, bool, type(None), PList, tuple, PDict)):
                return opname == "!="
            if isinstance(other, (Path, Opaque)):
                s = a if isinstance(a, str) else b
                return self.fork(f"{canon(other)} == {s!r}") ^ (opname == "!=")
            raise Unsupported("string compared with " + canon(other), node)
        if isinstance(a, NArr) or isinstance(b, NArr):
            scal = (Rat, Path, NewVar, bool)
            if isinstance(a, NArr) and isinstance(b, scal):
                pairs = [(x, b, n) for x, n in a.segs]
            elif isinstance(b, NArr) and isinstance(a, scal):
                pairs = [(a, y, n) for y, n in b.segs]
            elif isinstance(a, NArr) and isinstance(b, NArr) and len(a.segs) == len(b.segs) and all(
                    canon(x[1]) == canon(y[1]) for x, y in zip(a.segs, b.segs)):
                pairs = [(x[0], y[0], x[1]) for x, y in zip(a.segs, b.segs)]
            else:
                raise Unsupported("array comparison with mismatched shapes", node)
            return NMask([(self.truth(self.compare(op, x, y, node), node), n) for x, y, n in pairs])
        if isinstance(a, (Rat, Path, NewVar, bool)) and isinstance(b, (Rat, Path, NewVar, bool)):
            ra, rb = self.to_rat(a, node), self.to_rat(b, node)
            if ra.vars() or rb.vars():
                if opname not in ("<=", ">=", "=="):
                    raise Unsupported("strict/!= comparison of LP expressions", node)
                return Cmp(ra, opname, rb, node)
            diff = ra - rb
            if diff.is_const():
                c = diff.const_value()
                return {"==": c == 0, "!=": c != 0, "<": c < 0, "<=": c <= 0, ">": c > 0, ">=": c >= 0}[opname]
            aff = self.month_affine(diff)
            if aff is not None:
                return self.decide_month_cmp(aff, opname, node)
            # data-dependent predicate: canonical key `diff op 0`
            key = f"({diff}) {opname} 0"
            self.pred_exprs[key] = (diff, opname)
            return self.fork(key)
        if isinstance(a, (PList, tuple)) and isinstance(b, (PList, tuple)) and opname in ("==", "!="):
            return (canon(a) == canon(b)) ^ (opname == "!=")
        if a is None or b is None:
            if opname in ("==", "!="):
                other = b if a is None else a
                if isinstance(other, (Path, Opaque)):
                    return self.fork(f"{canon(other)} == None") ^ (opname == "!=")
                return ((a is None) and (b is None)) ^ (opname == "!=")
        raise Unsupported(f"comparison {canon(a)} {opname} {canon(b)}", node)

    def e_Attribute(self, e, env):
        obj = self.eval(e.value, env)
        return self.getattr(obj, e.attr, e)

    def class_constant(self, cls, attr):
        """value of a class-level `NAME = <literal expression>` (numbers/strings only), or None"""
        seen = 0
        while cls is not None and seen < 5:
            for st in cls.body:
                tgt = None
                if isinstance(st, ast.Assign) and len(st.targets) == 1 and isinstance(st.targets[0], ast.Name):
                    tgt, val = st.targets[0].id, st.value
                elif isinstance(st, ast.AnnAssign) and isinstance(st.target, ast.Name) and st.value is not None:
                    tgt, val = st.target.id, st.value
                if tgt == attr and not any(isinstance(n, (ast.Name, ast.Call, ast.Attribute, ast.Set)) for n in ast.walk(val)):
                    # literals only (numbers, strings, and tuples / lists / dicts of them): a read-only table
                    try:
                        return self.eval(val, {})
                    except Unsupported:
                        return None
            base = None
            for b in cls.bases:
                if isinstance(b, ast.Name) and b.id in self.classes:
                    base = self.classes[b.id]
            cls = base
            seen += 1
        return None

    def getattr(self, obj, attr, node):
        if isinstance(obj, Obj):
            if attr in obj.attrs:
                return obj.attrs[attr]
            fn = self.find_method(obj, attr)
            if fn is not None:
                return BoundMethod(obj, fn)
            if obj.cls is not None:
                cv = self.class_constant(obj.cls, attr)
                if cv is not None:
                    return cv
            return Path((obj.name, attr))
        if isinstance(obj, Path):
            return Path(obj.parts + (attr,), obj.idx)
        if isinstance(obj, Opaque):
            if attr == "varValue":
                return Rat.atom(("varValue", obj.name))
            if obj.name.startswith("class:") and obj.name[6:] in self.classes:
                cv = self.class_constant(self.classes[obj.name[6:]], attr)
                if cv is not None:
                    return cv
            # a literal table kept on another class of the repository (`Validator.PRIORITY`): read through the repository-wide index
            key = obj.name + "." + attr
            if Interp.global_literals is not None and key in Interp.global_literals:
                try:
                    return self.eval(Interp.global_literals[key], {})
                except Unsupported:
                    pass
            return Opaque(obj.name + "." + attr)
        if isinstance(obj, Model):
            if attr == "objective":
                return Opaque("model.objective")
            return BoundMethod(obj, attr)
        if isinstance(obj, (PDict, PList, str, VarsDict)):
            return BoundMethod(obj, attr)
        if isinstance(obj, (NewVar,)):
            if attr == "varValue":
                return Rat.atom(("varValue", canon(obj)))
            return BoundMethod(obj, attr)
        if isinstance(obj, Rat):
            if attr == "varValue":
                return Rat.atom(("varValue", str(obj)))
            return BoundMethod(obj, attr)
        raise Unsupported(f"attribute {attr} of {canon(obj)}", node)

    def e_Subscript(self, e, env):
        obj = self.eval(e.value, env)
        if isinstance(e.slice, ast.Slice):
            return self.getslice(obj, e.slice, env, e)
        key = self.eval(e.slice, env)
        return self.getitem(obj, key, e)

    def getslice(self, obj, sl, env, node):
        lo = self.eval(sl.lower, env) if sl.lower is not None else None
        hi = self.eval(sl.upper, env) if sl.upper is not None else None
        if sl.step is not None:
            raise Unsupported("slice step", node)

        def const(v):
            return v is None or (isinstance(v, Rat) and v.is_const() and v.const_value().denominator == 1)

        if isinstance(obj, (PList, tuple)) and const(lo) and const(hi):
            items = obj.items if isinstance(obj, PList) else list(obj)
            a = None if lo is None else lo.as_int()
            b = None if hi is None else hi.as_int()
            return tuple(items[a:b]) if isinstance(obj, tuple) else PList(items[a:b])      # a slice of a tuple is a tuple
        tag = f"[{canon(lo) if lo is not None else ''}:{canon(hi) if hi is not None else ''}]"
        if isinstance(obj, (RLE, RLECat, NArr)) and const(lo) and const(hi):
            segs = _segs(obj)
            if all(isinstance(n, Rat) and n.is_const() for _, n in segs) and sum(n.as_int() for _, n in segs) <= 5000:
                flat = [f for f, n in segs for _ in range(n.as_int())]
                a = None if lo is None else lo.as_int()
                b = None if hi is None else hi.as_int()
                flat = flat[a:b]
                out = []
                for f in flat:
                    if out and canon(out[-1][0]) == canon(f):
                        out[-1] = (out[-1][0], out[-1][1] + Rat.const(1))
                    else:
                        out.append((f, Rat.const(1)))
                return NArr(out) if isinstance(obj, NArr) else RLECat(out)
        if isinstance(obj, (RLE, RLECat, PList, NArr)):
            # symbolic truncation of a (long) list: keep the segments, remember the bound
            segs = _segs(obj)
            if lo is None or (isinstance(lo, Rat) and lo.is_zero()):
                out = NArr(segs, hi) if isinstance(obj, NArr) else RLECat(segs)
                out.truncated_to = hi
                return out
            raise Unsupported("symbolic slice start on a list", node)
        if isinstance(obj, Path):
            if obj.idx is not None:
                raise Unsupported("slice of an indexed path", node)
            return Path(obj.parts + (tag,), None)
        if isinstance(obj, Opaque):
            return Opaque(obj.name + tag)
        if isinstance(obj, Rat):
            return Rat.atom(("slice", str(obj), tag))
        raise Unsupported(f"slice of {canon(obj)}", node)

    def getitem(self, obj, key, node):
        if isinstance(key, NArr) and _segs(obj) is not None:
            # fancy indexing with an array of literal indices into a sequence whose runs have literal lengths
            flat = []
            for f, n in _segs(obj):
                n = self.to_rat(n, node)
                if not n.is_const():
                    raise Unsupported("index array into a sequence of symbolic length", node)
                flat += [f] * n.as_int()
            out = []
            for f, n in key.segs:
                f, n = self.to_rat(f, node), self.to_rat(n, node)
                if not (f.is_const() and f.const_value().denominator == 1):
                    raise Unsupported("symbolic index array", node)
                i = int(f.const_value())
                if not -len(flat) <= i < len(flat):
                    raise Abort("index out of range")
                out.append((flat[i], n))
            return NArr(out)
        if isinstance(obj, PDict):
            k = self.dkey(key, node)
            if k not in obj.d:
                raise Unsupported(f"key {k!r} not in dict literal", node)
            return obj.d[k]
        if isinstance(obj, (PList, tuple)):
            items = obj.items if isinstance(obj, PList) else obj
            r = self.to_rat(key, node)
            if not r.is_const():
                raise Unsupported("symbolic index into a literal list", node)
            return items[r.as_int()]
        if isinstance(obj, RLE):
            return obj.fill
        if isinstance(obj, (NArr, RLECat)):
            r = self.to_rat(key, node)
            if r.is_const():
                i = r.as_int()
                pos = 0
                for fill, n in obj.segs:
                    nn = self.to_rat(n, node) if not isinstance(n, tuple) else None
                    if nn is None or not nn.is_const():
                        break
                    if pos <= i < pos + nn.as_int():
                        return fill
                    pos += nn.as_int()
            if len(obj.segs) == 1:
                fill = obj.segs[0][0]
                uses_idx = isinstance(fill, Rat) and any(a == EIDX for a in fill.atoms())
                if not uses_idx or r == Rat.atom(EIDX):
                    return fill
            raise Unsupported("index into a run-length array not decidable", node)
        if isinstance(obj, VarsDict):
            k = self.dkey(key, node)
            if k in obj.extra:
                return obj.extra[k]
            return VarFamily(obj, k)
        if isinstance(obj, VarFamily):
            idx = self.index_of(key, node)
            if not obj.vd.enabled(obj.family, self):
                return Rat.const(0)
            return Rat.atom(V(obj.family, idx))
        if isinstance(obj, Path):
            if isinstance(key, str):
                np_ = obj.parts + (key,)
                if obj.idx is None and np_ in self.path_alias:
                    return self.path_alias[np_]
                return Path(np_, obj.idx)
            if obj.idx is not None:
                raise Unsupported("second index on " + obj.key(), node)
            if isinstance(key, (Path, Rat)) and not (isinstance(key, Rat) and self.month_affine(self.to_rat(key, node)) is not None):
                kr = self.to_rat(key, node)
                if not kr.is_const() and self.month_affine(kr) is None:
                    # keyed by data (a dictionary looked up with a run-time key): an opaque element named after the key
                    return Path(obj.parts + ("[" + canon(key) + "]",), None)
            return Path(obj.parts + ("[]",), self.index_of(key, node))
        if isinstance(obj, Opaque):
            return Opaque(obj.name + "[" + canon(key) + "]")
        raise Unsupported(f"subscript of {canon(obj)}", node)

    def e_GeneratorExp(self, e, env):
        """evaluated eagerly like a list comprehension (the fragment has no side effects that could tell the difference)"""
        return self.e_ListComp(e, env)

    def e_ListComp(self, e, env):
        out = []

        def rec(gi, env2):
            if gi == len(e.generators):
                out.append(self.eval(e.elt, env2))
                return
            g = e.generators[gi]
            it = self.eval(g.iter, env2)
            if isinstance(it, PList):
                items = it.items
            elif isinstance(it, tuple):
                items = list(it)
            elif isinstance(it, PDict):
                items = it.okeys()
            elif isinstance(it, SymRange) and len(e.generators) == 1 and not g.ifs and it.step == Rat.const(1):
                env3 = dict(env2)
                self.assign(g.target, Rat.atom(EIDX), env3)
                raise _ElemComp(RLE(self.eval(e.elt, env3), it.hi - it.lo))
            else:
                raise Unsupported("comprehension over " + canon(it), e)
            for x in items:
                env3 = dict(env2)
                self.assign(g.target, x, env3)
                if all(self.truth(self.eval(c, env3), c) for c in g.ifs):
                    rec(gi + 1, env3)

        try:
            rec(0, dict(env))
        except _ElemComp as ec:
            return ec.value
        return PList(out)

    def e_DictComp(self, e, env):
        out = PDict()

        def rec(gi, env2):
            if gi == len(e.generators):
                k = self.eval(e.key, env2)
                dk = self.dkey(k, e)
                out.d[dk] = self.eval(e.value, env2)
                out.k.setdefault(dk, k)
                return
            g = e.generators[gi]
            it = self.eval(g.iter, env2)
            if isinstance(it, PList):
                items = it.items
            elif isinstance(it, tuple):
                items = list(it)
            elif isinstance(it, PDict):
                items = it.okeys()
            else:
                raise Unsupported("dict comprehension over " + canon(it), e)
            for x in items:
                env3 = dict(env2)
                self.assign(g.target, x, env3)
                if all(self.truth(self.eval(c, env3), c) for c in g.ifs):
                    rec(gi + 1, env3)

        rec(0, dict(env))
        return out

    # ---------------------------------------------------------------- calls
    def e_Call(self, e, env):
        fnode = e.func
        if isinstance(fnode, ast.Attribute) and fnode.attr == "astype":
            # mask.astype(float) / (a < b).astype(int): 1 where true, 0 where false (a decided comparison: the decided value);
            # array.astype(float): the same numbers (dtypes are not modelled here)
            try:
                v0 = self.eval(fnode.value, env)
            except Unsupported:
                v0 = None
            if isinstance(v0, bool):
                return Rat.const(1 if v0 else 0)
            if isinstance(v0, NMask):
                return NArr([(Rat.const(1 if t else 0), n) for t, n in v0.segs])
            if isinstance(v0, (NArr, RLE, RLECat, Rat)):
                return v0
        if isinstance(fnode, ast.Attribute) and fnode.attr in ("all", "any") and not e.args and not e.keywords:
            # (a <= b).all() where the comparison was decided on the path: the decided truth value
            try:
                v0 = self.eval(fnode.value, env)
            except Unsupported:
                v0 = None
            if isinstance(v0, bool):
                return v0
        args = []
        for a in e.args:
            if isinstance(a, ast.Starred):
                sv = self.eval(a.value, env)
                if isinstance(sv, PList):
                    args.extend(sv.items)
                elif isinstance(sv, tuple):
                    args.extend(sv)
                else:
                    raise Unsupported("star args of " + canon(sv), e)
                continue
            args.append(self.eval(a, env))
        kwargs = {}
        for k in e.keywords:
            if k.arg is None:
                kv = self.eval(k.value, env)
                if isinstance(kv, PDict) and all(isinstance(x, str) for x in kv.d):
                    for kk, vv in kv.d.items():
                        kwargs[kk] = vv
                    continue
                raise Unsupported("**kwargs", e)
            kwargs[k.arg] = self.eval(k.value, env)
        dotted = _dotted(fnode)
        if self.call_hook is not None:
            self.call_env = env  # lets a hook evaluate the receiver of a method call
            r = self.call_hook(self, dotted, args, kwargs, e)
            if r is not NotImplemented:
                return r
        # <table>.get(key, default) on a table whose keys are known (the constants the parameter code hands over): the entry when the key is
        # one of them, the default otherwise - a key nobody writes silently takes the default
        if isinstance(fnode, ast.Attribute) and fnode.attr == "get" and 1 <= len(args) <= 2 and not kwargs and isinstance(args[0], str) \
                and getattr(self, "path_keys", None):
            try:
                recv = self.eval(fnode.value, env)
            except Unsupported:
                recv = None
            if isinstance(recv, Path) and recv.idx is None and recv.parts in self.path_keys:
                if args[0] in self.path_keys[recv.parts]:
                    return self.getitem(recv, args[0], e) if hasattr(self, "getitem") else Path(recv.parts + (args[0],), None)
                return args[1] if len(args) == 2 else None
        # builtins / library by dotted name
        if dotted == "LpVariable" or dotted == "pulp.LpVariable":
            name = kwargs.get("name", args[0] if args else None)
            low = kwargs.get("lowBound", args[1] if len(args) > 1 else None)
            up = kwargs.get("upBound", args[2] if len(args) > 2 else None)
            return NewVar(name, low, up, e)
        if dotted == "LpProblem":
            return Model(canon(kwargs.get("name", args[0] if args else "model")))
        if dotted == "range":
            return self.do_range(args, e)
        if dotted == "enumerate" and len(args) in (1, 2) and isinstance(args[0], (PList, tuple)) and not (set(kwargs) - {"start"}):
            items = args[0].items if isinstance(args[0], PList) else list(args[0])
            start = args[1] if len(args) == 2 else kwargs.get("start", Rat.const(0))
            start = self.to_rat(start, e)
            if not start.is_const():
                raise Unsupported("enumerate from a start that is not a literal", e)
            return PList([(Rat.const(start.as_int() + i), x) for i, x in enumerate(items)])
        if dotted == "zip" and len(args) >= 2 and all(isinstance(a, (PList, tuple)) for a in args) and not (set(kwargs) - {"strict"}):
            cols = [a.items if isinstance(a, PList) else list(a) for a in args]
            return PList([tuple(t) for t in zip(*cols)])
        if dotted == "str":
            return self.to_str(args[0], e)
        if dotted == "len":
            v = args[0]
            if isinstance(v, PList):
                return Rat.const(len(v.items))
            if isinstance(v, tuple):
                return Rat.const(len(v))
            if isinstance(v, PDict):
                return Rat.const(len(v.d))
            if isinstance(v, RLE):
                return v.length
            if isinstance(v, (NArr, RLECat)):
                if getattr(v, "truncated_to", None) is not None:
                    return self.to_rat(v.truncated_to, e)
                tot = Rat.const(0)
                for _, n in v.segs:
                    tot = tot + self.to_rat(n, e)
                return tot
            if isinstance(v, str):
                return Rat.const(len(v))
            return Rat.atom(("len", canon(v)))
        if dotted == "isinstance":
            return self.do_isinstance(args, e, env)
        if dotted == "sorted" and len(args) == 1 and isinstance(args[0], (PList, tuple)) and set(kwargs) <= {"key", "reverse"} and (
                "key" in kwargs or all(isinstance(x, str) or (isinstance(x, Rat) and x.is_const()) for x in (args[0].items if isinstance(args[0], PList) else args[0]))):
            items_ = list(args[0].items if isinstance(args[0], PList) else args[0])
            return PList(self._sorted_items(items_, kwargs.get("key"), kwargs.get("reverse", False), e))
        if dotted in ("groupby", "itertools.groupby") and len(args) >= 1 and isinstance(args[0], (PList, tuple)):
            keyf = kwargs.get("key", args[1] if len(args) > 1 else None)
            groups = []
            for x in (args[0].items if isinstance(args[0], PList) else args[0]):
                k = self._key_of(keyf, x, e)
                if groups and groups[-1][0] == k:
                    groups[-1][1].append(x)
                else:
                    groups.append((k, [x]))
            return PList([((k[1] if k[0] == 1 else Rat.const(k[1])), PList(g)) for k, g in groups])
        if dotted == "setattr" and len(args) == 3 and isinstance(args[0], Obj) and isinstance(args[1], str):
            args[0].attrs[args[1]] = args[2]
            return None
        if dotted == "hasattr":
            v = args[0]
            if isinstance(v, Rat) and args[1] == "varValue":
                return bool(v.vars())
            return self.fork(f"hasattr({canon(v)},{canon(args[1])})")
        if dotted == "print":
            return None
        if dotted in ("sys.exit", "exit", "quit"):
            raise Abort("sys.exit")
        if dotted in ("float", "int") and args and isinstance(args[0], Rat) and args[0].is_const():
            if dotted == "int":
                return Rat.const(int(args[0].const_value()))
            return args[0]
        if dotted in ("abs",) and args and isinstance(args[0], Rat) and args[0].is_const():
            return Rat.const(abs(args[0].const_value()))
        if dotted in ("min", "max") and args and all(isinstance(a, Rat) and a.is_const() for a in args):
            f = min if dotted == "min" else max
            return Rat.const(f(a.const_value() for a in args))
        if dotted in ("min", "max") and len(args) >= 2 and all(isinstance(a, (Rat, Path)) for a in args) and not kwargs:
            rs = [self.to_rat(a, e) for a in args]
            if not any(r.vars() for r in rs):
                best = rs[0]
                for r in rs[1:]:
                    le = self.truth(self.compare(ast.LtE(), best, r, e), e)
                    if dotted == "min":
                        best = best if le else r
                    else:
                        best = r if le else best
                return best
        if dotted in ("all", "any") and len(args) == 1 and isinstance(args[0], (PList, tuple)) and not kwargs:
            items = args[0].items if isinstance(args[0], PList) else list(args[0])
            vals = [self.truth(x, e) for x in items]
            return all(vals) if dotted == "all" else any(vals)
        if dotted == "getattr" and len(args) in (2, 3) and isinstance(args[1], str) and isinstance(args[0], (Obj, Path, Opaque)):
            return self.getattr(args[0], args[1], e)
        if dotted == "dict" and not args:
            return PDict(kwargs)
        if dotted == "list" and len(args) == 1 and isinstance(args[0], (PList, tuple)):
            return PList(list(args[0].items if isinstance(args[0], PList) else args[0]))
        if dotted == "tuple" and len(args) == 1 and isinstance(args[0], (PList, tuple)):
            return tuple(args[0].items if isinstance(args[0], PList) else args[0])
        # evaluate the callee expression
        callee = self.eval(fnode, env)
        if isinstance(callee, BoundMethod):
            return self.call_bound(callee, args, kwargs, e)
        if isinstance(callee, FuncRef):
            return self.call_function(callee.fn, args, kwargs, None, e, closure_env=callee.env)
        if isinstance(callee, Opaque) and callee.name != dotted and callee.name and not getattr(self, "_redispatching", False) \
                and re.fullmatch(r"[A-Za-z_][\w.]*", callee.name or ""):
            # a function value kept in a local (`minimum = np.minimum if ... else min`): called as if spelled out
            env2 = dict(env)
            for i_, a_ in enumerate(args):
                env2[f"__arg{i_}"] = a_
            for k_, v_ in kwargs.items():
                env2[f"__kw_{k_}"] = v_
            call2 = ast.Call(func=ast.parse(callee.name, mode="eval").body, args=[ast.Name(id=f"__arg{i_}", ctx=ast.Load()) for i_ in range(len(args))],
                             keywords=[ast.keyword(arg=k_, value=ast.Name(id=f"__kw_{k_}", ctx=ast.Load())) for k_ in kwargs])
            ast.copy_location(call2, e)
            ast.fix_missing_locations(call2)
            self._redispatching = True
            try:
                return self.e_Call(call2, env2)
            finally:
                self._redispatching = False
        if isinstance(callee, Opaque):
            # a module-level function (or Class.function without self) of the repository: followed, not opaque
            res = Interp.resolver(callee.name) if Interp.resolver is not None else None
            if res is not None and self.depth < MAX_DEPTH:
                return self.call_function(res, args, kwargs, None, e)
            return self.opaque_call(callee.name, args, kwargs, e)
        if isinstance(callee, Path) and not args and not kwargs:
            # method of a constants object (e.g. Food.in_units_...()): extend the path
            return Path(callee.parts[:-1] + (callee.parts[-1] + "()",), callee.idx)
        if isinstance(callee, Path):
            return self.opaque_call(callee.key(), args, kwargs, e)
        raise Unsupported("call of " + canon(callee), e)

    def _key_of(self, keyf, x, node):
        if keyf is None:
            k = x
        elif isinstance(keyf, FuncRef):
            k = self.call_function(keyf.fn, [x], {}, None, node, closure_env=keyf.env)
        else:
            raise Unsupported("sort/group key is not a function of the repository", node)
        if isinstance(k, Rat) and k.is_const():
            return (0, k.const_value())
        if isinstance(k, str):
            return (1, k)
        raise Unsupported("sort/group key is not a literal value", node)

    def _sorted_items(self, items, keyf, reverse, node):
        keyed = [(self._key_of(keyf, x, node), i, x) for i, x in enumerate(items)]
        keyed.sort(key=lambda t: (t[0], t[1]))
        out = [x for _, _, x in keyed]
        if reverse is True:
            # stable descending order
            keyed.sort(key=lambda t: t[0], reverse=True)
            out = [x for _, _, x in keyed]
        return out

    def opaque_call(self, name, args, kwargs, node):
        if not self.opaque_calls:
            raise Unsupported("call to unmodelled function " + name, node)
        key = ("call", name) + tuple(canon(a) for a in args) + tuple(
            f"{k}={canon(v)}" for k, v in sorted(kwargs.items())
        )
        return Rat.atom(key)

    def do_range(self, args, node):
        rs = [self.to_rat(a, node) for a in args]
        if len(rs) == 1:
            lo, hi, step = Rat.const(0), rs[0], Rat.const(1)
        elif len(rs) == 2:
            lo, hi, step = rs[0], rs[1], Rat.const(1)
        else:
            lo, hi, step = rs
        if lo.is_const() and hi.is_const() and step.is_const():
            return PList([Rat.const(i) for i in range(lo.as_int(), hi.as_int(), step.as_int())])
        return SymRange(lo, hi, step)

    def do_isinstance(self, args, node, env):
        v, t = args
        tn = t.name if isinstance(t, Opaque) else canon(t)
        if isinstance(v, Rat):
            if tn == "str":
                return False
            if v.vars():
                return tn in ("LpAffineExpression", "pulp.LpAffineExpression", "LpVariable")
            if tn in ("float", "int"):
                if v.is_zero():
                    # literal 0 sums: python type (int vs float) depends on the operands; undecided
                    return self.fork(f"isinstance(0,{tn})")
                return self.fork(f"isinstance({v},{tn})")
            return False
        if isinstance(v, str):
            return tn == "str"
        if isinstance(v, (NArr, NMask)):
            return tn in ("np.ndarray", "numpy.ndarray", "ndarray")
        if isinstance(v, PList):
            return tn == "list"
        if isinstance(v, PDict):
            return tn == "dict"
        if isinstance(v, tuple):
            return tn == "tuple"
        return self.fork(f"isinstance({canon(v)},{tn})")

    def call_bound(self, bm, args, kwargs, node):
        obj, fn = bm.obj, bm.fn
        if isinstance(fn, ast.FunctionDef):
            is_static = any(isinstance(d, ast.Name) and d.id == "staticmethod" for d in fn.decorator_list)
            return self.call_function(fn, args, kwargs, None if is_static else obj, node)
        name = fn
        if isinstance(obj, PDict):
            if name == "items":
                return PList([(obj.orig(k), v) for k, v in obj.d.items()])
            if name == "keys":
                return PList(obj.okeys())
            if name == "values":
                return PList(list(obj.d.values()))
            if name == "update":
                other = args[0]
                if not isinstance(other, PDict):
                    raise Unsupported("dict.update with " + canon(other), node)
                obj.d.update(other.d)
                obj.k.update(other.k)
                return None
            if name == "copy":
                return PDict(obj.d, obj.k)
            if name == "get":
                k = self.dkey(args[0], node)
                return obj.d.get(k, args[1] if len(args) > 1 else None)
        if isinstance(obj, PList):
            if name == "append":
                obj.items.append(args[0])
                return None
            if name == "extend":
                obj.items.extend(args[0].items)
                return None
            if name == "copy":
                return PList(obj.items)
            if name in ("sort",) and not args and set(kwargs) <= {"key", "reverse"}:
                obj.items[:] = self._sorted_items(obj.items, kwargs.get("key"), kwargs.get("reverse", False), node)
                return None
        if isinstance(obj, str):
            if name in ("lower", "upper", "strip", "title"):
                if not args:
                    return getattr(obj, name)()
            if name == "replace" and all(isinstance(a, str) for a in args):
                return obj.replace(*args)
            if name == "format":
                return obj.format(*[self.to_str(a) for a in args])
        if isinstance(obj, VarsDict):
            if name == "copy":
                return obj
        if isinstance(obj, Model):
            if name == "solve":
                obj.events.append(("solve", None, None, getattr(node, "lineno", None)))
                return Rat.atom(("status", obj.name, len(obj.events)))
            if name == "copy":
                c = obj.copy()
                c.events = obj.events
                return c
            if name == "setObjective":
                obj.objective = self.to_rat(args[0], node)
                obj.events.append(("objective", None, obj.objective, getattr(node, "lineno", None)))
                return None
            if name == "to_dict":
                return Opaque("model.to_dict()")
        if isinstance(obj, (Rat, NewVar)) and name == "value":
            return Rat.atom(("value", canon(obj)))
        return self.opaque_call(canon(obj) + "." + str(name), args, kwargs, node)


class _ElemComp(Exception):
    def __init__(self, value):
        self.value = value


class SymRange:
    def __init__(self, lo, hi, step):
        self.lo, self.hi, self.step = lo, hi, step


def _load(t):
    """copy of an assignment target usable as a load expression"""
    import copy

    n = copy.deepcopy(t)
    for x in ast.walk(n):
        if hasattr(x, "ctx"):
            x.ctx = ast.Load()
    return n


def _dotted(n):
    parts = []
    while isinstance(n, ast.Attribute):
        parts.append(n.attr)
        n = n.value
    if isinstance(n, ast.Name):
        parts.append(n.id)
        return ".".join(reversed(parts))
    return None


# ------------------------------------------------------------------------------------
# driver: explore all abstract environments of one entry point


BASE_PARTITION = (((0, 0), (0, 0)), ((0, 1), (1, -2)), ((1, -1), (1, -1)))


_NEG_OP = {"<": ">=", "<=": ">", ">": "<=", ">=": "<", "==": "!=", "!=": "=="}


def constraints_of(it, dec):
    """the sign conditions a leaf's decisions state: [(Rat diff, op)] meaning `diff op 0` (for rat.feasible)"""
    return [(it.pred_exprs[k][0], it.pred_exprs[k][1] if v else _NEG_OP[it.pred_exprs[k][1]]) for k, v in dec.items() if k in it.pred_exprs]


def leaf_implies(it, dec, diff, op, extra=()):
    """do the leaf's conditions (plus `extra` constraints) imply `diff op 0`?  Decided in the linear relaxation: True is certain"""
    from .rat import feasible
    cons = constraints_of(it, dec) + list(extra)
    neg = _NEG_OP[op]
    if neg == "!=":
        return not feasible(cons + [(diff, "<")]) and not feasible(cons + [(diff, ">")])
    if neg == "==":
        return False
    return not feasible(cons + [(diff, neg)])


def explore(run, month_classes=True, preset=None, max_envs=MAX_ENVS, partition=BASE_PARTITION):
    """run(interp) -> result.  Returns list of (MonthClass|None, decisions, result, interp).
    `run` is re-executed from the start for every refined environment."""
    if month_classes:
        work = [(MonthClass(lo, hi), dict(preset or {})) for lo, hi in partition]
    else:
        work = [(None, dict(preset or {}))]
    out = []
    n = 0
    while work:
        mc, dec = work.pop()
        n += 1
        if n > max_envs:
            raise Unsupported("environment bound exceeded")
        it = Interp(month_class=mc, decisions=dec)
        try:
            res = run(it)
        except Fork as f:
            d1 = dict(dec)
            d1[f.key] = True
            d2 = dict(dec)
            d2[f.key] = False
            work.append((mc, d2))
            work.append((mc, d1))
            continue
        except MonthSplit as s:
            for sub in split_class(mc, s.threshold):
                work.append((sub, dict(dec)))
            continue
        except Abort as a:
            out.append((mc, dec, a, it))
            continue
        out.append((mc, dec, res, it))
    return out


def split_class(mc, t):
    """split [lo,hi] at threshold t into [lo,t-1], [t,t], [t+1,hi]; drop empty parts"""
    tn, tc = t
    parts = [(mc.lo, (tn, tc - 1)), ((tn, tc), (tn, tc)), ((tn, tc + 1), mc.hi)]
    out = []
    for lo, hi in parts:
        # clamp to the parent
        status = _nonempty(lo, hi)
        inside_lo = _leq(mc.lo, lo)
        inside_hi = _leq(hi, mc.hi)
        if status is False:
            continue
        if status is None or inside_lo is None or inside_hi is None:
            raise Unsupported(f"month class split ambiguous across horizons: {mc} at {t}")
        if inside_lo is False or inside_hi is False:
            # threshold outside the parent: this part degenerates
            if lo == (tn, tc) and hi == (tn, tc):
                continue
            lo2 = lo if inside_lo else mc.lo
            hi2 = hi if inside_hi else mc.hi
            st2 = _nonempty(lo2, hi2)
            if st2 is False:
                continue
            if st2 is None:
                raise Unsupported(f"month class split ambiguous across horizons: {mc} at {t}")
            lo, hi = lo2, hi2
        out.append(MonthClass(lo, hi))
    if len(out) <= 1 and out and out[0].lo == mc.lo and out[0].hi == mc.hi:
        raise Unsupported(f"month class split made no progress: {mc} at {t}")
    return out


def _leq(a, b):
    res = [(a[0] * N + a[1]) <= (b[0] * N + b[1]) for N in N_RANGE]
    if all(res):
        return True
    if not any(res):
        return False
    return None


def _nonempty(lo, hi):
    return _leq(lo, hi)
