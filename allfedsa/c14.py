"""C14 — a run's result depends only on its own inputs.

Equality of results across histories is not decided.  Decided (N): the shared-state discipline the mechanism relies on:
  C14.STATE  the only writer of the process-wide conversion settings is UnitConversions.set_nutrition_requirements;
             no other class-level / module-level / default-argument container is written by run code
  C14.RESET  every setting read anywhere is (re)assigned by that function from its parameters only, and the function is
             called before anything that reads the settings, at the start of every run
  C14.FRESH  per-run objects are constructed per run; later rounds start from deep copies
  C14.DET    no randomness / wall-clock value flows into results (time only reaches file names)
"""
from __future__ import annotations

import ast
import re

from .core import AnalysisError, loc, norm_src, walk_no_nested, dotted
from .c13 import param_mutations

UC = "src/food_system/unit_conversions.py"
FOOD = "src/food_system/food.py"
PARAMS = "src/optimizer/parameters.py"
RUN = "src/scenarios/run_scenario.py"
RMNT = "src/scenarios/run_model_no_trade.py"
YAML = "src/scenarios/run_scenarios_from_yaml.py"

RUN_CODE = ["src/food_system", "src/optimizer", "src/scenarios"]


def run_files(index):
    out = []
    for rel in index.py_files("src"):
        if any(rel.startswith(d + "/") for d in RUN_CODE):
            out.append(rel)
    return out


def one_shot_tables(index, rep):
    rule = "C14.STATE"
    from .memo import module_level_one_shot
    hits = module_level_one_shot(index, run_files(index))
    for rel, st, name, readers in hits:
        rep.violation(rule, f"one-shot-table:{rel}:{name}",
                      f"module-level `{name}` is a one-shot iterator (a generator expression / zip / map ...) read by {readers[:3]}: the first run in "
                      "the process consumes it, later runs iterate over nothing - their result depends on what ran before", loc=loc(rel, st))
    if not hits:
        rep.ok(rule, "no module-level one-shot iterator is read by run code", detail="generator expressions, zip/map/filter/iter bound at module level")


def loop_carried(index, rep):
    """a container created before a loop over simulations / countries, changed inside the loop and handed to the run started in the same
    iteration carries one iteration's entries into the next (options of simulation k reach simulation k+1)"""
    rule = "C14.FRESH"
    YAMLF = "src/scenarios/run_scenarios_from_yaml.py"
    drivers = [(YAMLF, "run_scenarios_from_yaml"), (RMNT, "ScenarioRunnerNoTrade.run_model_no_trade")]
    MUT = ("update", "append", "extend", "setdefault", "pop", "clear", "insert", "remove", "add", "discard", "popitem")
    for rel, q in drivers:
        fn = index.func(rel, q)
        bad = []
        n_loops = 0
        for lp in [n for n in walk_no_nested(fn) if isinstance(n, ast.For)]:
            n_loops += 1
            before = {}
            for st in walk_no_nested(fn):
                if isinstance(st, ast.Assign) and len(st.targets) == 1 and isinstance(st.targets[0], ast.Name) and st.lineno < lp.lineno \
                        and not any(st is x for x in ast.walk(lp)):
                    v = st.value
                    if isinstance(v, (ast.Dict, ast.List, ast.Set)) or (isinstance(v, ast.Call) and (dotted(v.func) or "") in ("dict", "list", "set")):
                        before[st.targets[0].id] = st
            for name, st0 in before.items():
                fresh_in_loop = any(isinstance(s_, ast.Assign) and any(isinstance(t, ast.Name) and t.id == name for t in s_.targets) for s_ in ast.walk(lp))
                if fresh_in_loop:
                    continue
                changed = [s_ for s_ in ast.walk(lp) if (isinstance(s_, (ast.Assign, ast.AugAssign)) and any(
                    isinstance(t, ast.Subscript) and isinstance(t.value, ast.Name) and t.value.id == name
                    for t in (s_.targets if isinstance(s_, ast.Assign) else [s_.target]))) or (
                    isinstance(s_, ast.Call) and isinstance(s_.func, ast.Attribute) and s_.func.attr in MUT and isinstance(s_.func.value, ast.Name)
                    and s_.func.value.id == name)]
                handed = [c for c in ast.walk(lp) if isinstance(c, ast.Call) and not (isinstance(c.func, ast.Attribute) and isinstance(c.func.value, ast.Name)
                                                                                    and c.func.value.id == name)
                          and (dotted(c.func) or "") not in ("print", "len", "str", "sorted", "list", "dict", "set", "enumerate", "zip", "range")
                          and any(isinstance(a_, ast.Name) and a_.id == name for a_ in list(c.args) + [k.value for k in c.keywords])]
                if changed and handed:
                    bad.append(f"`{name}` (created line {st0.lineno}, changed line {changed[0].lineno}, handed to {norm_src(handed[0].func)[:40]} line {handed[0].lineno})")
            # the same for a plain setting: bound before the loop, re-bound in the loop only under a condition (no else, no unconditional
            # re-binding earlier in the body) and handed to the run of the iteration - once the condition has held, every later iteration
            # keeps that value instead of the one from before the loop
            bound_before = {}
            for st in walk_no_nested(fn):
                if isinstance(st, ast.Assign) and st.lineno < lp.lineno and not any(st is x for x in ast.walk(lp)):
                    for t in st.targets:
                        for x in ([t] if isinstance(t, ast.Name) else (t.elts if isinstance(t, ast.Tuple) else [])):
                            if isinstance(x, ast.Name):
                                bound_before[x.id] = st
            for a_ in fn.args.args:
                bound_before.setdefault(a_.arg, fn)
            for name, st0 in bound_before.items():
                if name in before:
                    continue
                rebinds = [s_ for s_ in ast.walk(lp) if isinstance(s_, ast.Assign) and any(
                    isinstance(x, ast.Name) and x.id == name for t in s_.targets for x in ([t] if isinstance(t, ast.Name) else (t.elts if isinstance(t, ast.Tuple) else [])))]
                if not rebinds or (isinstance(lp.target, ast.Name) and lp.target.id == name):
                    continue

                def guards(s_):
                    out_, n_ = [], getattr(s_, "_parent", None)
                    while n_ is not None and n_ is not lp:
                        if isinstance(n_, (ast.If, ast.Try, ast.For, ast.While)):
                            out_.append(n_)
                        n_ = getattr(n_, "_parent", None)
                    return out_
                uncond = [s_ for s_ in rebinds if not guards(s_)]
                if uncond:
                    # re-bound in every iteration: carried over only when the new value is computed from the old one (`x = f(x, ...)`) and
                    # then handed to the run of the iteration - what iteration k made of it is what iteration k+1 starts from
                    for s_ in uncond:
                        reads_self = isinstance(s_.value, ast.Call) and any(isinstance(x, ast.Name) and x.id == name and isinstance(x.ctx, ast.Load)
                                                                           for x in ast.walk(s_.value))
                        first_bind = min(r_.lineno for r_ in rebinds) == s_.lineno
                        handed_on = [c for c in ast.walk(lp) if isinstance(c, ast.Call) and c is not s_.value and c.lineno > s_.lineno
                                     and any(isinstance(a2, ast.Name) and a2.id == name for a2 in list(c.args) + [k.value for k in c.keywords])]
                        if reads_self and first_bind and handed_on and len(s_.targets) == 1 and isinstance(s_.targets[0], ast.Name):
                            bad.append(f"`{name}` (set before the loop, replaced in every iteration by {norm_src(s_.value)[:60]} - computed from its own "
                                       f"previous value - and handed to {norm_src(handed_on[0].func)[:40]} line {handed_on[0].lineno})")
                    continue
                # every re-binding sits under an `if`; some branch of that `if` leaves the name as the previous iteration left it
                covered = False
                for s_ in rebinds:
                    g_ = guards(s_)
                    if len(g_) == 1 and isinstance(g_[0], ast.If):
                        branch_sets = []
                        node_ = g_[0]
                        while True:
                            branch_sets.append(any(x is r_ for r_ in rebinds for b_ in node_.body for x in ast.walk(b_)))
                            if len(node_.orelse) == 1 and isinstance(node_.orelse[0], ast.If):
                                node_ = node_.orelse[0]
                                continue
                            branch_sets.append(any(x is r_ for r_ in rebinds for b_ in node_.orelse for x in ast.walk(b_)) if node_.orelse else False)
                            break
                        if all(branch_sets):
                            covered = True
                if covered:
                    continue
                in_rebind = {id(x) for r_ in rebinds for x in ast.walk(r_)}
                used = [x for x in ast.walk(lp) if isinstance(x, ast.Name) and x.id == name and isinstance(x.ctx, ast.Load) and id(x) not in in_rebind
                        and not any(isinstance(p_, ast.Call) and (dotted(p_.func) or "") == "print" for p_ in [getattr(x, "_parent", None)])]
                if used:
                    bad.append(f"`{name}` (set before the loop, re-bound only under a condition at line {rebinds[0].lineno}, used at line "
                               f"{used[0].lineno})")
        rep.check(not bad, rule, f"{q}: nothing carried from one iteration's run into the next",
                  "a container or setting made before the loop is changed inside the loop and handed to the run of that iteration - what was set for one "
                  "simulation / country is still there for the next: " + "; ".join(bad), loc=loc(rel, fn))
        if n_loops < 1:
            raise AnalysisError(f"{q}: no loop found")


def run(index, rep):
    rep.guard(loop_carried, index, rep)
    rep.guard(state, index, rep)
    rep.guard(one_shot_tables, index, rep)
    rep.guard(reset, index, rep)
    rep.guard(fresh, index, rep)
    rep.guard(det, index, rep)
    rep.guard(caller, index, rep)


def enclosing_qual(node):
    names = []
    n = getattr(node, "_parent", None)
    while n is not None:
        if isinstance(n, (ast.FunctionDef, ast.ClassDef)):
            names.append(n.name)
        n = getattr(n, "_parent", None)
    return ".".join(reversed(names)) or "<module>"


def is_conversions_expr(e, local_aliases):
    d = dotted(e)
    if d is None:
        return False
    if d.endswith(".conversions") or d == "conversions":
        return True
    return d in local_aliases


def state(index, rep):
    rule = "C14.STATE"
    # inventory: the class attribute itself
    food_cls = index.cls(FOOD, "Food")
    conv = [s for s in food_cls.body if isinstance(s, ast.Assign) and norm_src(s.targets[0]) == "conversions"]
    if len(conv) != 1 or norm_src(conv[0].value) != "UnitConversions()":
        raise AnalysisError("Food.conversions is no longer the class-level UnitConversions() object")
    writers = []
    rebinds = []
    for rel in run_files(index):
        mod = index.module(rel)
        for fn in [n for n in ast.walk(mod) if isinstance(n, ast.FunctionDef)] + [mod]:
            aliases = set()
            body_nodes = list(walk_no_nested(fn)) if isinstance(fn, ast.FunctionDef) else [n for n in mod.body]
            for st in body_nodes:
                if isinstance(st, ast.Assign) and len(st.targets) == 1 and isinstance(st.targets[0], ast.Name):
                    v = norm_src(st.value)
                    if v.endswith(".conversions") or v.endswith("get_conversions()"):
                        aliases.add(st.targets[0].id)
            for st in body_nodes:
                if isinstance(st, (ast.Assign, ast.AugAssign)):
                    for t in (st.targets if isinstance(st, ast.Assign) else [st.target]):
                        for e in ast.walk(t):
                            if isinstance(e, ast.Attribute) and isinstance(e.ctx, ast.Store):
                                if is_conversions_expr(e.value, aliases):
                                    writers.append((rel, st, enclosing_qual(st), e.attr))
                                if e.attr == "conversions":
                                    rebinds.append((rel, st, enclosing_qual(st)))
                if isinstance(st, ast.Call) and dotted(st.func) == "setattr" and st.args and is_conversions_expr(st.args[0], aliases):
                    writers.append((rel, st, enclosing_qual(st), "setattr"))
    rep.check(not writers, rule, "conversions:no-outside-writer",
              "process-wide conversion settings are written outside UnitConversions.set_nutrition_requirements: " +
              "; ".join(f"{q} sets .{a} ({rel}:{st.lineno})" for rel, st, q, a in writers[:4]),
              loc=loc(writers[0][0], writers[0][1]) if writers else FOOD)
    from .memo import shared_instance_containers, process_wide_classes
    shared_cls, _ = process_wide_classes(index)
    rep.note_analysed("process_wide_instances", {k: [f"{r}:{st.lineno}" for r, st in v] for k, v in shared_cls.items()})
    sic = shared_instance_containers(index)
    rep.check(not sic, rule, "process-wide-objects:no-container-filled-by-runs",
              "an object created once at import keeps a container that run code fills: " + "; ".join(
                  f"{cn}.{attr} at {sites[:3]}" for _, cn, attr, sites, _ in sic[:3]) + " - a later run reads what an earlier run left there",
              loc=loc(sic[0][0], sic[0][4]) if sic else FOOD)
    rep.check(not rebinds, rule, "conversions:never-rebound",
              "the shared conversions object is replaced: " + "; ".join(f"{q} ({rel}:{st.lineno})" for rel, st, q in rebinds[:4]),
              loc=loc(rebinds[0][0], rebinds[0][1]) if rebinds else FOOD)
    # methods of UnitConversions that store to self.* settings (besides labels): only set_nutrition_requirements/__init__
    uc = index.methods(UC, "UnitConversions")
    setfn = uc.get("set_nutrition_requirements")
    if setfn is None:
        raise AnalysisError("UnitConversions.set_nutrition_requirements missing")
    settings = assigned_self_attrs(setfn)
    for name, fn in uc.items():
        if name in ("set_nutrition_requirements", "__init__"):
            continue
        w = assigned_self_attrs(fn) & (settings | {"NUTRITION_PROPERTIES_ASSIGNED"})
        rep.check(not w, rule, f"UnitConversions.{name}:no-setting-write",
                  f"method writes the shared settings {sorted(w)} (every Food inherits these methods; called on Food.conversions it "
                  "would change the settings of all later runs)", loc=loc(UC, fn))
    food_m = index.methods(FOOD, "Food")
    for name, fn in food_m.items():
        w = assigned_self_attrs(fn) & settings
        rep.check(not w, rule, f"Food.{name}:no-setting-write", f"method writes setting-named attributes {sorted(w)}", loc=loc(FOOD, fn))
    # callers of the one writer
    callers = []
    for rel in run_files(index):
        for n in ast.walk(index.module(rel)):
            if isinstance(n, ast.Call) and isinstance(n.func, ast.Attribute) and n.func.attr == "set_nutrition_requirements":
                callers.append((rel, n, enclosing_qual(n)))
    for rel, n, q in callers:
        kw = {k.arg for k in n.keywords}
        ok = kw >= {"kcals_daily", "fat_daily", "protein_daily", "include_fat", "include_protein", "population"} or len(n.args) == 6
        rep.check(ok, rule, f"caller:{q}", "call does not pass all six settings (a partial update would keep values of an earlier run)",
                  loc=loc(rel, n))
    rep.note_analysed("callers_of_set_nutrition_requirements", [q for _, _, q in callers])
    # mutable default arguments: never written
    n_def = 0
    for rel in run_files(index):
        for fn in [n for n in ast.walk(index.module(rel)) if isinstance(n, ast.FunctionDef)]:
            args = fn.args.args + fn.args.kwonlyargs
            defaults = [None] * (len(fn.args.args) - len(fn.args.defaults)) + list(fn.args.defaults) + list(fn.args.kw_defaults)
            for a, d in zip(args, defaults):
                if isinstance(d, (ast.List, ast.Dict, ast.Set)) or (isinstance(d, ast.Call) and dotted(d.func) in ("list", "dict", "set")):
                    n_def += 1
                    bad = param_mutations(fn, a.arg)
                    rep.check(not bad, rule, f"mutable-default:{enclosing_qual(fn)}.{fn.name}({a.arg})",
                              "a mutable default argument is modified (the change survives into every later call): " + "; ".join(bad),
                              loc=loc(rel, fn))
    rep.note_analysed("mutable_default_arguments", n_def)
    # module-level and class-level mutable containers: never written from functions
    for rel in run_files(index):
        mod = index.module(rel)
        globals_written = [n for n in ast.walk(mod) if isinstance(n, ast.Global)]
        rep.check(not globals_written, rule, f"{rel}:no-global-statement",
                  "a function declares `global` (module state shared between runs)", loc=loc(rel, globals_written[0]) if globals_written else rel)
        for name, kind, st, bad in shared_container_writes(index, rel):
            rep.check(not bad, rule, f"shared-container:{rel}:{name}", f"a {kind}-level container is modified by run code at {bad[:4]}",
                      loc=loc(rel, st))
    # memoised functions (lru_cache & co): their result is one object per process; nobody may write into it
    from .memo import cached_result_mutations
    memo, findings = cached_result_mutations(index, run_files(index))
    rep.note_analysed("memoised_functions", [f"{rel}:{fn.name}" for rel, fn in memo])
    seen = set()
    for rel, st, cal, txt in findings:
        if (cal, txt) in seen:
            continue
        seen.add((cal, txt))
        rep.violation(rule, f"memoised:{cal}:{enclosing_qual(st)}", "a process-wide cached object is modified, so later runs in the same process "
                      "start from the modified data: " + txt, loc=loc(rel, st))
    if not findings:
        rep.ok(rule, "memoised-results-never-modified")
    # lazily cached instance attributes whose inputs are assigned after construction
    from .memo import lazy_attribute_caches
    lazy = lazy_attribute_caches(index, run_files(index))
    rep.note_analysed("lazy_attribute_caches", [f"{cn}.{m.name}:{a}" for _, cn, m, a, _, _ in lazy])
    for rel, cn, m, attr, stale, invalidated in lazy:
        rep.check(not stale or bool(invalidated), rule, f"lazy-cache:{cn}.{m.name}:{attr}",
                  f"{cn}.{m.name} keeps its first result in self.{attr}, but what it is computed from is assigned later ({'; '.join(stale[:3])}) "
                  "and nothing resets the cached value: the result depends on when it was first asked for", loc=loc(rel, m))
    rep.require_min(rule, 60)


def shared_container_writes(index, rel):
    """-> [(name, 'module'|'class', defining statement, [writer 'function:line', ...])] for every module-level / class-level
    list, dict or set literal (or list()/dict()/set()/defaultdict() call) of the file"""
    mod = index.module(rel)
    containers = {}

    def np_built(v):
        """an array built by a numpy constructor, possibly scaled/shifted by arithmetic (`np.array([...]) * 1 / (1 - 0.12)`)"""
        if isinstance(v, ast.BinOp):
            return np_built(v.left) or np_built(v.right)
        if isinstance(v, ast.UnaryOp):
            return np_built(v.operand)
        return isinstance(v, ast.Call) and (dotted(v.func) or "") in ("np.array", "np.zeros", "np.ones", "np.full", "np.empty", "np.arange", "np.linspace",
                                                                      "np.asarray", "np.concatenate", "np.repeat", "np.tile")

    def is_container(v):
        return np_built(v) or isinstance(v, (ast.List, ast.Dict, ast.Set)) or (isinstance(v, ast.Call) and (dotted(v.func) or "").split(".")[-1] in (
            "list", "dict", "set", "defaultdict", "OrderedDict", "Counter", "deque")) or (
            isinstance(v, ast.Call) and (dotted(v.func) or "") in ("np.array", "np.zeros", "np.ones", "np.full", "np.empty", "np.arange", "np.linspace",
                                                                    "np.asarray", "pd.DataFrame", "pd.Series"))

    for st in mod.body:
        if isinstance(st, ast.Assign) and isinstance(st.targets[0], ast.Name) and is_container(st.value):
            containers[st.targets[0].id] = ("module", st)
        if isinstance(st, ast.AnnAssign) and isinstance(st.target, ast.Name) and st.value is not None and is_container(st.value):
            containers[st.target.id] = ("module", st)
    for c in [n for n in mod.body if isinstance(n, ast.ClassDef)]:
        for st in c.body:
            if isinstance(st, ast.Assign) and isinstance(st.targets[0], ast.Name) and is_container(st.value):
                containers[c.name + "." + st.targets[0].id] = ("class", st)
            if isinstance(st, ast.AnnAssign) and isinstance(st.target, ast.Name) and st.value is not None and is_container(st.value):
                containers[c.name + "." + st.target.id] = ("class", st)
    out = []
    for name, (kind, st) in containers.items():
        bad = []
        short = name.split(".")[-1]
        for fn in [n for n in ast.walk(mod) if isinstance(n, ast.FunctionDef)]:
            shadows = any(isinstance(s, ast.Assign) and any(isinstance(t, ast.Name) and t.id == short for t in s.targets)
                          for s in walk_no_nested(fn)) or short in [a.arg for a in fn.args.args]
            if shadows and kind == "module":
                continue
            # locals that are another name for the shared object: `x = self.NAME` / `x = Cls.NAME` / `x = NAME` (no copy made)
            aliases = set()
            is_array = np_built(st.value)

            def shared_ref(e_):
                """the shared object itself - or, for a numpy array, a basic slice of it (a view: writes go through)"""
                if e_ is not None and is_array and isinstance(e_, ast.Subscript) and isinstance(e_.slice, ast.Slice):
                    e_ = e_.value
                dv_ = dotted(e_) or "" if e_ is not None else ""
                return bool(dv_) and ((dv_ == short and kind == "module" and not shadows) or (dv_.endswith("." + short) and kind == "class"))

            for s in walk_no_nested(fn):
                if isinstance(s, ast.Assign) and len(s.targets) == 1 and isinstance(s.targets[0], ast.Name):
                    if shared_ref(s.value):
                        aliases.add(s.targets[0].id)
            # one-level copies (`dict(X)`, `X.copy()`, `list(X)`, `copy.copy(X)`, `{**X}`) of a shared container whose values are containers
            # themselves: the inner objects are still the shared ones - a store two subscripts deep writes into them
            nested_shared = isinstance(st.value, (ast.Dict, ast.List)) and any(
                isinstance(v_, (ast.Dict, ast.List, ast.Set)) for v_ in (st.value.values if isinstance(st.value, ast.Dict) else st.value.elts))
            shallow = set()
            if nested_shared:
                for s in walk_no_nested(fn):
                    if isinstance(s, ast.Assign) and len(s.targets) == 1 and isinstance(s.targets[0], ast.Name):
                        v_ = s.value
                        src_ = None
                        if isinstance(v_, ast.Call) and (dotted(v_.func) or "") in ("dict", "list", "copy.copy") and len(v_.args) == 1:
                            src_ = v_.args[0]
                        elif isinstance(v_, ast.Call) and isinstance(v_.func, ast.Attribute) and v_.func.attr == "copy" and not v_.args:
                            src_ = v_.func.value
                        elif isinstance(v_, ast.Dict) and len(v_.keys) == 1 and v_.keys[0] is None:
                            src_ = v_.values[0]
                        dv = dotted(src_) or "" if src_ is not None else ""
                        if dv and ((dv == short and kind == "module" and not shadows) or (dv.endswith("." + short) and kind == "class")):
                            shallow.add(s.targets[0].id)
                for s in walk_no_nested(fn):
                    if isinstance(s, (ast.Assign, ast.AugAssign)):
                        for t in (s.targets if isinstance(s, ast.Assign) else [s.target]):
                            depth_, base = 0, t
                            while isinstance(base, ast.Subscript):
                                base, depth_ = base.value, depth_ + 1
                            if depth_ >= 2 and isinstance(base, ast.Name) and base.id in shallow:
                                bad.append(f"{fn.name}:{s.lineno} (through a one-level copy)")
                    if isinstance(s, ast.Call) and isinstance(s.func, ast.Attribute) and s.func.attr in (
                            "append", "extend", "update", "pop", "clear", "insert", "remove", "setdefault", "sort", "add", "discard"):
                        b_ = s.func.value
                        if isinstance(b_, ast.Subscript) and isinstance(b_.value, ast.Name) and b_.value.id in shallow:
                            bad.append(f"{fn.name}:{s.lineno} (through a one-level copy)")
            for s in walk_no_nested(fn):
                if isinstance(s, ast.AugAssign) and isinstance(s.target, ast.Name) and s.target.id in aliases:
                    # in place for arrays, lists, sets and dicts: the shared object itself changes - if the name can still stand for it here
                    from .core import _reaching
                    try:
                        defs_here = _reaching(fn, s).get(s.target.id, [])
                    except Exception:
                        defs_here = [None]
                    if any(d_ is None or shared_ref(d_) for d_ in defs_here):
                        bad.append(f"{fn.name}:{s.lineno}")
                if isinstance(s, ast.AugAssign) and isinstance(s.target, ast.Attribute):
                    d = dotted(s.target) or ""
                    if d.endswith("." + short) and kind == "class":
                        bad.append(f"{fn.name}:{s.lineno}")
                if isinstance(s, (ast.Assign, ast.AugAssign, ast.Delete)):
                    for t in (s.targets if not isinstance(s, ast.AugAssign) else [s.target]):
                        base = t
                        while isinstance(base, ast.Subscript):
                            base = base.value
                        if isinstance(t, ast.Subscript) and isinstance(base, ast.Name) and base.id in aliases:
                            bad.append(f"{fn.name}:{s.lineno}")
                if isinstance(s, ast.Call) and isinstance(s.func, ast.Attribute) and isinstance(s.func.value, ast.Name) and s.func.value.id in aliases \
                        and s.func.attr in ("append", "extend", "update", "pop", "clear", "insert", "remove", "setdefault", "sort", "add", "discard",
                                            "popitem", "fill", "resize", "put", "itemset"):
                    bad.append(f"{fn.name}:{s.lineno}")
            # an instance attribute of the same name assigned in this function shadows the class attribute for `self.<name>`
            for s in walk_no_nested(fn):
                if isinstance(s, (ast.Assign, ast.AugAssign, ast.Delete)):
                    tg = s.targets if not isinstance(s, ast.AugAssign) else [s.target]
                    for t in tg:
                        base = t
                        while isinstance(base, ast.Subscript):
                            base = base.value
                        d = dotted(base) or ""
                        if isinstance(t, ast.Subscript) and (d == short and kind == "module" or d.endswith("." + short) and kind == "class"):
                            bad.append(f"{fn.name}:{s.lineno}")
                if isinstance(s, ast.Call) and isinstance(s.func, ast.Attribute) and s.func.attr in (
                        "append", "extend", "update", "pop", "clear", "insert", "remove", "setdefault", "sort", "add", "discard", "popitem",
                        "appendleft"):
                    d = dotted(s.func.value) or ""
                    if d == short and kind == "module" or (d.endswith("." + short) and kind == "class"):
                        bad.append(f"{fn.name}:{s.lineno}")
        out.append((name, kind, st, bad))
    return out


def assigned_self_attrs(fn):
    out = set()
    for st in walk_no_nested(fn):
        if isinstance(st, (ast.Assign, ast.AugAssign)):
            for t in (st.targets if isinstance(st, ast.Assign) else [st.target]):
                for e in ast.walk(t):
                    if isinstance(e, ast.Attribute) and isinstance(e.ctx, ast.Store) and isinstance(e.value, ast.Name) and e.value.id == "self":
                        out.add(e.attr)
    return out


def reset(index, rep):
    rule = "C14.RESET"
    setfn = index.func(UC, "UnitConversions.set_nutrition_requirements")
    params = {a.arg for a in setfn.args.args} - {"self"}
    assigned = []
    # attributes that __init__ sets to a literal and nothing else ever writes are constants of the object
    uc_methods = index.methods(UC, "UnitConversions")
    init_constants = set()
    init = uc_methods.get("__init__")
    if init is not None:
        for st in init.body:
            if isinstance(st, ast.Assign) and isinstance(st.targets[0], ast.Attribute) and dotted(st.targets[0].value) == "self" \
                    and isinstance(st.value, ast.Constant):
                a = st.targets[0].attr
                if not any(a in assigned_self_attrs(f) for nme, f in uc_methods.items() if nme != "__init__"):
                    init_constants.add(a)
    body = [s for s in setfn.body if not (isinstance(s, ast.Expr) and isinstance(s.value, ast.Constant))]
    for st in body:
        if not (isinstance(st, ast.Assign) and len(st.targets) == 1 and isinstance(st.targets[0], ast.Attribute)
                and dotted(st.targets[0].value) == "self"):
            rep.violation(rule, "set_nutrition_requirements:straight-line",
                          f"statement other than `self.x = <expr>`: {norm_src(st)[:60]} (conditional/partial re-establishment)", loc=loc(UC, st))
            continue
        # reads: parameters, literals, self.<already assigned in this call>
        bad = []
        for n in ast.walk(st.value):
            if isinstance(n, ast.Attribute) and dotted(n.value) == "self" and n.attr not in assigned \
                    and n.attr not in init_constants:
                bad.append("self." + n.attr)
            if isinstance(n, ast.Name) and n.id not in params and n.id not in ("self", "True", "False", "None"):
                bad.append(n.id)
        rep.check(not bad, rule, f"setting:{st.targets[0].attr}",
                  f"value depends on {bad}: not a function of this call's parameters only (state of an earlier run would leak in)",
                  loc=loc(UC, st))
        assigned.append(st.targets[0].attr)
    aset = set(assigned)
    rep.extra["settings_assigned"] = assigned
    # every setting read anywhere is one the writer assigns
    reads = {}
    for rel in run_files(index):
        mod = index.module(rel)
        for n in ast.walk(mod):
            if isinstance(n, ast.Attribute) and isinstance(n.ctx, ast.Load):
                d = dotted(n.value) or ""
                if d.endswith("conversions") and n.attr not in ("conversions",):
                    par = getattr(n, "_parent", None)
                    if isinstance(par, ast.Call) and par.func is n:
                        continue  # method call on the conversions object
                    reads.setdefault(n.attr, []).append((rel, n))
    for attr, sites in sorted(reads.items()):
        rel, n = sites[0]
        rep.check(attr in aset or attr in init_constants, rule, f"read:{attr}",
                  f"conversions.{attr} is read ({len(sites)} site(s), e.g. {rel}:{n.lineno}) but never assigned by set_nutrition_requirements "
                  "(its value would be whatever an earlier run left, or missing)", loc=loc(rel, n))
    # include/exclude are complementary
    srcs = {st.targets[0].attr: norm_src(st.value) for st in body if isinstance(st, ast.Assign) and isinstance(st.targets[0], ast.Attribute)}
    rep.check(srcs.get("exclude_fat") == "not include_fat" and srcs.get("exclude_protein") == "not include_protein"
              and srcs.get("include_fat") == "include_fat" and srcs.get("include_protein") == "include_protein", rule,
              "include/exclude-complementary", "exclude_* is not `not include_*` of the same call", loc=loc(UC, setfn))
    # ordering inside compute_parameters_first_round
    fn = index.func(PARAMS, "Parameters.compute_parameters_first_round")
    top = [s for s in fn.body if not (isinstance(s, ast.Expr) and isinstance(s.value, ast.Constant))]

    def idx_of(pred):
        for i, s in enumerate(top):
            if any(pred(c) for c in ast.walk(s) if isinstance(c, ast.Call)):
                return i
        return None

    i_nut = idx_of(lambda c: dotted(c.func) == "self.set_nutrition_per_month")
    i_init = idx_of(lambda c: dotted(c.func) == "self.init_scenario")
    if i_nut is None or i_init is None:
        raise AnalysisError("compute_parameters_first_round: init_scenario / set_nutrition_per_month calls not found at top level")
    others = [i for i, s in enumerate(top) for c in ast.walk(s) if isinstance(c, ast.Call) and (dotted(c.func) or "").startswith("self.")
              and dotted(c.func) not in ("self.set_nutrition_per_month", "self.init_scenario", "self.assert_constants_not_nan")]
    constructs = [i for i, s in enumerate(top) for c in ast.walk(s) if isinstance(c, ast.Call) and dotted(c.func) in (
        "Food", "MethaneSCP", "CellulosicSugar", "MeatAndDairy", "FeedAndBiofuels", "Seafood", "OutdoorCrops", "StoredFood", "Seaweed",
        "Greenhouses")]
    first_other = min(others + constructs) if others + constructs else None
    rep.check(i_init < i_nut and (first_other is None or i_nut < first_other), rule, "first-round:settings-before-use",
              "compute_parameters_first_round does not establish the nutrition settings (after init_scenario sets POP) before the first "
              "step that builds or converts food quantities", loc=loc(PARAMS, fn))
    # population passed is this run's POP, set by init_scenario from the constants
    nut = index.func(PARAMS, "Parameters.set_nutrition_per_month")
    call = [c for c in ast.walk(nut) if isinstance(c, ast.Call) and isinstance(c.func, ast.Attribute) and c.func.attr == "set_nutrition_requirements"]
    initsc = index.func(PARAMS, "Parameters.init_scenario")
    pop_set = any(isinstance(s, ast.Assign) and norm_src(s.targets[0]) == "self.POP" and "constants_inputs['POP']" in norm_src(s.value)
                  for s in walk_no_nested(initsc))
    from .core import bind_args as _ba14
    kw = {k_: norm_src(v_) for k_, v_ in _ba14(call[0], index.func(UC, "UnitConversions.set_nutrition_requirements")).items()} if call else {}
    # the population handed over is this run's: self.POP, or the entry init_scenario stored it under in the table it returns - either way
    # assigned there from constants_inputs['POP']
    stores_ = {norm_src(s_.targets[0]): norm_src(s_.value) for s_ in walk_no_nested(initsc) if isinstance(s_, ast.Assign) and len(s_.targets) == 1}
    ret_names = {norm_src(r_.value) for r_ in walk_no_nested(initsc) if isinstance(r_, ast.Return) and isinstance(r_.value, ast.Name)}

    def from_inputs(txt, depth=0):
        if "constants_inputs['POP']" in txt:
            return True
        return depth < 3 and txt in stores_ and from_inputs(stores_[txt], depth + 1)
    pop_arg = kw.get("population", "")
    pop_ok = pop_arg == "self.POP" and pop_set
    m_pop = re.fullmatch(r"(\w+)\['POP'\]", pop_arg)
    if not pop_ok and m_pop and m_pop.group(1) in [a.arg for a in nut.args.args]:
        pop_ok = any(from_inputs(f"{rn}['POP']") for rn in ret_names)
    rep.check(pop_ok and kw.get("include_fat") == "constants_inputs['INCLUDE_FAT']"
              and kw.get("include_protein") == "constants_inputs['INCLUDE_PROTEIN']", rule, "first-round:settings-from-this-run",
              "the settings passed are not this run's POP / INCLUDE_FAT / INCLUDE_PROTEIN", loc=loc(PARAMS, nut))
    # run_and_analyze_scenario: first round parameters before anything else touching Food
    ras = index.func(RUN, "ScenarioRunner.run_and_analyze_scenario")
    topr = [s for s in ras.body if not (isinstance(s, ast.Expr) and isinstance(s.value, ast.Constant))]
    i_first = None
    for i, s in enumerate(topr):
        if any(isinstance(c, ast.Call) and isinstance(c.func, ast.Attribute) and c.func.attr == "compute_parameters_first_round" for c in ast.walk(s)):
            i_first = i
            break
    if i_first is None:
        raise AnalysisError("run_and_analyze_scenario: compute_parameters_first_round call not found")
    def harmless(s):
        """a statement that cannot touch the shared settings: it builds the round objects, binds constants, prints, or asks the scenario
        loader whether every option family was set (assertions over flags)"""
        if isinstance(s, ast.If):
            return all(harmless(x) for x in s.body + s.orelse) and not any(isinstance(c, ast.Call) for c in ast.walk(s.test))
        if not isinstance(s, (ast.Assign, ast.Expr, ast.Pass)):
            return False
        for c in [c for c in ast.walk(s) if isinstance(c, ast.Call)]:
            d = dotted(c.func) or ""
            if d in ("Interpreter", "Parameters", "Validator", "print", "str", "len", "repr"):
                continue
            if isinstance(c.func, ast.Attribute) and c.func.attr == "check_all_set" and not c.args and not c.keywords:
                continue
            return False
        return True
    early = [s for s in topr[:i_first] if not harmless(s)]
    rep.check(not early, rule, "run:first-round-first",
              "run_and_analyze_scenario does work before compute_parameters_first_round re-establishes the shared settings: " +
              "; ".join(norm_src(s)[:50] for s in early[:3]), loc=loc(RUN, ras))
    # later rounds are only reachable after round 1 in the same invocation
    later = [c.lineno for c in ast.walk(ras) if isinstance(c, ast.Call) and isinstance(c.func, ast.Attribute)
             and c.func.attr in ("compute_parameters_second_round", "compute_parameters_third_round", "run_round_2", "run_round_3")]
    first_line = topr[i_first].lineno
    rep.check(all(l > first_line for l in later), rule, "run:later-rounds-after-first", "a later round can start before round 1's settings call",
              loc=loc(RUN, ras))
    rep.require_min(rule, 20)


def fresh(index, rep):
    rule = "C14.FRESH"
    ras = index.func(RUN, "ScenarioRunner.run_and_analyze_scenario")
    for cls in ("Parameters", "Interpreter"):
        sites = [c for c in walk_no_nested(ras) if isinstance(c, ast.Call) and dotted(c.func) == cls]
        rep.check(len(sites) >= 1, rule, f"per-run:{cls}", f"{cls}() is not constructed inside run_and_analyze_scenario (would be shared between runs)",
                  loc=loc(RUN, ras))
    ro = index.func(RUN, "ScenarioRunner.run_optimizer")
    sites = [c for c in walk_no_nested(ro) if isinstance(c, ast.Call) and dotted(c.func) == "Optimizer"]
    rep.check(len(sites) == 1, rule, "per-run:Optimizer", "Optimizer(...) is not constructed per optimisation", loc=loc(RUN, ro))
    sd = index.func(RUN, "ScenarioRunner.set_depending_on_option")
    sites = [c for c in walk_no_nested(sd) if isinstance(c, ast.Call) and dotted(c.func) == "Scenarios"]
    rep.check(len(sites) == 1, rule, "per-run:Scenarios", "Scenarios() (the exactly-once flags) is not constructed per option set", loc=loc(RUN, sd))
    rofc = index.func(RMNT, "ScenarioRunnerNoTrade.run_optimizer_for_country")
    from .core import walk_with_local_defs
    sites = [c for c in walk_with_local_defs(rofc) if isinstance(c, ast.Call) and dotted(c.func) == "ScenarioRunner"]
    rep.check(len(sites) >= 1, rule, "per-run:ScenarioRunner", "ScenarioRunner() is not constructed per country", loc=loc(RMNT, rofc))
    # no module-/class-level instances of the per-run classes
    for rel in run_files(index):
        mod = index.module(rel)
        lvl = [st for st in mod.body if isinstance(st, ast.Assign) and isinstance(st.value, ast.Call)
               and dotted(st.value.func) in ("Parameters", "Optimizer", "Interpreter", "Scenarios", "ScenarioRunner", "Validator", "Extractor")]
        for c in [n for n in mod.body if isinstance(n, ast.ClassDef)]:
            lvl += [st for st in c.body if isinstance(st, ast.Assign) and isinstance(st.value, ast.Call)
                    and dotted(st.value.func) in ("Parameters", "Optimizer", "Interpreter", "Scenarios", "ScenarioRunner", "Extractor")]
        rep.check(not lvl, rule, f"{rel}:no-cached-instances", "a per-run object is cached at module/class level: " +
                  "; ".join(norm_src(s)[:50] for s in lvl[:3]), loc=loc(rel, lvl[0]) if lvl else rel)
    # the option dictionary of a simulation is shared by all its countries: per-country code never writes into it
    n_opt = 0
    for rel in run_files(index):
        for fnn in [n for n in ast.walk(index.module(rel)) if isinstance(n, ast.FunctionDef)]:
            for a in fnn.args.args:
                if "scenario_option" in a.arg:
                    n_opt += 1
                    bad = param_mutations(fnn, a.arg)
                    rep.check(not bad, rule, f"shared-options:{enclosing_qual(fnn)}.{fnn.name}({a.arg})",
                              "the option dictionary that run_model_no_trade hands to every country of a simulation is modified, so countries "
                              "processed later run with other options than countries processed earlier: " + "; ".join(bad[:3]), loc=loc(rel, fnn))
    if n_opt < 4:
        raise AnalysisError(f"only {n_opt} functions take the scenario options (expected >= 4)")
    # later rounds start from deep copies of the round-1 dictionaries
    for q, names in (("Parameters.compute_parameters_second_round", ("constants_out_round1", "time_consts_round1")),
                     ("Parameters.compute_parameters_third_round", ("constants_out_round1", "time_consts_round1"))):
        fn = index.func(PARAMS, q)
        params = [a.arg for a in fn.args.args]
        for nme in names:
            if nme not in params:
                cand = [p for p in params if p.startswith(nme.split("_round")[0])]
                if not cand:
                    raise AnalysisError(f"{q}: parameter {nme} not found")
                nme = cand[0]
            deep = [s for s in walk_no_nested(fn) if isinstance(s, ast.Assign) and norm_src(s.value) == f"copy.deepcopy({nme})"]
            bad = param_mutations(fn, nme)
            rep.check(bool(deep) and not bad, rule, f"{q.split('.')[1]}:{nme}",
                      f"round starts from the round-1 dictionary itself instead of a deep copy (writes: {bad[:3]})", loc=loc(PARAMS, fn))
    rep.require_min(rule, 20)


NONDET = ("random", "np.random", "numpy.random", "secrets", "uuid", "time.time", "time.perf_counter", "os.urandom")


def det(index, rep):
    rule = "C14.DET"
    for rel in run_files(index):
        mod = index.module(rel)
        bad = []
        for n in ast.walk(mod):
            if isinstance(n, (ast.Import, ast.ImportFrom)):
                names = [a.name for a in n.names] if isinstance(n, ast.Import) else [(n.module or "") + "." + a.name for a in n.names]
                for nm in names:
                    if nm.split(".")[0] in ("random", "secrets", "uuid") or nm.startswith("numpy.random"):
                        bad.append(f"import {nm} (line {n.lineno})")
            if isinstance(n, ast.Call):
                d = dotted(n.func) or ""
                if any(d == x or d.startswith(x + ".") for x in NONDET):
                    bad.append(f"{d}() (line {n.lineno})")
        rep.check(not bad, rule, f"{rel}:no-randomness", "source of nondeterminism in result-affecting code: " + "; ".join(bad[:4]), loc=rel)
        # wall-clock values only flow into strings used for file names / titles
        for n in ast.walk(mod):
            if isinstance(n, ast.Call) and (dotted(n.func) or "").endswith(("datetime.now", "date.today")):
                st = n
                while st is not None and not isinstance(st, ast.stmt):
                    st = getattr(st, "_parent", None)
                ok = False
                if isinstance(st, ast.Assign) and isinstance(st.targets[0], ast.Name):
                    var = st.targets[0].id
                    fn = st
                    while fn is not None and not isinstance(fn, ast.FunctionDef):
                        fn = getattr(fn, "_parent", None)
                    uses = [u for u in ast.walk(fn or mod) if isinstance(u, ast.Name) and u.id == var and isinstance(u.ctx, ast.Load)]
                    ok = all(_in_string_context(u) for u in uses)
                rep.check(ok, rule, f"{rel}:{enclosing_qual(n)}:clock->{getattr(st.targets[0], 'id', '?') if isinstance(st, ast.Assign) else '?'}",
                          "a wall-clock value is used other than for building a file name / label", loc=loc(rel, n))
    from .memo import set_order_dependence
    so = set_order_dependence(index, run_files(index))
    seen = set()
    for rel, n, txt in so:
        key = (rel, enclosing_qual(n), txt)
        if key in seen:
            continue
        seen.add(key)
        rep.violation(rule, f"set-order:{rel}:{enclosing_qual(n)}:{txt[:40]}", "iteration order of a set (randomised per process for strings) reaches an "
                      "ordered result - e.g. the order in which variables and constraints enter the LP, which selects among alternative optima: " + txt,
                      loc=loc(rel, n))
    if not so:
        rep.ok(rule, "no-set-iteration-order-dependence")
    rep.require_min(rule, 20)


def _in_string_context(u):
    p = getattr(u, "_parent", None)
    hops = 0
    while p is not None and hops < 6:
        if isinstance(p, ast.JoinedStr):
            return True
        if isinstance(p, ast.BinOp) and isinstance(p.op, ast.Add):
            # string concatenation chain containing a str constant or str() call
            txt = norm_src(p)
            if "'" in txt or "str(" in txt:
                return True
        if isinstance(p, ast.Call) and dotted(p.func) == "str":
            return True
        if isinstance(p, ast.Call) and isinstance(p.func, ast.Attribute) and p.func.attr in ("join", "format") and isinstance(p.func.value, ast.Constant) \
                and isinstance(p.func.value.value, str):
            return True  # "<sep>".join([... value ...]) / "...{}".format(value)
        if isinstance(p, ast.stmt):
            return False
        p = getattr(p, "_parent", None)
        hops += 1
    return False


def caller(index, rep):
    """informational: functions that write their caller's option dict"""
    rule = "C14.CALLER"
    for rel, q, param in ((RMNT, "ScenarioRunnerNoTrade.run_model_defaults_no_trade", "this_simulation"),
                          (RMNT, "ScenarioRunnerNoTrade.run_model_no_trade", "scenario_option"),
                          (RMNT, "ScenarioRunnerNoTrade.run_optimizer_for_country", "scenario_option"),
                          (RMNT, "ScenarioRunnerNoTrade.apply_custom_parameters", "scenario_option")):
        fn = index.func(rel, q, required=False)
        if fn is None:
            continue
        bad = param_mutations(fn, param)
        if q.endswith("run_model_defaults_no_trade"):
            # fills in defaults only when the key is absent (idempotent): informational
            rep.info(rule, f"{q} writes its argument {param}: {bad} (each under `if key not in`: idempotent default filling)")
        else:
            rep.check(not bad, rule, f"{q}:{param}", "the per-country path modifies the option dictionary shared by all countries of the batch: "
                      + "; ".join(bad), loc=loc(rel, fn))


def describe(rep):
    rep.explanation = (
        "Effect and ordering analyses over src/food_system, src/optimizer, src/scenarios (nothing executed). C14.STATE: an "
        "inventory of process-wide mutable state (Food.conversions, class/module-level containers, mutable default arguments, "
        "global statements) with the rule that only UnitConversions.set_nutrition_requirements writes the conversion settings, "
        "that object is never rebound, every caller passes all six settings, no other shared container or default is "
        "written, and no object returned by a memoised function (lru_cache, cache, *memo*) is stored into, mutated in place or "
        "handed to a callee that mutates it. C14.RESET: the writer is straight-line `self.x = f(parameters, earlier x)` (no dependence on previous state), "
        "every setting read anywhere is assigned by it, exclude_* = not include_*; compute_parameters_first_round establishes "
        "the settings right after init_scenario and before the first step that builds food quantities; run_and_analyze_scenario "
        "does nothing before that call and later rounds follow it. C14.FRESH: Parameters/Interpreter/Optimizer/Scenarios/"
        "ScenarioRunner are constructed per run, never cached; rounds 2 and 3 deep-copy the round-1 dictionaries. C14.DET: no "
        "randomness; wall-clock values only reach file-name strings. These are necessary conditions: equality of results "
        "across histories and processes is NOT decided."
    )
    rep.assumptions = ["third-party libraries (numpy, pandas, PuLP/CBC) are deterministic for identical inputs",
                       "no state is shared through files on disk between runs (not analysed)"]
