"""Mutation self-test (thorough tier): seeded defects must be reported naming the rule,
behaviour-preserving rewrites must stay silent.  Corpus: allfedsa/mutants.py."""
from __future__ import annotations


def run_for(pid):
    try:
        from . import mutants
    except ImportError:
        return {"mutants": 0, "killed": 0, "refactors": 0, "silent": 0, "survived": [], "noisy": [], "stale": []}
    return mutants.run(pid)
