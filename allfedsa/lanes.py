"""Role ("lane") agreement between arguments and parameters at call sites.

The code base names things by role: kcals / fat / protein, feed / biofuel, round1 / round2 / round3.  When a call passes a value whose
name carries one role of such a family to a parameter whose name carries ANOTHER role of the same family (and not its own), the two
were crossed: `get_biofuel_usage(feed_duration)`, `get_conversion(from_units, kcals, new_units_protein, new_units_fat)`.
Callees are resolved by name among the repository's functions (unique names only) and keyword arguments by keyword."""
from __future__ import annotations

import ast

from .core import norm_src, dotted

NEUTRAL_CALLS = ("len", "np.zeros", "np.ones", "np.zeros_like", "np.ones_like", "range")


def _tokens(expr, family):
    """roles of `family` carried by the names in expr (strings and shape-only sub-expressions ignored)"""
    out = set()

    def walk(n):
        if isinstance(n, ast.Call) and (dotted(n.func) or "") in NEUTRAL_CALLS:
            return
        if isinstance(n, ast.Name):
            ident = n.id
        elif isinstance(n, ast.Attribute):
            ident = n.attr
        else:
            ident = None
        if ident:
            low = ident.lower()
            hits = [r for r in family if r in low]
            if len(hits) == 1:
                out.add(hits[0])
            elif len(hits) > 1:
                out.add("*")  # mentions several roles: no single lane
        for c in ast.iter_child_nodes(n):
            if isinstance(n, ast.Attribute) and c is n.value and isinstance(c, ast.Name):
                # `self.x`, `obj.attr`: the base object name also counts (e.g. feed_demand.kcals)
                pass
            walk(c)

    walk(expr)
    return out


def role_of(name, family):
    low = name.lower()
    hits = [r for r in family if r in low]
    return hits[0] if len(hits) == 1 else None


def arg_lane_mismatches(index, files, family):
    """-> (pairs examined, [(rel, call node, callee, parameter, argument text, parameter role, argument roles)])"""
    fns = {}
    for rel in files:
        for fn in [n for n in ast.walk(index.module(rel)) if isinstance(n, (ast.FunctionDef, ast.AsyncFunctionDef))]:
            fns.setdefault(fn.name, []).append(fn)
    examined = 0
    bad = []
    for rel in files:
        for c in [n for n in ast.walk(index.module(rel)) if isinstance(n, ast.Call)]:
            name = c.func.attr if isinstance(c.func, ast.Attribute) else (c.func.id if isinstance(c.func, ast.Name) else None)
            cands = fns.get(name, [])
            params = None
            if len(cands) == 1:
                params = [a.arg for a in cands[0].args.args]
                if params and params[0] in ("self", "cls") and isinstance(c.func, ast.Attribute):
                    params = params[1:]
            elif name == "Food":
                params = ["kcals", "fat", "protein", "kcals_units", "fat_units", "protein_units"]
            pairs = []
            if params:
                for i, a in enumerate(c.args):
                    if isinstance(a, ast.Starred):
                        break      # the arguments after a spread sequence have no known position
                    if i < len(params):
                        pairs.append((params[i], a))
            for k in c.keywords:
                if k.arg:
                    pairs.append((k.arg, k.value))
            for p, a in pairs:
                pr = role_of(p, family)
                if pr is None:
                    continue
                toks = _tokens(a, family)
                examined += 1
                if toks and pr not in toks and "*" not in toks:
                    bad.append((rel, c, name, p, norm_src(a)[:70], pr, sorted(toks)))
    return examined, bad


# confirmed by reading; one reason each.  key: (callee, parameter, substring of the argument text)
EXCEPTIONS = {
    ("Food", "fat", "kcals_daily_maximum"): "ceiling in 'effective kcals per person per day': the same per-person kcal number bounds all three lanes",
    ("Food", "protein", "kcals_daily_maximum"): "ceiling in 'effective kcals per person per day': the same per-person kcal number bounds all three lanes",
    ("run_round_3", "interpreted_results_round2", "interpreted_results_for_round3"):
        "the variable holds round 2's results or their stand-in when round 2 was skipped; it is named after its consumer",
}


def lane_rule(index, rep, rule, family, minimum, what):
    from .core import loc
    files = [r for r in index.py_files("src") if not r.startswith("src/utilities/plotter")]
    n, bad = arg_lane_mismatches(index, files, family)
    rep.note_analysed(f"argument/parameter pairs with a {'/'.join(family)} role", n)
    reported = 0
    for rel, c, callee, p, atxt, pr, toks in bad:
        exc = [why for (f, q, sub), why in EXCEPTIONS.items() if f == callee and q == p and sub in atxt]
        if exc:
            rep.ok(rule, f"{callee}({p}=...{atxt[:30]}): named exception", detail=exc[0])
            continue
        reported += 1
        rep.violation(rule, f"{rel}:{callee}({p} <- {atxt[:40]})",
                      f"{what}: parameter `{p}` ({pr}) of {callee}() receives `{atxt}`, which is named for {' / '.join(toks)}", loc=loc(rel, c))
    if not reported:
        rep.ok(rule, f"all {n} role-carrying arguments reach a parameter of the same role")
    m, ubad = unpack_lane_mismatches(index, files, family)
    rep.note_analysed(f"unpacked return positions with a {'/'.join(family)} role", m)
    for rel, st, callee, i, ttxt, etxt, tr, er in ubad:
        rep.violation(rule, f"{rel}:unpack {callee}()[{i}] -> {ttxt}",
                      f"{what}: position {i} of the tuple returned by {callee}() is `{etxt}` ({' / '.join(er)}) but it is unpacked into `{ttxt}` "
                      f"({' / '.join(tr)})", loc=loc(rel, st))
    if not ubad:
        rep.ok(rule, f"all {m} role-carrying positions of unpacked return tuples agree with their targets")
    if n < minimum:
        from .core import AnalysisError
        raise AnalysisError(f"{rule}: only {n} role-carrying argument/parameter pairs found (expected >= {minimum})")


def unpack_lane_mismatches(index, files, family):
    """`x_feed, x_biofuel = f(...)` against the order of f's returned tuple -> (positions examined, mismatches)"""
    fns = {}
    for rel in files:
        for fn in [n for n in ast.walk(index.module(rel)) if isinstance(n, (ast.FunctionDef, ast.AsyncFunctionDef))]:
            fns.setdefault(fn.name, []).append(fn)
    examined = 0
    bad = []
    for rel in files:
        for st in [n for n in ast.walk(index.module(rel)) if isinstance(n, ast.Assign)]:
            if not (len(st.targets) == 1 and isinstance(st.targets[0], (ast.Tuple, ast.List)) and isinstance(st.value, ast.Call)):
                continue
            c = st.value
            name = c.func.attr if isinstance(c.func, ast.Attribute) else (c.func.id if isinstance(c.func, ast.Name) else None)
            cands = fns.get(name, [])
            if len(cands) != 1:
                continue
            rets = [r for r in ast.walk(cands[0]) if isinstance(r, ast.Return) and isinstance(r.value, (ast.Tuple, ast.List))]
            # only the function's own returns (not nested defs)
            rets = [r for r in rets if _owner(r) is cands[0]]
            tg = st.targets[0].elts
            for r in rets:
                if len(r.value.elts) != len(tg):
                    continue
                for i, (t, e) in enumerate(zip(tg, r.value.elts)):
                    tr = _tokens(t, family)
                    er = _tokens(e, family)
                    if len(tr) == 1 and "*" not in tr and er and "*" not in er:
                        examined += 1
                        if not (tr & er):
                            bad.append((rel, st, name, i, norm_src(t)[:50], norm_src(e)[:50], sorted(tr), sorted(er)))
    return examined, bad


def _owner(node):
    p = getattr(node, "_parent", None)
    while p is not None and not isinstance(p, (ast.FunctionDef, ast.AsyncFunctionDef)):
        p = getattr(p, "_parent", None)
    return p
