"""C18 — hand-offs between rounds preserve totals, bounds and priorities.

  C18.CAP     ceiling = KCALS_DAILY x min(T, pf1)/100 (both branches of the guard)
  C18.GREEDY  consume() = min(food, remaining) with remaining reduced by it and reset to the ceiling every month
  C18.ORDER   the nine foods are filled in the documented priority order, each into its own series, keyed correctly
  C18.RETIME  re-timed meat = round-1 meat + filled difference; the fill conserves the total (paired updates) and never
              takes a donor below zero; the run-time assertions that carry the remaining clauses are present
  C18.BUMP    both outputs of the feed/biofuel bump are input + max(0, .)  (never lowered)
Not decided: 'never raises one above its demand schedule' (non-linear relational fact)."""
from __future__ import annotations

import ast
from fractions import Fraction

from .core import AnalysisError, loc, norm_src, walk_no_nested, dotted, str_const, Inliner
from .symx import Interp, Obj, Path, PList, PDict, Unsupported, explore, Abort, Opaque
from .rat import Rat

PARAMS = "src/optimizer/parameters.py"
VAL = "src/optimizer/validate_results.py"
OPT = "src/optimizer/optimizer.py"

PRIORITY = [
    ("fish", ["fish_kcals_equivalent"]),
    ("meat", ["meat_kcals_equivalent"]),
    ("dairy", ["milk_kcals_equivalent"]),
    ("greenhouse", ["greenhouse_kcals_equivalent"]),
    ("outdoor_crops", ["immediate_outdoor_crops_kcals_equivalent", "new_stored_outdoor_crops_kcals_equivalent"]),
    ("stored_food", ["stored_food_kcals_equivalent"]),
    ("methane_scp", ["scp_kcals_equivalent"]),
    ("cellulosic_sugar", ["cell_sugar_kcals_equivalent"]),
    ("seaweed", ["seaweed_kcals_equivalent"]),
]


def run(index, rep):
    fn = index.func(PARAMS, "Parameters.calculate_human_consumption_for_min_needs")
    rep.guard(cap, index, rep, fn)
    rep.guard(fill, index, rep, fn)
    rep.guard(retime, index, rep)
    rep.guard(bump, index, rep)
    from .lanes import lane_rule
    rep.guard(lane_rule, index, rep, "C18.HANDOFF", ("round1", "round2", "round3"), 30, "results or constants of different rounds crossed at a hand-off")


FDM_NAME = [None]  # name of the ceiling object, learnt by cap() for greedy()


def cap(index, rep, fn, rule="C18.CAP"):
    # evaluate the prefix of the function up to the statement that builds the ceiling
    body = [s for s in fn.body if not (isinstance(s, ast.Expr) and isinstance(s.value, ast.Constant))]
    upto = None
    for i, s in enumerate(body):
        if isinstance(s, ast.For):
            upto = i
            break
    if upto is None:
        raise AnalysisError("calculate_human_consumption_for_min_needs: month loop not found")
    prefix = body[:upto]

    def runit(it):
        def hook(interp, d, args, kwargs, node):
            if d == "Food":
                return PDict(dict(kwargs))
            return NotImplemented

        it.call_hook = hook
        env = {"constants_inputs": Path(("ci",)), "interpreted_results_round1": Path(("r1",)), "self": Obj(None, {}, "self")}
        it.exec_block(prefix, env)
        return env

    try:
        envs = explore(runit, month_classes=False)
    except Unsupported as e:
        raise AnalysisError(f"ceiling computation outside the analysed fragment: {e}")
    it0 = Interp()
    KD = it0.to_rat(Path(("ci", "NUTRITION", "KCALS_DAILY")))
    T = it0.to_rat(Path(("ci", "MINIMUM_PERCENT_FED_BEFORE_NONHUMAN_CONSUMPTION_ALLOWED")))
    PF = it0.to_rat(Path(("r1", "percent_people_fed")))
    seen = 0
    from .rat import feasible
    neg = {"<": ">=", "<=": ">", ">": "<=", ">=": "<", "==": "!=", "!=": "=="}
    arms = set()
    for _, dec, env, it in envs:
        if isinstance(env, Abort):
            continue
        missing = [k for k in dec if k not in it.pred_exprs]
        if missing:
            raise AnalysisError(f"ceiling computation forks on {missing} (expected comparisons of percent fed with the threshold)")
        cons = [(it.pred_exprs[k][0], it.pred_exprs[k][1] if v else neg[it.pred_exprs[k][1]]) for k, v in dec.items()]
        # data assumption: threshold and round-1 result are non-negative percentages
        cons0 = cons + [(T, ">="), (PF, ">=")]
        if not feasible(cons0):
            continue
        foods = [(k, v) for k, v in env.items() if isinstance(v, PDict) and "kcals" in v.d and "kcals_units" in v.d]
        if len(foods) != 1:
            raise AnalysisError(f"ceiling: {len(foods)} Food constructions before the month loop (expected the ceiling object only)")
        FDM_NAME[0], fdm = foods[0]
        got = fdm.d.get("kcals")
        # which of the two candidate ceilings do this leaf's conditions select?
        pf_ge_t = not feasible(cons0 + [(PF - T, "<")])   # conditions imply percent fed >= threshold
        pf_le_t = not feasible(cons0 + [(PF - T, ">")])   # conditions imply percent fed <= threshold
        label = "pf1>T" if pf_ge_t and not pf_le_t else ("pf1<=T" if pf_le_t and not pf_ge_t else ("pf1=T" if pf_ge_t else "pf1?T"))
        arms.add(label)
        want = [KD * T / Rat.const(100)] if pf_ge_t else []
        want += [KD * PF / Rat.const(100)] if pf_le_t else []
        seen += 1
        where = " and ".join(f"{c[0]} {c[1]} 0" for c in cons)
        rep.check(isinstance(got, Rat) and any(got == w for w in want), rule, f"ceiling[{label}]" + ("" if label != "pf1?T" else f"[{where}]"),
                  "the daily kcal ceiling is not KCALS_DAILY x min(threshold, round-1 percent fed)/100 when " + where,
                  loc=loc(PARAMS, fn), detail=f"got {got}; want one of {[str(w) for w in want]}")
        ok = isinstance(got, Rat) and all(isinstance(fdm.d.get(l), Rat) and fdm.d[l] == got for l in ("kcals", "fat", "protein")) and \
            fdm.d.get("kcals_units") == "kcals per person per day"
        rep.check(ok, rule, f"ceiling-object[{label}]" + ("" if label != "pf1?T" else f"[{where}]"),
                  "the ceiling object does not carry the computed ceiling (kcals per person per day) in all three lanes", loc=loc(PARAMS, fn))
    if not {"pf1>T", "pf1<=T"} <= arms and not ({"pf1>T", "pf1<=T", "pf1=T"} & arms and seen >= 2):
        raise AnalysisError(f"ceiling: arms {sorted(arms)} analysed, expected percent fed above and below the threshold")
    rep.require_min(rule, 4)


def _branch_means_pf_greater(key, val):
    k = key.replace(" ", "")
    import re
    m = re.fullmatch(r"\((.*)\)(>=|<=|>|<)0", k)
    if not m:
        return None
    expr, op = m.group(1), m.group(2)
    pos_pf = "+r1.percent_people_fed" in "+" + expr and "-r1.percent_people_fed" not in expr
    neg_pf = "-r1.percent_people_fed" in expr
    if not (pos_pf or neg_pf) or "MINIMUM_PERCENT_FED" not in expr:
        return None
    # expr = pf - T (pos_pf) or T - pf (neg_pf)
    greater = op in (">", ">=")
    pf_minus_t_positive = greater if pos_pf else (not greater)
    return pf_minus_t_positive if val else (not pf_minus_t_positive)


def _entry_first(r):
    """`X.kcals[m]` and `X[m].kcals` are the same number: atoms are rewritten to the second spelling"""
    from .rat import K
    mapping = {}
    for a in r.atoms():
        if isinstance(a, K) and len(a.path) >= 2 and "[]" in a.path:
            p = list(a.path)
            i = p.index("[]")
            if i >= 1 and p[i - 1] in ("kcals", "fat", "protein"):
                p[i - 1], p[i] = p[i], p[i - 1]
                mapping[a] = Rat.atom(K(tuple(p), a.idx))
    return r.subst(mapping) if mapping else r


def _overlap(a, b):
    """can one number satisfy both `x a.op a.bound` and `x b.op b.bound`?"""
    from .rat import feasible
    x = Rat.atom(("x",))
    return feasible([(x - Rat.const(Fraction(a[1]).limit_denominator(10**9)), a[0]), (x - Rat.const(Fraction(b[1]).limit_denominator(10**9)), b[0])])


def _neg_op(op):
    return {"<": ">=", "<=": ">", ">": "<=", ">=": "<", "==": "!=", "!=": "=="}[op]


def fill(index, rep, fn):
    """the greedy fill of one generic month, evaluated: whatever the code shape (nine consume() calls through a closure, a loop over a
    priority table, ...), the k-th amount consumed is min(food_k, ceiling - what foods 1..k-1 consumed), food_k is the documented round-1
    series of the k-th food at that month, and each amount lands under that food's key of the returned dictionary"""
    from .symx import _Return
    rule_g, rule_o = "C18.GREEDY", "C18.ORDER"
    loops = [s_ for s_ in fn.body if isinstance(s_, ast.For)]
    if len(loops) > 1:
        # the fill is the loop that takes minima (a merged-in validation helper may bring loops of its own)
        loops = [l_ for l_ in loops if any(isinstance(c_, ast.Call) and dotted(c_.func) in ("min", "np.minimum") for c_ in ast.walk(l_))]
    if len(loops) != 1:
        raise AnalysisError("calculate_human_consumption_for_min_needs: expected exactly one month loop")
    loop = loops[0]
    li = fn.body.index(loop)
    P = [a.arg for a in fn.args.args]
    from .core import ref_params as _rp18
    P_CI, P_R1 = _rp18(fn, ["constants_inputs", "interpreted_results_round1"])
    body = [s_ for s_ in fn.body if not (isinstance(s_, ast.Expr) and isinstance(s_.value, ast.Constant))]
    li = body.index(loop)

    def runit(it):
        it._mins = []

        def hook(interp, d, a, kw, node):
            if d == "Food":
                return Obj(None, dict(kw), "food")
            if d == "min" and len(a) == 2 and all(isinstance(x, (Rat, Path)) for x in a) and getattr(interp, "_in_loop", False):
                interp._mins.append((interp.to_rat(a[0]), interp.to_rat(a[1])))
                return Rat.atom(("MIN", len(interp._mins) - 1))
            if d in ("np.zeros_like", "np.zeros"):
                return Opaque("zeros")
            if d in ("np.array", "np.asarray") and len(a) == 1 and isinstance(a[0], (Path, Obj)):
                return a[0]
            if d == "sum" and len(a) == 1 and isinstance(a[0], (PList, tuple)) and all(
                    isinstance(x, Path) or (isinstance(x, Obj) and x.name == "series-sum") for x in (a[0].items if isinstance(a[0], PList) else a[0])):
                # a sum of whole monthly series (kept symbolic): entry m of it is the sum of the entries m
                parts = []
                for x in (a[0].items if isinstance(a[0], PList) else a[0]):
                    parts += x.attrs["parts"] if isinstance(x, Obj) else [x]
                return Obj(None, {"parts": parts}, "series-sum")
            if d and (d.startswith("Validator.") or d.startswith("self.assert_") or d == "print"):
                return None
            return NotImplemented

        it.call_hook = hook
        orig_gi = it.getitem

        def gi(obj, key, node):
            if isinstance(obj, Obj) and obj.name == "series-sum":
                tot = Rat.const(0)
                for p_ in obj.attrs["parts"]:
                    tot = tot + it.to_rat(orig_gi(p_, key, node))
                return tot
            return orig_gi(obj, key, node)

        it.getitem = gi
        env = {P[0]: Obj(None, {}, "self"), P_CI: Path(("ci",)), P_R1: Path(("r1",))}
        for extra in P[1:]:
            if extra not in (P_CI, P_R1):
                env[extra] = Path((extra,))
        it.exec_block(body[:li], env)
        # one generic month
        if not isinstance(loop.target, ast.Name):
            raise Unsupported("month loop target", loop)
        it._in_loop = True
        env[loop.target.id] = Rat.atom("M")
        it.exec_block(loop.body, env)
        it._n_first = len(it._mins)
        env[loop.target.id] = Rat.atom("M") + Rat.const(1)      # a second month: the ceiling must be whole again
        it.exec_block(loop.body, env)
        it._in_loop = False
        ret = None
        try:
            it.exec_block(body[li + 1:], env)
        except _Return as r:
            ret = r.value
        return ret, env

    try:
        leaves = [x for x in explore(runit, month_classes=False, preset=None) if not isinstance(x[2], Abort)]
    except Unsupported as e:
        raise AnalysisError(f"greedy fill outside the analysed fragment: {e}")
    KD = Interp().to_rat(Path(("ci", "NUTRITION", "KCALS_DAILY")))
    want_iter = ("range(0, " + P_CI + "['NMONTHS'])", "range(" + P_CI + "['NMONTHS'])")
    rep.check(norm_src(loop.iter) in want_iter, rule_g, "month-loop:range",
              f"the hand-off is not computed for every month 0..NMONTHS-1 ({norm_src(loop.iter)})", loc=loc(PARAMS, loop))
    n = 0
    for _, dec, res, it in leaves:
        ret, env = res
        if not isinstance(ret, PDict):
            raise AnalysisError("calculate_human_consumption_for_min_needs does not return a dictionary of Food constructions")

        def food_attrs(v):
            return v.attrs if isinstance(v, Obj) and v.name == "food" else None
        n += 1
        mins = it._mins
        # ceiling of this leaf: the kcals of the one Food built before the loop
        ceil_objs = [v for v in env.values() if food_attrs(v) is not None and isinstance(v.attrs.get("kcals"), Rat)]
        ceiling = ceil_objs[0].attrs["kcals"] if len(ceil_objs) >= 1 else None
        ok_g = ceiling is not None and len(mins) == 18 and it._n_first == 9
        consumed_so_far = Rat.const(0)
        foods = []
        for k, (a0, a1) in enumerate(mins):
            if k == 9:
                consumed_so_far = Rat.const(0)  # second month starts from the whole ceiling
            remaining_k = ceiling - consumed_so_far if ceiling is not None else None
            if a1 == remaining_k:
                food_k = a0
            elif a0 == remaining_k:
                food_k = a1
            else:
                ok_g = False
                food_k = None
            foods.append(food_k)
            consumed_so_far = consumed_so_far + Rat.atom(("MIN", k))
        rep.check(ok_g, rule_g, "k-th amount = min(food_k, ceiling - amounts 1..k-1), ceiling reset every month",
                  "the amounts handed off for a month are not the greedy fill of that month's ceiling: each must be min(food, what is left of the "
                  "ceiling after the foods before it) and the ceiling must be whole again at the start of every month", loc=loc(PARAMS, loop))
        # where each amount lands, and what food_k is
        got = {}
        for key, v in ret.d.items():
            kc = food_attrs(v).get("kcals") if food_attrs(v) is not None else None
            items = kc.items if isinstance(kc, PList) else None
            if items is not None and len(items) == 2 and isinstance(items[0], Rat):
                ms = [a_ for a_ in items[0].atoms() if isinstance(a_, tuple) and a_[0] == "MIN"]
                if len(ms) == 1 and items[0] == Rat.atom(ms[0]):
                    got[ms[0][1]] = str(key)
        for k, (pkey, pattrs) in enumerate(PRIORITY):
            fk = foods[k] if k < len(foods) else None
            want_food = sum((it.to_rat(Path(("r1", a_, "[]", "kcals"), it.index_of(Rat.atom("M")))) for a_ in pattrs), Rat.const(0)) if True else None
            try:
                want_food = Rat.const(0)
                for a_ in pattrs:
                    want_food = want_food + it.to_rat(it.getattr(it.getitem(Path(("r1", a_)), Rat.atom("M"), loop), "kcals", loop))
            except Unsupported:
                want_food = None
            ok_o = got.get(k) == pkey and fk is not None and want_food is not None and _entry_first(fk) == _entry_first(want_food)
            rep.check(ok_o, rule_o, f"priority[{k + 1}]:{pkey}",
                      f"position {k + 1} of the greedy fill is stored under {got.get(k)!r} and consumes {fk}; the documented order puts {pkey} = "
                      f"{' + '.join(pattrs)} (kcals of that month) there", loc=loc(PARAMS, loop))
        rep.check(len(ret.d) == 9 and len(set(got.values())) == 9, rule_o, "each-food-own-series", "two foods share a series, or a food has none",
                  loc=loc(PARAMS, fn))
        labs = {str(k_): (v.attrs.get("kcals_units"), v.attrs.get("fat_units")) for k_, v in ret.d.items() if food_attrs(v) is not None}
        rep.check(all(l == ("kcals per person per day", "effective kcals per person per day") for l in labs.values()), rule_o, "hand-off units",
                  "the hand-off is not labelled kcals per person per day", loc=loc(PARAMS, fn))
        key_names = {str(k_) for k_ in ret.d}
    if n < 1:
        raise AnalysisError("greedy fill: no completing path")
    # keys = resource food_names + {fish, dairy, greenhouse}
    from .lpdb import LPDB
    db = LPDB(index)
    want_keys = {r["food_name"] for r in db.resources.values()} | {"fish", "dairy", "greenhouse"}
    rep.check(key_names == want_keys, rule_o, "keys:match-optimiser-food-names",
              f"hand-off keys {sorted(key_names ^ want_keys)} differ from the optimiser's resource food names (+fish, dairy, greenhouse): "
              "round 2 would not find / pin a food", loc=loc(PARAMS, fn))
    # the validator's list is the same sequence
    v = index.func(VAL, "Validator.verify_food_usage_priorities_round2")
    # ... written in the function or kept as a table of the module / the class that the function names
    used = {n_.id for n_ in ast.walk(v) if isinstance(n_, ast.Name)} | {n_.attr for n_ in ast.walk(v) if isinstance(n_, ast.Attribute)}
    scopes = [v] + [st.value for holder in [index.module(VAL)] + [c_ for c_ in index.module(VAL).body if isinstance(c_, ast.ClassDef)]
                    for st in holder.body if isinstance(st, (ast.Assign, ast.AnnAssign)) and st.value is not None
                    and any(isinstance(t_, ast.Name) and t_.id in used for t_ in (st.targets if isinstance(st, ast.Assign) else [st.target]))]
    lists = [n_ for sc in scopes for n_ in ast.walk(sc) if isinstance(n_, (ast.List, ast.Tuple)) and len(n_.elts) == 9]
    names = []
    for l in lists:
        if all(str_const(e) for e in l.elts):
            names.append([str_const(e) for e in l.elts])
        elif all(isinstance(e, (ast.Tuple, ast.List)) and e.elts and str_const(e.elts[0]) for e in l.elts):
            names.append([str_const(e.elts[0]) for e in l.elts])   # a list of (hand-off key, result name) pairs
    rep.check([p_ for p_, _ in PRIORITY] in names, rule_o, "validator:same-order",
              "Validator.verify_food_usage_priorities_round2 checks a different priority sequence", loc=loc(VAL, v))
    c2 = index.func(PARAMS, "Parameters.compute_parameters_second_round")
    from .core import Inliner
    inl2 = Inliner(c2)
    ret2 = [r for r in c2.body if isinstance(r, ast.Return) and isinstance(r.value, ast.Tuple)]
    ok = bool(ret2) and len(ret2[-1].value.elts) > 4 and inl2.src(ret2[-1].value.elts[4]).startswith("self.calculate_human_consumption_for_min_needs(")
    rep.check(ok, rule_o, "second-round:slot-4", "compute_parameters_second_round does not return the hand-off in slot 4", loc=loc(PARAMS, c2))
    rep.require_min(rule_g, 2)
    rep.require_min(rule_o, 13)


def retime(index, rep):
    rule = "C18.RETIME"
    fn = index.func(PARAMS, "Parameters.get_second_round_kcals_with_redistributed_meat")
    cls = index.cls(PARAMS, "Parameters")
    r1, r2 = Rat.atom(("r1",)), Rat.atom(("r2",))

    def runit(it):
        it.classes = {"Parameters": cls}

        def hook(interp, d, args, kwargs, node):
            if d == "self.fill_negatives_with_positives":
                return Rat.atom(("FILL", str(interp.to_rat(args[0]))))
            if d in ("np.all", "np.any"):
                return args[0]
            return NotImplemented

        it.call_hook = hook
        obj = Obj(cls, {}, "self")
        from .core import bind_named
        a_, k_ = bind_named(fn, [("round_1_meat_kcals", r1), ("round_2_meat_kcals", r2), ("milk_kcals_round1", Rat.atom(("m1",))),
                                 ("milk_kcals_round2", Rat.atom(("m2",)))])
        return it.call_function(fn, a_, k_, obj)

    try:
        envs = explore(runit, month_classes=False)
    except Unsupported as e:
        raise AnalysisError(f"get_second_round_kcals_with_redistributed_meat outside the analysed fragment: {e}")
    good = [(dec, res, it) for _, dec, res, it in envs if not isinstance(res, Abort)]
    nonnull = [(dec, res, it) for dec, res, it in good if res is not None]
    nulls = [(dec, res, it) for dec, res, it in good if res is None]
    if not nonnull:
        raise AnalysisError("re-timing function has no path returning an array")
    fill = Rat.atom(("FILL", str(r2 - r1)))
    for dec, res, it in nonnull:
        ok = isinstance(res, Rat) and (res - r1) == fill
        rep.check(ok, rule, "retimed = round1 + fill(round2 - round1)",
                  "the re-timed meat is not round-1 meat plus the filled (non-negative) difference: it could fall below the no-feed level",
                  loc=loc(PARAMS, fn), detail=str(res))
    filled = [norm_src(s.targets[0]) for s in walk_no_nested(fn) if isinstance(s, ast.Assign) and isinstance(s.value, ast.Call)
              and dotted(s.value.func) == "self.fill_negatives_with_positives"]
    from .core import bounds_in
    asserts0 = [norm_src(a.test) for a in walk_no_nested(fn) if isinstance(a, ast.Assert)]
    all_bounds = [b for a in walk_no_nested(fn) if isinstance(a, ast.Assert) for b in bounds_in(a.test)]
    okf = len(filled) == 1 and any(k == "lower" and -0.001 <= v <= 0 and norm_src(e_) == filled[0] for k, e_, v, strict in all_bounds)
    rep.check(okf, rule, "assert:filled-difference-non-negative",
              "the run-time assertion `filled difference >= -0.001` is gone (month-by-month dominance over round 1 is no longer enforced)",
              loc=loc(PARAMS, fn), detail=" ; ".join(asserts0)[:300])
    # the two other assertions (total preserved; result non-negative), by their canonical content
    inl_r = Inliner(fn)

    def summands(e):
        e = inl_r.expr(e)
        out, work = [], [e]
        while work:
            x = work.pop()
            if isinstance(x, ast.BinOp) and isinstance(x.op, ast.Add):
                work += [x.left, x.right]
            else:
                out.append(norm_src(x))
        return sorted(out)

    rets_r = [r for r in walk_no_nested(fn) if isinstance(r, ast.Return) and r.value is not None and not (isinstance(r.value, ast.Constant) and r.value.value is None)]
    ret_terms = summands(rets_r[-1].value) if rets_r else None

    def linear_form(e):
        """the expression as a rational form over the parameters and the results of the calls in it (copy-propagated first)"""
        it_l = Interp()
        it_l.opaque_calls = True
        env_l = {a_.arg: Rat.atom((a_.arg,)) for a_ in fn.args.args}
        env_l[fn.args.args[0].arg] = Obj(None, {}, "self")
        try:
            return it_l.to_rat(it_l.eval(inl_r.expr(e), env_l))
        except Exception:
            return None

    ret_form = linear_form(rets_r[-1].value) if rets_r else None
    rep.check(any(k == "upper" and 0 <= v <= 0.001 and "abs(" in norm_src(e_) and ".sum()" in norm_src(e_) for k, e_, v, strict in all_bounds), rule,
              "assert:total-preserved", "the assertion that the adjustment sums to zero (total meat preserved) is gone", loc=loc(PARAMS, fn))
    rep.check(ret_terms is not None and any(k == "lower" and -0.001 <= v <= 0 and (summands(e_) == ret_terms or (
        ret_form is not None and linear_form(e_) is not None and linear_form(e_) == ret_form)) for k, e_, v, strict in all_bounds), rule,
              "assert:result-non-negative", "the assertion that the re-timed meat is non-negative is gone", loc=loc(PARAMS, fn))
    # the None path is the 'less meat with feed' case: only when sum(round1) > sum(round2)
    rep.check(len(nulls) >= 1, rule, "skip-path-exists", "no path skips round 2 when feeding yields less meat", loc=loc(PARAMS, fn))
    # the re-timed series is what round 2 is handed: it is stored into the monthly constants that compute_parameters_second_round returns
    # (into the object held there, not into a copy of it)
    c2r = index.func(PARAMS, "Parameters.compute_parameters_second_round")
    inl2 = Inliner(c2r)
    rets2 = [r for r in c2r.body if isinstance(r, ast.Return) and isinstance(r.value, ast.Tuple) and len(r.value.elts) >= 2
             and not all(isinstance(e_, ast.Constant) for e_ in r.value.elts)]
    tcn = norm_src(rets2[-1].value.elts[1]) if rets2 else None
    from .core import find_call
    hits = []
    fc = find_call(index.methods(PARAMS, "Parameters"), c2r, "get_second_round_kcals_with_redistributed_meat")   # here or one helper level down
    okh = False
    if fc is not None and tcn is not None:
        host, call_, view = fc
        host_inl = Inliner(host)
        for t_, v_ in host_inl.stores:
            if any(n_ is call_ for n_ in ast.walk(v_)) and isinstance(t_, ast.Attribute):
                base_txt = view.src(t_.value)
                hits.append((norm_src(t_), base_txt))
                later_rebinds = [s_ for s_ in walk_no_nested(host) if isinstance(s_, ast.Assign) and s_.lineno > t_.lineno and any(
                    isinstance(x_, ast.Name) and x_.id == tcn for tg in s_.targets for x_ in ([tg] if isinstance(tg, ast.Name) else getattr(tg, "elts", [])))]
                if base_txt == f"{tcn}['each_month_meat_slaughtered']":
                    okh = True
                elif host is c2r and norm_src(t_.value) == f"{tcn}['each_month_meat_slaughtered']" and not later_rebinds:
                    okh = True      # stored through the very variable that is returned (not rebound in between)
                else:
                    # ... or into a copy that is afterwards put there
                    holder = norm_src(t_.value)
                    okh = okh or any(view.src(t2) == f"{tcn}['each_month_meat_slaughtered']" and norm_src(v2) == holder for t2, v2 in host_inl.stores)
    rep.check(okh, rule, "retimed series stored into round 2's monthly constants",
              "the re-timed meat series is not what compute_parameters_second_round hands to round 2 (it is computed into "
              f"{[h[0] for h in hits] or 'nothing'}, which is not the returned monthly constants' each_month_meat_slaughtered): the month-by-month floor at "
              "the no-feed level is lost", loc=loc(PARAMS, c2r))
    # fill_negatives_with_positives: paired updates, fresh array, donor guard
    f = index.func(PARAMS, "Parameters.fill_negatives_with_positives")
    params = [a.arg for a in f.args.args if a.arg not in ("self", "cls")]
    if not params:
        raise AnalysisError("fill_negatives_with_positives takes no array argument")
    param = params[0]
    # the working array: the name every subscripted update goes to
    targets = {norm_src(st.target.value) for st in walk_no_nested(f) if isinstance(st, ast.AugAssign) and isinstance(st.target, ast.Subscript)}
    if len(targets) != 1:
        raise AnalysisError(f"fill_negatives_with_positives updates {sorted(targets)} (expected one working array)")
    arr = targets.pop()
    defs_arr = [s for s in f.body if isinstance(s, ast.Assign) and any(norm_src(t) == arr for t in s.targets)]

    def fresh_copy(v):
        """np.array(p, ...) without copy=False, np.copy(p), p.copy(), p.astype(...) without copy=False, copy.deepcopy(p), list(p)"""
        if not isinstance(v, ast.Call):
            return False
        d = dotted(v.func) or ""
        nocopy = any(k.arg == "copy" and isinstance(k.value, ast.Constant) and k.value.value is False for k in v.keywords)
        if d in ("np.array", "numpy.array", "np.copy", "copy.deepcopy", "copy.copy", "list", "np.asarray") and v.args and norm_src(v.args[0]) == param:
            return d != "np.asarray" and not nocopy
        if isinstance(v.func, ast.Attribute) and v.func.attr == "copy" and not v.args:
            return True  # a copy of anything is fresh
        if isinstance(v.func, ast.Attribute) and v.func.attr == "astype" and norm_src(v.func.value) == param:
            return not nocopy
        return False

    rep.check(len(defs_arr) == 1 and fresh_copy(defs_arr[0].value) and f.body.index(defs_arr[0]) == min(
        i for i, s_ in enumerate(f.body) if not (isinstance(s_, ast.Expr) and isinstance(s_.value, ast.Constant))), rule, "fill:works-on-a-copy",
              "the fill mutates its argument instead of a fresh float copy", loc=loc(PARAMS, f))
    plain = [st for st in walk_no_nested(f) if isinstance(st, ast.Assign) and any(isinstance(t, ast.Subscript) and norm_src(t.value) in (arr, param)
                                                                               for t in st.targets)]
    rep.check(not plain, rule, "fill:no-plain-store", "an element of the array is overwritten (not a transfer): the total changes", loc=loc(PARAMS, f))
    # every position of the array can donate and receive: an index range walked backwards goes down to position 0, one walked forwards
    # starts at position 0 and runs to the end (a range that stops one short leaves month 0 - or the last month - out of the re-timing)
    bad_rng = []
    n_rng = 0
    for n_ in ast.walk(f):
        it_ = n_.iter if isinstance(n_, (ast.For, ast.comprehension)) else None
        if isinstance(it_, ast.Call) and dotted(it_.func) == "range" and any("len(" in norm_src(a_) for a_ in it_.args):
            n_rng += 1
            a_ = [norm_src(x).replace(" ", "") for x in it_.args]
            okr = (len(a_) == 3 and a_[2] == "-1" and a_[1] == "-1" and a_[0].endswith("-1")) or (len(a_) == 1) or (len(a_) == 2 and a_[0] == "0") \
                or (len(a_) == 3 and a_[2] == "1" and a_[0] == "0")
            if not okr:
                bad_rng.append(norm_src(it_))
    rep.check(not bad_rng, rule, "fill:every-position-visited",
              f"an index range of the fill does not cover every position of the array ({'; '.join(bad_rng)}): a surplus (or shortfall) in the month "
              "left out is never used, so the re-timed series can stay below the no-feed level", loc=loc(PARAMS, f))
    # one step of the fill, evaluated: deficit index I with value R, candidate donor J with value D. Whatever the shape of the guards
    # (one test or two, `continue` or nested if), on every path that changes the array: J != I, D > 0, the pair's sum is conserved,
    # the donor does not go below zero and the deficit is not over-filled, and something is moved.
    from .symx import _Continue, _Break, _Return
    from .rat import feasible
    ups = [st for st in walk_no_nested(f) if isinstance(st, ast.AugAssign) and isinstance(st.target, ast.Subscript) and norm_src(st.target.value) == arr]
    inner = ups[0]
    while inner is not None and not isinstance(inner, ast.For):
        inner = getattr(inner, "_parent", None)
    outer = getattr(inner, "_parent", None) if inner is not None else None
    while outer is not None and not isinstance(outer, ast.For):
        outer = getattr(outer, "_parent", None)
    if inner is None or outer is None or not isinstance(inner.target, ast.Name) or not isinstance(outer.target, ast.Name) or \
            any(id(u) not in {id(n_) for n_ in ast.walk(inner)} for u in ups):
        raise AnalysisError("fill_negatives_with_positives: expected the transfers in a donor loop nested in a deficit loop")
    inl_f = Inliner(f)
    outer_iter = inl_f.src(outer.iter).replace(" ", "")
    I, J, R, D = (Rat.atom((n_,)) for n_ in ("I", "J", "R", "D"))

    def index_set(e):
        """`np.where(P(arr))[0]` (also np.nonzero / np.flatnonzero, reversed or sliced [::-1]) -> (op, bound): the entries it selects
        satisfy `entry op bound`; None if the expression is not such a selection"""
        e = inl_f.expr(e)
        while True:
            if isinstance(e, ast.Call) and dotted(e.func) in ("reversed", "list", "np.flip", "np.array", "sorted") and len(e.args) == 1:
                e = e.args[0]
            elif isinstance(e, ast.Subscript) and isinstance(e.slice, ast.Slice):
                e = e.value
            else:
                break
        if isinstance(e, ast.Subscript) and isinstance(e.slice, ast.Constant) and e.slice.value == 0 and isinstance(e.value, ast.Call) \
                and dotted(e.value.func) in ("np.where", "np.nonzero") and len(e.value.args) == 1:
            p_ = e.value.args[0]
        elif isinstance(e, ast.Call) and dotted(e.func) == "np.flatnonzero" and len(e.args) == 1:
            p_ = e.args[0]
        else:
            return None
        neg = False
        while isinstance(p_, ast.UnaryOp) and isinstance(p_.op, (ast.Invert, ast.Not)):
            neg, p_ = not neg, p_.operand
        if not (isinstance(p_, ast.Compare) and len(p_.ops) == 1):
            return None
        ops = {ast.Lt: "<", ast.LtE: "<=", ast.Gt: ">", ast.GtE: ">="}
        flip = {"<": ">", "<=": ">=", ">": "<", ">=": "<="}
        op = ops.get(type(p_.ops[0]))
        l_, r_ = p_.left, p_.comparators[0]
        if op is None:
            return None
        if norm_src(l_) == arr:
            pass
        elif norm_src(r_) == arr:
            l_, r_, op = r_, l_, flip[op]
        else:
            return None
        try:
            bound = float(ast.literal_eval(r_))
        except Exception:
            return None
        if neg:
            op = _neg_op(op)
        return op, bound

    outer_sel = index_set(outer.iter)
    inner_sel = index_set(inner.iter)
    deficits_only = outer_sel is not None and outer_sel[0] == "<" and outer_sel[1] == 0
    # statements that only compute such a selection are not executed (the selection is read from the loop header instead)
    selection_stmts = {id(s_) for s_ in walk_no_nested(f) if isinstance(s_, ast.Assign) and any(
        isinstance(c_, ast.Call) and dotted(c_.func) in ("np.where", "np.nonzero", "np.flatnonzero") for c_ in ast.walk(s_.value))}

    def run_step(it):
        def hook(interp, d, a, kw, node):
            if d == "len":
                return Rat.atom(("N",))
            return NotImplemented
        it.call_hook = hook
        env = {arr: PDict({it.dkey(I, None): R, it.dkey(J, None): D}), outer.target.id: I, inner.target.id: J}
        how = "end"
        try:
            it.exec_block([s_ for s_ in outer.body if s_ is not inner and s_.lineno < inner.lineno and id(s_) not in selection_stmts], env)
            it.exec_block(inner.body, env)
        except _Continue:
            how = "continue"
        except _Break:
            how = "break"
        return env[arr], how

    try:
        leaves = explore(run_step, month_classes=False)
    except Unsupported as e:
        raise AnalysisError(f"fill_negatives_with_positives outside the analysed fragment: {e}")

    def expand(cons):
        """!= constraints split into the two strict orders"""
        outs = [[]]
        for r_, op in cons:
            if op == "!=":
                outs = [o + [(r_, "<")] for o in outs] + [o + [(r_, ">")] for o in outs]
            else:
                outs = [o + [(r_, op)] for o in outs]
        return outs

    def possible(cons):
        return any(feasible(c_) for c_ in expand(cons))

    n_pairs = 0
    bad = {"distinct": None, "positive": None, "conserved": None, "no-negative-donor": None, "no-overfill": None, "moves": None}
    for _, dec, res, it in leaves:
        if isinstance(res, Abort):
            continue
        out, how = res
        cons = [(it.pred_exprs[k][0], it.pred_exprs[k][1] if v else _neg_op(it.pred_exprs[k][1])) for k, v in dec.items() if k in it.pred_exprs]
        if deficits_only:
            cons.append((R, "<"))
        if inner_sel is not None:
            # donors come from a selection made at the start of this pass; within the pass an entry changes only when it is visited
            cons.append((D - Rat.const(Fraction(inner_sel[1]).limit_denominator(10**9)), inner_sel[0]))
            cons.append((I - J, "!=")) if (outer_sel is not None and not _overlap(outer_sel, inner_sel)) else None
        if not possible(cons):
            continue
        nI, nJ = out.d[it.dkey(I, None)], out.d[it.dkey(J, None)]
        if nI == R and nJ == D:
            continue
        n_pairs += 1
        arm = ",".join("T" if v else "F" for v in dec.values())
        if possible(cons + [(I - J, "==")]):
            bad["distinct"] = bad["distinct"] or arm
        if possible(cons + [(D, "<=")]):
            bad["positive"] = bad["positive"] or arm
        if not (nI + nJ == R + D):
            bad["conserved"] = bad["conserved"] or arm
        if possible(cons + [(nJ, "<")]):
            bad["no-negative-donor"] = bad["no-negative-donor"] or arm
        if possible(cons + [(nI, ">")]):
            bad["no-overfill"] = bad["no-overfill"] or arm
        if possible(cons + [(nI - R, "<=")]):
            bad["moves"] = bad["moves"] or arm
    rep.check(bad["conserved"] is None, rule, "fill:paired-update", "an update of the array is not a transfer between two entries of the same amount: "
              "the total is not conserved", loc=loc(PARAMS, ups[0]), detail=f"path {bad['conserved']}")
    rep.check(bad["no-negative-donor"] is None and bad["no-overfill"] is None and bad["moves"] is None, rule, "fill:amount=min(deficit,donor)",
              "the transferred amount is not min(deficit, donor): a donor could go negative, a deficit be over-filled, or nothing be moved",
              loc=loc(PARAMS, ups[0]), detail=str({k_: v_ for k_, v_ in bad.items() if v_}))
    rep.check(bad["distinct"] is None and bad["positive"] is None, rule, "fill:donor-positive-and-distinct",
              "donors are not restricted to other, strictly positive entries", loc=loc(PARAMS, f), detail=str({k_: v_ for k_, v_ in bad.items() if v_}))
    rep.check(deficits_only, rule, "fill:receivers-are-the-negative-entries", f"the fill does not visit exactly the negative entries ({outer_iter})",
              loc=loc(PARAMS, outer))
    if n_pairs < 1:
        raise AnalysisError("fill_negatives_with_positives: no path transfers anything")
    rets = [r for r in f.body if isinstance(r, ast.Return)]
    rep.check(len(rets) == 1 and norm_src(rets[0].value) == arr, rule, "fill:returns-the-array", "the filled array is not what is returned", loc=loc(PARAMS, f))
    rep.require_min(rule, 9)


def bump(index, rep):
    rule = "C18.BUMP"
    fn = index.func(PARAMS, "Parameters.increase_biofuels_then_feed")
    cls = index.cls(PARAMS, "Parameters")
    from .core import own_params
    names = own_params(fn)
    is_method = len(names) < len(fn.args.args)
    from .core import ref_params as _rpb
    bf2 = _rpb(fn, ["biofuel", "feed"], method=is_method)
    if len(names) < 2 or None in bf2:
        raise AnalysisError(f"increase_biofuels_then_feed signature changed: {names}")
    args = [Rat.atom((n,)) for n in names]
    orig = {n: a for n, a in zip(names, args)}

    def runit(it):
        it.classes = {"Parameters": cls}
        return it.call_function(fn, list(args), {}, Obj(cls, {}, "self") if is_method else None)

    try:
        envs = explore(runit, month_classes=False)
    except Unsupported as e:
        raise AnalysisError(f"increase_biofuels_then_feed outside the analysed fragment: {e}")
    n = 0
    for _, dec, res, it in envs:
        if isinstance(res, Abort):
            continue
        if not (isinstance(res, tuple) and len(res) == 2):
            raise AnalysisError("increase_biofuels_then_feed no longer returns a pair")
        n += 1
        for slot, nm in enumerate(("biofuel", "feed")):
            inc = res[slot] - orig[bf2[slot]]
            at = [a for a in inc.atoms() if isinstance(a, tuple) and a[:2] == ("call", "np.maximum")]
            ok = len(at) == 1 and inc == Rat.atom(at[0]) and any(("np.zeros" in str(x)) or str(x) == "0" for x in at[0][2:])
            rep.check(ok, rule, f"output[{slot}]={nm}+max(0,.)",
                      f"returned {nm} is not the input {nm} plus a quantity clamped at zero: the adjustment can lower it", loc=loc(PARAMS, fn),
                      detail=str(inc)[:200])
    if n == 0:
        raise AnalysisError("increase_biofuels_then_feed: no completing path")
    # entry by entry (the routine is elementwise): what each series may be raised by is at most its own head-room under its demand, and
    # what is granted in total is at most what was asked for in total - on every path, from the path's own conditions
    import ast as _ast
    from .symx import leaf_implies, _Return
    body = [s_ for s_ in fn.body if not (isinstance(s_, _ast.Expr) and isinstance(s_.value, _ast.Constant))]
    A = {nm: Rat.atom((nm,)) for nm in names}

    def run_el(it):
        it.classes = {"Parameters": cls}

        def hk(interp, d, a, kw, node):
            if d in ("np.minimum", "np.maximum") and len(a) == 2 and all(isinstance(x, (Rat, Path)) for x in a):
                x, y = interp.to_rat(a[0]), interp.to_rat(a[1])
                le = interp.truth(interp.compare(_ast.LtE(), x, y, node), node)
                return (x if le else y) if d == "np.minimum" else (y if le else x)
            if d == "np.where" and len(a) == 3:
                return a[1] if interp.truth(a[0], node) else a[2]
            if d in ("np.zeros", "np.zeros_like"):
                return Rat.const(0)
            if d == "len":
                return Rat.atom(("len",))
            if d in ("np.divide", "np.true_divide") and len(a) == 2 and not (set(kw) - {"out", "where"}):
                # elementwise: where the condition holds the quotient, elsewhere what `out` held before
                x, y = interp.to_rat(a[0]), interp.to_rat(a[1])
                if "where" not in kw:
                    return x / y
                if "out" not in kw:
                    raise Unsupported("np.divide(..., where=) without out= leaves the other entries uninitialised", node)
                return x / y if interp.truth(kw["where"], node) else kw["out"]
            return NotImplemented

        it.call_hook = hk
        env = {fn.args.args[0].arg: Obj(cls, {}, "self")}
        env.update(A)
        try:
            it.exec_block(body, env)
        except _Return:
            pass
        return env

    try:
        el = [x for x in explore(run_el, month_classes=False) if not isinstance(x[2], Abort)]
    except Unsupported as e:
        raise AnalysisError(f"increase_biofuels_then_feed (entry by entry) outside the analysed fragment: {e}")
    pnames = {"biofuel": [p_ for p_ in names if "biofuel" in p_ and p_ != "biofuel"], "feed": [p_ for p_ in names if "feed" in p_ and p_ != "feed"]}
    if any(len(v_) != 1 for v_ in pnames.values()):
        raise AnalysisError(f"increase_biofuels_then_feed: the demand parameters of biofuel and feed were not identified ({pnames})")
    given = [(A["biofuel"], ">="), (A["feed"], ">="), (A[names[2]], ">="), (A[pnames["biofuel"][0]] - A["biofuel"], ">="), (A[pnames["feed"][0]] - A["feed"], ">=")]
    bad = None
    seen_pot = 0
    for _, dec, env, it in el:
        for use in ("biofuel", "feed"):
            pots = [k_ for k_, v_ in env.items() if "potential" in k_ and use in k_ and "total" not in k_ and isinstance(v_, (Rat, Path))]
            for k_ in pots:
                seen_pot += 1
                room = A[pnames[use][0]] - A[use]
                if not leaf_implies(it, dec, it.to_rat(env[k_]) - room, "<=", extra=given):
                    bad = bad or f"{k_} = {it.to_rat(env[k_])} can exceed the head-room {room} of {use} under its demand"
    if seen_pot < 2:
        raise AnalysisError("increase_biofuels_then_feed: the potential increases of biofuel and feed were not found among its locals")
    # how the granted total is split: the biofuel share is potential_biofuel / (total potential [+ a tiny constant]) on every path (0 only
    # where the biofuel potential is 0), and feed gets the rest - with granted <= total potential each part then stays within its own
    # potential increase, hence within its head-room
    bad_share = None
    n_share = 0
    for _, dec, env, it in el:
        pb = [v_ for k_, v_ in env.items() if "potential" in k_ and "biofuel" in k_ and "total" not in k_ and isinstance(v_, (Rat, Path))]
        pf = [v_ for k_, v_ in env.items() if "potential" in k_ and "feed" in k_ and "total" not in k_ and isinstance(v_, (Rat, Path))]
        sh = [(k_, v_) for k_, v_ in env.items() if any(w in k_ for w in ("proportion", "share", "fraction")) and isinstance(v_, (Rat, Path))]
        if len(pb) != 1 or len(pf) != 1 or len(sh) != 1:
            import os as _os
            if _os.environ.get("ALLFEDSA_DEBUG"):
                print("share-debug", len(pb), len(pf), [(k_, type(v_).__name__) for k_, v_ in env.items() if any(w in k_ for w in ("proportion", "share", "fraction", "potential"))])
            continue
        n_share += 1
        pb_, pf_, v_ = it.to_rat(pb[0]), it.to_rat(pf[0]), it.to_rat(sh[0][1])
        ok_s = False
        if v_.is_zero():
            ok_s = leaf_implies(it, dec, pb_, "<=", extra=given)
        else:
            eps = pb_ / v_ - (pb_ + pf_)
            ok_s = eps.is_const() and 0 <= eps.const_value() <= Fraction(1, 10 ** 6)
        if not ok_s:
            bad_share = bad_share or f"{sh[0][0]} = {str(v_)[:80]} when " + ", ".join(f"{str(k_)[:40]}={'T' if b_ else 'F'}" for k_, b_ in list(dec.items())[:4])
    if n_share:
        rep.check(bad_share is None, rule, "the granted total is split in proportion to the potential increases",
                  "the share of the granted increase that goes to biofuel is not potential_biofuel / total potential on every path, so the rest - "
                  f"which goes to feed - can exceed what feed may still be raised by: {bad_share}", loc=loc(PARAMS, fn))
    rep.check(bad is None, rule, "potential increase <= head-room under the demand, for biofuel and for feed",
              f"a series can be raised above its demand: {bad}", loc=loc(PARAMS, fn))
    rep.require_min(rule, 3)


def describe(rep):
    rep.explanation = (
        "Static analysis of the hand-off helpers in parameters.py. C18.CAP: the code before the month loop is abstractly "
        "evaluated, forking on every data-dependent test; each feasible leaf must give KCALS_DAILY x T/100 where its conditions "
        "imply pf1 >= T and KCALS_DAILY x pf1/100 where they imply pf1 <= T (linear-relaxation feasibility over the guards), i.e. "
        "KCALS_DAILY x min(T, pf1)/100 whatever the code shape (if/else, min(), conditional expression). C18.GREEDY: the closure is "
        "evaluated symbolically: it returns min(food, remaining) and lowers remaining by exactly that; remaining is reset to the "
        "ceiling at the top of every month and nowhere else. With nine calls per month this gives, per month, "
        "sum(consumed) = min(sum(foods), ceiling) and consumed_i <= food_i (greedy-fill lemma). C18.ORDER: the nine calls, by the "
        "result attribute each reads at the loop's month index and the series each appends to, are in the documented order; "
        "the dictionary keys equal the optimiser's resource food names plus fish/dairy/greenhouse; the validator checks the same "
        "sequence; the dictionary is what reaches round 2. C18.RETIME: re-timed meat - round-1 meat is identically the filled "
        "difference; the fill works on a copy and changes it only by transfers arr[a]+=x; arr[b]-=x with x=min(deficit, donor), "
        "donor positive and distinct, so the total is conserved and no donor goes negative; the three run-time assertions that "
        "carry non-negativity and dominance are present. C18.BUMP: each output is input + np.maximum(0, .). NOT decided: that the "
        "bump never exceeds the demand schedule (needs a non-linear relational fact)."
    )
    rep.assumptions = ["the foods handed to the greedy fill are non-negative (validated elsewhere at run time)",
                       "the filled difference is non-negative whenever sum(round2) >= sum(round1) (asserted at run time)"]
