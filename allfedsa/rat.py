"""Exact rational-function arithmetic over named atoms.

Poly  : {monomial: Fraction}, monomial = tuple(sorted((atom, exp)))
Rat   : num/den of Polys.  Equality is decided by cross multiplication, so no
        polynomial GCD is needed; normalisation only strips numeric content and
        common monomial factors (cosmetic, keeps sizes down).

Atoms are arbitrary hashable values.  LP decision variables are atoms of the
namedtuple type ``V``; everything else (model constants, opaque function
applications) is a ``K`` or a plain tuple/string.
"""
from __future__ import annotations

from collections import namedtuple
from fractions import Fraction
from math import gcd

V = namedtuple("V", "family idx")  # LP variable atom; idx is an Idx
K = namedtuple("K", "path idx")  # model constant; path tuple of str, idx Idx|None
Idx = namedtuple("Idx", "m n c")  # index m*month + n*NMONTHS + c

MAX_DEGREE = 40
MAX_TERMS = 20000


class RatError(Exception):
    pass


def _akey(atom):
    return (type(atom).__name__, repr(atom))


def _mono_mul(a, b):
    if not a:
        return b
    if not b:
        return a
    d = dict(a)
    for at, e in b:
        d[at] = d.get(at, 0) + e
    items = [(at, e) for at, e in d.items() if e != 0]
    items.sort(key=lambda t: _akey(t[0]))
    return tuple(items)


class Poly:
    __slots__ = ("t",)

    def __init__(self, terms=None):
        self.t = {}
        if terms:
            for m, c in terms.items():
                if c != 0:
                    self.t[m] = Fraction(c)

    @staticmethod
    def const(c):
        return Poly({(): Fraction(c)})

    @staticmethod
    def atom(a):
        return Poly({((a, 1),): Fraction(1)})

    def is_zero(self):
        return not self.t

    def is_const(self):
        return all(m == () for m in self.t)

    def const_value(self):
        return self.t.get((), Fraction(0))

    def __add__(self, o):
        d = dict(self.t)
        for m, c in o.t.items():
            v = d.get(m, 0) + c
            if v == 0:
                d.pop(m, None)
            else:
                d[m] = v
        p = Poly()
        p.t = d
        return p

    def __neg__(self):
        p = Poly()
        p.t = {m: -c for m, c in self.t.items()}
        return p

    def __sub__(self, o):
        return self + (-o)

    def __mul__(self, o):
        if len(self.t) * len(o.t) > MAX_TERMS:
            raise RatError("polynomial too large")
        d = {}
        for m1, c1 in self.t.items():
            for m2, c2 in o.t.items():
                m = _mono_mul(m1, m2)
                if sum(e for _, e in m) > MAX_DEGREE:
                    raise RatError("degree bound exceeded")
                v = d.get(m, 0) + c1 * c2
                if v == 0:
                    d.pop(m, None)
                else:
                    d[m] = v
        p = Poly()
        p.t = d
        return p

    def scale(self, c):
        p = Poly()
        if c != 0:
            p.t = {m: v * c for m, v in self.t.items()}
        return p

    def __eq__(self, o):
        return isinstance(o, Poly) and self.t == o.t

    def __hash__(self):
        return hash(frozenset(self.t.items()))

    def atoms(self):
        s = set()
        for m in self.t:
            for a, _ in m:
                s.add(a)
        return s

    def content(self):
        """positive rational g such that self/g has coprime integer coefficients"""
        if not self.t:
            return Fraction(1)
        num = 0
        den = 1
        for c in self.t.values():
            num = gcd(num, abs(c.numerator))
            den = den * c.denominator // gcd(den, c.denominator)
        return Fraction(num, den)

    def mono_gcd(self):
        it = iter(self.t)
        try:
            first = dict(next(it))
        except StopIteration:
            return ()
        for m in it:
            dm = dict(m)
            for a in list(first):
                e = min(first[a], dm.get(a, 0))
                if e <= 0:
                    del first[a]
                else:
                    first[a] = e
            if not first:
                return ()
        items = sorted(first.items(), key=lambda t: _akey(t[0]))
        return tuple(items)

    def div_mono(self, mono):
        if not mono:
            return self
        dm = dict(mono)
        p = Poly()
        for m, c in self.t.items():
            d = dict(m)
            for a, e in dm.items():
                d[a] = d[a] - e
            items = [(a, e) for a, e in d.items() if e != 0]
            items.sort(key=lambda t: _akey(t[0]))
            p.t[tuple(items)] = c
        return p

    @staticmethod
    def _mkey(m):
        return (sum(e for _, e in m), [(_akey(a), e) for a, e in m])

    def lead(self):
        m = max(self.t, key=Poly._mkey)
        return m, self.t[m]

    def divide_exact(self, d, max_steps=400):
        """quotient q with self == q*d, or None (multivariate division in a graded order)"""
        if d.is_zero():
            return None
        rem = Poly(self.t)
        q = Poly()
        dm, dc = d.lead()
        ddict = dict(dm)
        steps = 0
        while not rem.is_zero():
            steps += 1
            if steps > max_steps:
                return None
            rm, rc = rem.lead()
            rdict = dict(rm)
            if any(rdict.get(a, 0) < e for a, e in ddict.items()):
                return None
            qm = {}
            for a, e in rdict.items():
                e2 = e - ddict.get(a, 0)
                if e2:
                    qm[a] = e2
            qmono = tuple(sorted(qm.items(), key=lambda t: _akey(t[0])))
            term = Poly({qmono: rc / dc})
            q = q + term
            rem = rem - term * d
        return q

    def subst(self, mapping):
        """mapping: atom -> Rat ; returns Rat"""
        out = Rat.const(0)
        for m, c in self.t.items():
            term = Rat.const(c)
            for a, e in m:
                base = mapping[a] if a in mapping else Rat.atom(a)
                term = term * (base ** e)
            out = out + term
        return out

    def __str__(self):
        if not self.t:
            return "0"
        parts = []
        for m in sorted(self.t, key=lambda mm: [(_akey(a), e) for a, e in mm]):
            c = self.t[m]
            ms = "*".join(
                (atom_str(a) if e == 1 else f"{atom_str(a)}^{e}") for a, e in m
            )
            if not ms:
                parts.append(str(c))
            elif c == 1:
                parts.append(ms)
            elif c == -1:
                parts.append("-" + ms)
            else:
                parts.append(f"{c}*{ms}")
        return " + ".join(parts).replace("+ -", "- ")


def idx_str(i):
    if i is None:
        return ""
    if not isinstance(i, Idx):
        if isinstance(i, tuple) and i and i[0] == "sum":
            return f"[SUM {i[1]}..{i[2]}{i[3]:+d}]"
        return "[" + str(i) + "]"
    parts = []
    if i.m:
        parts.append("m" if i.m == 1 else f"{i.m}m")
    if i.n:
        parts.append("N" if i.n == 1 else f"{i.n}N")
    if i.c or not parts:
        parts.append(str(i.c) if not parts or i.c < 0 else f"+{i.c}")
    s = "".join(parts)
    return "[" + s + "]"


def atom_str(a):
    if isinstance(a, V):
        return f"{a.family}{idx_str(a.idx)}"
    if isinstance(a, K):
        return ".".join(a.path) + idx_str(a.idx)
    if isinstance(a, tuple):
        return "<" + ",".join(str(x) for x in a) + ">"
    return str(a)


class Rat:
    __slots__ = ("n", "d")

    def __init__(self, n, d=None):
        if d is None:
            d = Poly.const(1)
        if d.is_zero():
            raise ZeroDivisionError("division by the zero polynomial")
        # normalise: numeric content, common monomial, sign
        if n.is_zero():
            self.n = n
            self.d = Poly.const(1)
            return
        g = d.content()
        # sign: make the leading (sorted-first) coefficient of d positive
        lead = d.t[min(d.t, key=lambda mm: [(_akey(a), e) for a, e in mm])]
        if lead < 0:
            g = -g
        if g != 1:
            n = n.scale(1 / g)
            d = d.scale(1 / g)
        mg = _mono_gcd2(n.mono_gcd(), d.mono_gcd())
        if mg:
            n = n.div_mono(mg)
            d = d.div_mono(mg)
        if n == d:
            n = Poly.const(1)
            d = Poly.const(1)
        elif not d.is_const() and len(d.t) > 1:
            # cancel an exactly dividing denominator (or numerator)
            q = n.divide_exact(d) if len(n.t) * len(d.t) <= 4000 else None
            if q is not None:
                n, d = q, Poly.const(1)
            elif len(n.t) > 1:
                q2 = d.divide_exact(n) if len(n.t) * len(d.t) <= 4000 else None
                if q2 is not None and not q2.is_zero():
                    n, d = Poly.const(1), q2
                    g2 = d.content()
                    lead2 = d.t[min(d.t, key=lambda mm: [(_akey(a), e) for a, e in mm])]
                    if lead2 < 0:
                        g2 = -g2
                    n = n.scale(1 / g2)
                    d = d.scale(1 / g2)
        self.n = n
        self.d = d

    # constructors ---------------------------------------------------------
    @staticmethod
    def const(c):
        return Rat(Poly.const(Fraction(c)))

    @staticmethod
    def atom(a):
        return Rat(Poly.atom(a))

    @staticmethod
    def lit(text_or_num):
        """exact value of a numeric literal (floats via their repr)"""
        if isinstance(text_or_num, bool):
            return Rat.const(int(text_or_num))
        if isinstance(text_or_num, int):
            return Rat.const(text_or_num)
        if isinstance(text_or_num, float):
            return Rat.const(Fraction(repr(text_or_num)))
        return Rat.const(Fraction(text_or_num))

    # predicates -----------------------------------------------------------
    def is_zero(self):
        return self.n.is_zero()

    def is_const(self):
        return self.n.is_const() and self.d.is_const()

    def const_value(self):
        if not self.is_const():
            raise RatError("not a constant")
        return self.n.const_value() / self.d.const_value()

    def as_int(self):
        v = self.const_value()
        if v.denominator != 1:
            raise RatError("not an integer")
        return int(v)

    def atoms(self):
        return self.n.atoms() | self.d.atoms()

    def vars(self):
        return {a for a in self.atoms() if isinstance(a, V)}

    # arithmetic -----------------------------------------------------------
    def __add__(self, o):
        if self.d == o.d:
            return Rat(self.n + o.n, self.d)
        return Rat(self.n * o.d + o.n * self.d, self.d * o.d)

    def __neg__(self):
        return Rat(-self.n, self.d)

    def __sub__(self, o):
        return self + (-o)

    def __mul__(self, o):
        # cancel equal cross factors cheaply
        if self.n == o.d:
            return Rat(o.n, self.d)
        if self.d == o.n:
            return Rat(self.n, o.d)
        return Rat(self.n * o.n, self.d * o.d)

    def __truediv__(self, o):
        if o.is_zero():
            raise ZeroDivisionError("division by zero form")
        return self * Rat(o.d, o.n)

    def __pow__(self, e):
        if not isinstance(e, int):
            raise RatError("non-integer power")
        if e < 0:
            return Rat.const(1) / (self ** (-e))
        out = Rat.const(1)
        for _ in range(e):
            out = out * self
        return out

    def __eq__(self, o):
        if not isinstance(o, Rat):
            return NotImplemented
        if self.d == o.d:
            return self.n == o.n
        return (self.n * o.d) == (o.n * self.d)

    def __hash__(self):
        return hash(str(self))

    def subst(self, mapping):
        if not mapping:
            return self
        at = self.atoms()
        if not any(a in mapping for a in at):
            return self
        return self.n.subst(mapping) / self.d.subst(mapping)

    def __str__(self):
        if self.d.is_const() and self.d.const_value() == 1:
            return str(self.n)
        return f"({self.n})/({self.d})"

    __repr__ = __str__

    # linear decomposition --------------------------------------------------
    def linear_in_vars(self):
        """-> (coeffs {V: Rat}, const Rat).  Raises RatError if not affine in V atoms."""
        if any(isinstance(a, V) for a in self.d.atoms()):
            raise RatError("LP variable in a denominator")
        groups = {}
        for m, c in self.n.t.items():
            vs = [(a, e) for a, e in m if isinstance(a, V)]
            if len(vs) > 1 or (vs and vs[0][1] != 1):
                raise RatError("non-linear in LP variables: " + str(self))
            key = vs[0][0] if vs else None
            rest = tuple((a, e) for a, e in m if not isinstance(a, V))
            groups.setdefault(key, Poly()).t[rest] = c
        den = self.d
        coeffs = {}
        const = Rat.const(0)
        for key, p in groups.items():
            r = Rat(p, den)
            if key is None:
                const = r
            else:
                coeffs[key] = r
        return coeffs, const

    def coeff(self, var):
        co, _ = self.linear_in_vars()
        return co.get(var, Rat.const(0))


def _mono_gcd2(a, b):
    if not a or not b:
        return ()
    db = dict(b)
    out = []
    for at, e in a:
        f = min(e, db.get(at, 0))
        if f > 0:
            out.append((at, f))
    return tuple(out)


# ---------------------------------------------------------------------------------
# sign / interval domain (used only to decide positivity of scaling factors)


class Interval:
    __slots__ = ("lo", "hi", "lo_open", "hi_open")

    def __init__(self, lo, hi, lo_open=False, hi_open=False):
        self.lo, self.hi, self.lo_open, self.hi_open = lo, hi, lo_open, hi_open

    def __repr__(self):
        return f"{'(' if self.lo_open else '['}{self.lo},{self.hi}{')' if self.hi_open else ']'}"


INF = float("inf")


def _imul(a, b):
    cands = []
    for x, xo in ((a.lo, a.lo_open), (a.hi, a.hi_open)):
        for y, yo in ((b.lo, b.lo_open), (b.hi, b.hi_open)):
            if (x == 0 and not xo) or (y == 0 and not yo):
                cands.append((0, False))
            elif x == 0 or y == 0:
                cands.append((0, True))
            else:
                cands.append((x * y, xo or yo))
    lo = min(c[0] for c in cands)
    hi = max(c[0] for c in cands)
    lo_open = all(c[1] for c in cands if c[0] == lo)
    hi_open = all(c[1] for c in cands if c[0] == hi)
    return Interval(lo, hi, lo_open, hi_open)


def _iadd(a, b):
    return Interval(a.lo + b.lo, a.hi + b.hi, a.lo_open or b.lo_open, a.hi_open or b.hi_open)


def poly_interval(p, ranges):
    """Interval enclosure of a polynomial; atoms without a declared range -> (-inf, inf)."""
    total = Interval(0, 0)
    for m, c in p.t.items():
        term = Interval(c, c)
        for a, e in m:
            r = ranges(a)
            if r is None:
                r = Interval(-INF, INF, True, True)
            for _ in range(e):
                term = _imul(term, r)
        total = _iadd(total, term)
    return total


def rat_sign(r, ranges):
    """'+' if provably > 0, '-' if provably < 0, '0' if zero, '+0' if >= 0, '-0' if <= 0, None unknown."""
    if r.is_zero():
        return "0"

    def sgn(iv):
        if iv.lo > 0 or (iv.lo == 0 and iv.lo_open):
            return "+"
        if iv.hi < 0 or (iv.hi == 0 and iv.hi_open):
            return "-"
        if iv.lo == 0:
            return "+0"
        if iv.hi == 0:
            return "-0"
        return None

    sn = sgn(poly_interval(r.n, ranges))
    sd = sgn(poly_interval(r.d, ranges))
    if sn is None or sd is None or sd in ("+0", "-0"):
        # try the linear-factor trick: n or d of the form (a - b*x) handled by the interval already
        return None
    if sd == "+":
        return sn
    flip = {"+": "-", "-": "+", "+0": "-0", "-0": "+0"}
    return flip[sn]


# ---------------------------------------------------------------------------------
# linear algebra over the Rat field: span membership


def in_span(equalities, target, unknowns=None):
    """Is `target` (a Rat, meaning target == 0) a Rat-linear combination of `equalities`
    (Rats, each meaning e == 0)?  Unknown columns are the V atoms (plus the constant column).
    Coefficients of the combination may be any rational function of non-V atoms.
    Returns (bool, residual Rat)."""
    rows = []
    cols = []
    colset = {}

    def decompose(r):
        co, const = r.linear_in_vars()
        d = dict(co)
        d[None] = const
        return d

    tvec = decompose(target)
    evecs = [decompose(e) for e in equalities]
    for vec in evecs + [tvec]:
        for k in vec:
            if k not in colset:
                colset[k] = len(cols)
                cols.append(k)
    zero = Rat.const(0)

    def row(vec):
        return [vec.get(k, zero) for k in cols]

    rows = [row(v) for v in evecs]
    t = row(tvec)
    ncol = len(cols)
    # gaussian elimination, reduce t along the way
    piv_rows = []
    for c in range(ncol):
        pr = None
        for r in rows:
            if not r[c].is_zero() and all(r is not p for p, _ in piv_rows):
                pr = r
                break
        if pr is None:
            continue
        pv = pr[c]
        for i in range(ncol):
            pr[i] = pr[i] / pv if not pr[i].is_zero() else pr[i]
        for r in rows:
            if r is pr or r[c].is_zero():
                continue
            f = r[c]
            for i in range(ncol):
                if not pr[i].is_zero():
                    r[i] = r[i] - f * pr[i]
        if not t[c].is_zero():
            f = t[c]
            for i in range(ncol):
                if not pr[i].is_zero():
                    t[i] = t[i] - f * pr[i]
        piv_rows.append((pr, c))
    resid = zero
    for i, k in enumerate(cols):
        if not t[i].is_zero():
            resid = resid + (t[i] * Rat.atom(k) if k is not None else t[i])
    return resid.is_zero(), resid


def solve_combination(rows, target):
    """Find coefficients c_i (Rats free of V atoms) with sum c_i*rows[i] == target as affine
    forms in the V atoms (constant column included).  Returns list of Rats or None."""
    def decompose(r):
        co, const = r.linear_in_vars()
        d = dict(co)
        d[None] = const
        return d

    vecs = [decompose(r) for r in rows]
    tvec = decompose(target)
    cols = []
    for v in vecs + [tvec]:
        for k in v:
            if k not in cols:
                cols.append(k)
    zero = Rat.const(0)
    n = len(rows)
    # equations: for each column k: sum_i c_i * vecs[i][k] = tvec[k]
    A = [[vecs[i].get(k, zero) for i in range(n)] + [tvec.get(k, zero)] for k in cols]
    piv = []
    r = 0
    for c in range(n):
        pr = None
        for i in range(r, len(A)):
            if not A[i][c].is_zero():
                pr = i
                break
        if pr is None:
            continue
        A[r], A[pr] = A[pr], A[r]
        pv = A[r][c]
        A[r] = [x / pv if not x.is_zero() else x for x in A[r]]
        for i in range(len(A)):
            if i != r and not A[i][c].is_zero():
                f = A[i][c]
                A[i] = [a - f * b if not b.is_zero() else a for a, b in zip(A[i], A[r])]
        piv.append((r, c))
        r += 1
    for i in range(r, len(A)):
        if not A[i][n].is_zero():
            return None
    sol = [zero] * n
    for ri, c in piv:
        sol[c] = A[ri][n]
    return sol


# ------------------------------------------------------------------------------------------------------------------
# Feasibility of a conjunction of polynomial sign conditions, decided in the LINEAR RELAXATION (every distinct monomial is an
# independent real variable): infeasible in the relaxation => infeasible, so pruning on False is sound; True means "not refuted".

def feasible(constraints, nonneg_monomials=(), max_rows=4000):
    """constraints: iterable of (Rat diff, op) meaning `diff op 0`, op in <, <=, >, >=, ==, !=  (!= is ignored).
    Rats with non-constant denominators are ignored (unknown sign of the denominator).
    nonneg_monomials: monomial keys (as in Poly.t) known to be >= 0."""
    rows = []  # (coef dict mono->Fraction, const Fraction, strict)  meaning  sum coef*x + const  (< or <=) 0

    def add(poly, strict):
        c = poly.t.get((), Fraction(0))
        coef = {m: v for m, v in poly.t.items() if m != ()}
        rows.append((coef, c, strict))

    for r, op in constraints:
        if not isinstance(r, Rat) or not r.d.is_const():
            continue
        p = r.n.scale(Fraction(1) / r.d.const_value())
        if op == "<":
            add(p, True)
        elif op == "<=":
            add(p, False)
        elif op == ">":
            add(-p, True)
        elif op == ">=":
            add(-p, False)
        elif op == "==":
            add(p, False)
            add(-p, False)
    for m in nonneg_monomials:
        rows.append(({m: Fraction(-1)}, Fraction(0), False))
    variables = sorted({m for coef, _, _ in rows for m in coef}, key=repr)
    for v in variables:
        pos, neg, rest = [], [], []
        for row in rows:
            a = row[0].get(v, 0)
            (pos if a > 0 else neg if a < 0 else rest).append(row)
        new = rest
        for cp, kp, sp in pos:
            ap = cp[v]
            for cn, kn, sn in neg:
                an = -cn[v]
                coef = {}
                for m, x in cp.items():
                    if m != v:
                        coef[m] = coef.get(m, 0) + x * an
                for m, x in cn.items():
                    if m != v:
                        coef[m] = coef.get(m, 0) + x * ap
                coef = {m: x for m, x in coef.items() if x != 0}
                new.append((coef, kp * an + kn * ap, sp or sn))
        if len(new) > max_rows:
            return True  # give up: not refuted
        rows = new
        for coef, k, strict in rows:
            if not coef and (k > 0 or (strict and k >= 0)):
                return False
    for coef, k, strict in rows:
        if not coef and (k > 0 or (strict and k >= 0)):
            return False
    return True


def implied_substitutions(constraints):
    """equalities forced by the constraints (a non-strict condition whose strict version is infeasible, or an explicit ==),
    returned as a substitution {atom: Rat} (each equality solved for one atom that occurs linearly with a constant coefficient)."""
    cons = [(r, op) for r, op in constraints if isinstance(r, Rat) and r.d.is_const()]
    eqs = []
    for i, (r, op) in enumerate(cons):
        if op == "==":
            eqs.append(r)
        elif op in ("<=", ">="):
            strict = "<" if op == "<=" else ">"
            others = cons[:i] + cons[i + 1:]
            if not feasible(others + [(r, strict)]):
                eqs.append(r)
    mapping = {}
    for r in eqs:
        r = r.subst(mapping)
        if not r.d.is_const() or r.is_zero():
            continue
        p = r.n
        for m, c in sorted(p.t.items(), key=lambda kv: repr(kv[0])):
            if len(m) == 1 and m[0][1] == 1:
                a = m[0][0]
                if any(a in [x for x, _ in m2] for m2 in p.t if m2 != m):
                    continue
                rest = Poly({m2: c2 for m2, c2 in p.t.items() if m2 != m})
                val = Rat(rest.scale(Fraction(-1) / c))
                mapping = {k: v.subst({a: val}) for k, v in mapping.items()}
                mapping[a] = val
                break
    return mapping



def poly_derivative(p, atom):
    out = {}
    for m, c in p.t.items():
        d = dict(m)
        e = d.get(atom, 0)
        if e == 0:
            continue
        if e == 1:
            del d[atom]
        else:
            d[atom] = e - 1
        key = tuple(sorted(d.items(), key=lambda t: (_akey(t[0]))))
        out[key] = out.get(key, 0) + c * e
    q = Poly()
    q.t = {k: Fraction(v) for k, v in out.items() if v != 0}
    return q


def rat_derivative(r, atom):
    """d/d(atom) of the rational form n/d"""
    dn, dd = poly_derivative(r.n, atom), poly_derivative(r.d, atom)
    return Rat(dn * r.d - r.n * dd, r.d * r.d)


def derivative_sign(r, atom, ranges):
    """sign of d(n/d)/d(atom) = (n'd - nd')/d^2: only the numerator matters (d^2 > 0 wherever r is defined)"""
    dn, dd = poly_derivative(r.n, atom), poly_derivative(r.d, atom)
    num = dn * r.d - r.n * dd
    return rat_sign(Rat(num), ranges)



def normalise_constraints(cons, positive=(), nonneg=()):
    """sign conditions made linear where that is sound: a denominator whose sign follows from the atoms declared positive / non-negative is
    multiplied out, and positive atoms that divide every term of the numerator are divided out ((i - N) x e / t < 0 with e, t > 0 becomes
    i - N < 0).  Conditions that cannot be simplified are returned unchanged (the feasibility test then ignores or relaxes them)."""
    ranges = {}
    for a in positive:
        ranges[a] = Interval(0, INF, True, True)
    for a in nonneg:
        ranges.setdefault(a, Interval(0, INF, False, True))
    flip = {"<": ">", "<=": ">=", ">": "<", ">=": "<=", "==": "==", "!=": "!="}
    out = []
    for r, op in cons:
        if not isinstance(r, Rat):
            out.append((r, op))
            continue
        if not r.d.is_const():
            sd = _poly_sign(r.d, ranges)
            if sd == "+":
                r = Rat(r.n, Poly.const(1))
            elif sd == "-":
                r, op = Rat(r.n, Poly.const(1)), flip[op]
            else:
                out.append((r, op))
                continue
        n = r.n
        changed = True
        while changed:
            changed = False
            for a in positive:
                if len(n.t) >= 2 and all(any(x == a for x, _ in m) for m in n.t):
                    new = {}
                    for m, c in n.t.items():
                        mm = tuple((x, e_ - 1) if x == a else (x, e_) for x, e_ in m)
                        mm = tuple((x, e_) for x, e_ in mm if e_ > 0)
                        new[mm] = new.get(mm, Fraction(0)) + c
                    n = Poly(new)
                    changed = True
        out.append((Rat(n, r.d if r.d.is_const() else Poly.const(1)), op))
    return out


def _poly_sign(p, ranges):
    iv = poly_interval(p, ranges.get)
    if iv.lo > 0 or (iv.lo == 0 and iv.lo_open):
        return "+"
    if iv.hi < 0 or (iv.hi == 0 and iv.hi_open):
        return "-"
    return None


def piecewise_mismatch(leaves, pieces, var, extra=(), positive=(), nonneg=()):
    """compare an evaluated piecewise function of `var` with a specified one.
    leaves: [(constraints, value Rat)] - the conditions each path of the evaluation met and the value it produced;
    pieces: [(lo, hi, value Rat)] - the specification on lo <= var <= hi (None = unbounded); adjacent pieces agree at their common end.
    A leaf must give the piece's value wherever the two overlap in more than a point (identical rational functions), and at a common
    end point when that is all they share (values compared after substituting the point).
    -> None if everything matches, else a text describing the first mismatch"""
    v = Rat.atom(var) if not isinstance(var, Rat) else var
    for cons, val in leaves:
        cons = normalise_constraints(list(cons) + list(extra), positive, nonneg)
        if not feasible(cons):
            continue
        hit = False
        for lo, hi, want in pieces:
            inside = []
            if lo is not None:
                inside.append((v - lo, ">"))
            if hi is not None:
                inside.append((v - hi, "<"))
            if feasible(cons + inside):
                hit = True
                if not (val == want):
                    return f"on {_show(lo)} < i < {_show(hi)} the value is {val}, expected {want}"
                continue
            for pt in (lo, hi):
                if pt is not None and feasible(cons + [(v - pt, "==")]):
                    hit = True
                    a, b = val.subst({var: pt}), want.subst({var: pt})
                    if not (a == b):
                        return f"at i = {pt} the value is {a}, expected {b}"
        if not hit:
            return f"a path yields {val} under conditions that match no piece of the specification"
    return None


def _show(x):
    return "-inf/+inf" if x is None else str(x)
