"""Canonical form of the syntax trees the rules read.

Every module is normalised once, when the Index loads it, so that spellings of the same program that differ only in the ways below are
one program to every rule (positions are kept, so reports still point at the original lines):

  range(0, n)                      -> range(n)
  a > b, a >= b                    -> b < a, b <= a          (one comparison operator)
  c == x / c != x (c a literal)    -> x == c / x != c;  two non-literal operands of ==/!= are ordered by their text
  if not X: A else: B              -> if X: B else: A        (also inside elif chains)
  if c: ...; return x  else: B     -> if c: ...; return x  followed by B   (no else after a branch that always leaves)
  Class(a, b)                      -> Class(p=a, q=b) for repository classes with their own __init__ (constructions are read by field name)
  if c: f = self.a else: f = self.b; r = f(x)   -> if c: r = self.a(x) else: r = self.b(x)   (a method value chosen, then called once)
  f(p=a, q=b) / f(a, q=b)          -> f(a, b) when the callee is certain (self.<method defined once in the class family>,
                                      <Class>.<function>, a module-level function of the same module) and the arguments fill the
                                      callee's parameters from the left without gaps
"""
from __future__ import annotations

import ast


def class_table(mods):
    classes = {}
    for mod in mods:
        for c in [n for n in ast.walk(mod) if isinstance(n, ast.ClassDef)]:
            classes.setdefault(c.name, []).append(c)
    return {k: v[0] for k, v in classes.items() if len(v) == 1}


def family(classes, cname):
    """the class, its ancestors and its descendants among the repository's classes"""
    def bases(c):
        return [b.id for b in classes[c].bases if isinstance(b, ast.Name) and b.id in classes]
    fam = {cname}
    changed = True
    while changed:
        changed = False
        for c in classes:
            if c in fam:
                for b in bases(c):
                    if b not in fam:
                        fam.add(b)
                        changed = True
            elif any(b in fam for b in bases(c)):
                fam.add(c)
                changed = True
    return fam


def method_of(classes, cname, m):
    if cname not in classes:
        return None
    defs = [f for c in family(classes, cname) for f in classes[c].body if isinstance(f, ast.FunctionDef) and f.name == m]
    return defs[0] if len(defs) == 1 else None


def callable_params(fn, drop_first):
    a = fn.args
    if fn.decorator_list or a.vararg or a.kwarg or a.posonlyargs:
        return None
    ps = [x.arg for x in a.args]
    return ps[1:] if drop_first else ps


# attribute names that are also methods of builtin containers, strings, numpy arrays or pandas objects: never resolved by name alone
LIBRARY_METHOD_NAMES = {
    "append", "extend", "insert", "remove", "pop", "clear", "index", "count", "sort", "reverse", "copy", "get", "items", "keys", "values",
    "update", "setdefault", "add", "discard", "union", "join", "split", "strip", "replace", "format", "startswith", "endswith", "lower", "upper",
    "sum", "all", "any", "min", "max", "mean", "round", "astype", "reshape", "tolist", "flatten", "cumsum", "dot", "fill", "transpose",
    "read", "write", "close", "open", "solve", "value", "to_csv", "to_dict", "apply", "merge", "drop", "rename", "set_index", "reset_index",
    "iterrows", "groupby", "plot", "show", "save", "load", "run", "main", "validate",
}


def unique_methods(classes):
    """method name -> (class name, FunctionDef) for methods defined exactly once among all repository classes"""
    seen = {}
    for cname, c in classes.items():
        for f in c.body:
            if isinstance(f, ast.FunctionDef):
                seen.setdefault(f.name, []).append((cname, f))
    return {k: v[0] for k, v in seen.items() if len(v) == 1 and not k.startswith("__") and k not in LIBRARY_METHOD_NAMES}


def constructor_params(call, classes):
    """parameter names of <Class>.__init__ (without self) for a call `<Class>(...)` of a repository class that defines __init__ itself"""
    f = call.func
    if isinstance(f, ast.Name) and f.id in classes:
        init = [m for m in classes[f.id].body if isinstance(m, ast.FunctionDef) and m.name == "__init__"]
        if len(init) == 1 and init[0].args.args and init[0].args.args[0].arg == "self":
            return callable_params(init[0], True)
    return None


def certain_callee_params(call, cls_name, classes, modfuncs, by_name=None):
    """parameter names (without the bound self) of the function this call certainly reaches, or None.
    self.<m> / <Class>.<m> / module function / <Class>(...) constructor; with `by_name` (unique_methods) also <anything>.<m> where m is
    defined exactly once in the repository's classes and is no library method name"""
    f = call.func
    if isinstance(f, ast.Attribute) and isinstance(f.value, ast.Name) and f.value.id == "self" and cls_name:
        fn = method_of(classes, cls_name, f.attr)
        if fn is not None and fn.args.args and fn.args.args[0].arg == "self":
            return callable_params(fn, True)
    if isinstance(f, ast.Attribute) and isinstance(f.value, ast.Name) and f.value.id in classes:
        fn = method_of(classes, f.value.id, f.attr)
        if fn is not None:
            return callable_params(fn, False)
    if isinstance(f, ast.Name) and f.id in modfuncs:
        return callable_params(modfuncs[f.id], False)
    if by_name is not None and isinstance(f, ast.Attribute) and f.attr in by_name and not (isinstance(f.value, ast.Name) and f.value.id in classes):
        cname, fn = by_name[f.attr]
        if fn.args.args and fn.args.args[0].arg in ("self", "cls"):
            return callable_params(fn, True)
        return None   # a function without self reached through an instance would bind the instance: leave alone
    return None


class Canon(ast.NodeTransformer):
    def __init__(self, classes, modfuncs):
        self.classes, self.modfuncs = classes, modfuncs
        self.by_name = unique_methods(classes)
        self.cls = None
        self.counts = {"range0": 0, "compare": 0, "if-not-else": 0, "keywords": 0}

    def visit_ClassDef(self, node):
        prev, self.cls = self.cls, node.name
        self.generic_visit(node)
        self.cls = prev
        return node

    # -- `f = self.a` in one arm, `f = self.b` in the other, then one call `... f(args)`: the call is moved into the arms
    def _method_value_dispatch(self, stmts):
        i = 0
        while i + 1 < len(stmts):
            st, nxt = stmts[i], stmts[i + 1]
            if isinstance(st, ast.If) and st.orelse:
                arms = self._arms(st)
                name = None
                if arms is not None:
                    lasts = [a[-1] for a in arms if a]
                    if len(lasts) == len(arms) and all(
                            isinstance(l_, ast.Assign) and len(l_.targets) == 1 and isinstance(l_.targets[0], ast.Name)
                            and isinstance(l_.value, ast.Attribute) and isinstance(l_.value.value, ast.Name) and l_.value.value.id == "self"
                            for l_ in lasts) and len({l_.targets[0].id for l_ in lasts}) == 1:
                        name = lasts[0].targets[0].id
                if name is not None:
                    uses = [n for n in ast.walk(nxt) if isinstance(n, ast.Name) and n.id == name]
                    calls = [c for c in ast.walk(nxt) if isinstance(c, ast.Call) and isinstance(c.func, ast.Name) and c.func.id == name]
                    later = [n for s_ in stmts[i + 2:] for n in ast.walk(s_) if isinstance(n, ast.Name) and n.id == name]
                    if len(uses) == 1 and len(calls) == 1 and not later and isinstance(nxt, (ast.Assign, ast.Expr, ast.Return)):
                        import copy
                        for a in arms:
                            target = a[-1].value
                            new = copy.deepcopy(nxt)
                            for c in ast.walk(new):
                                if isinstance(c, ast.Call) and isinstance(c.func, ast.Name) and c.func.id == name:
                                    c.func = copy.deepcopy(target)
                            ast.copy_location(new, a[-1])
                            a[-1] = new
                        del stmts[i + 1]
                        self.counts["method-value"] = self.counts.get("method-value", 0) + 1
                        continue
            i += 1

    # -- `table = {"a": self.f, "b": self.g}` ... `x = table[key](args)`: the statement becomes the if/elif chain it abbreviates
    #    (`if key == "a": x = self.f(args) elif key == "b": x = self.g(args) else: raise KeyError(key)`)
    def _method_table_dispatch(self, stmts, tables):
        import copy
        for st in stmts:
            if isinstance(st, ast.Assign) and len(st.targets) == 1 and isinstance(st.targets[0], ast.Name) and isinstance(st.value, ast.Dict) \
                    and st.value.keys and all(isinstance(k, ast.Constant) for k in st.value.keys) and all(
                        isinstance(v, ast.Attribute) and isinstance(v.value, ast.Name) and v.value.id == "self" for v in st.value.values):
                tables[st.targets[0].id] = st.value
        i = 0
        while i < len(stmts):
            st = stmts[i]
            if isinstance(st, (ast.Assign, ast.Expr, ast.Return)) and st.value is not None:
                calls = [c for c in ast.walk(st) if isinstance(c, ast.Call) and isinstance(c.func, ast.Subscript) and isinstance(c.func.value, ast.Name)
                         and c.func.value.id in tables]
                if len(calls) == 1 and not any(isinstance(n, (ast.Lambda, ast.ListComp, ast.GeneratorExp, ast.DictComp, ast.SetComp)) for n in ast.walk(st)):
                    tab = tables[calls[0].func.value.id]
                    key = calls[0].func.slice
                    chain = None
                    for k, v in reversed(list(zip(tab.keys, tab.values))):
                        new = copy.deepcopy(st)
                        for c in ast.walk(new):
                            if isinstance(c, ast.Call) and isinstance(c.func, ast.Subscript) and isinstance(c.func.value, ast.Name) \
                                    and c.func.value.id == calls[0].func.value.id:
                                c.func = copy.deepcopy(v)
                        test = ast.Compare(left=copy.deepcopy(key), ops=[ast.Eq()], comparators=[copy.deepcopy(k)])
                        orelse = [chain] if chain is not None else [ast.Raise(exc=ast.Call(func=ast.Name(id="KeyError", ctx=ast.Load()), args=[copy.deepcopy(key)],
                                                                                          keywords=[]), cause=None)]
                        chain = ast.If(test=test, body=[new], orelse=orelse)
                        ast.copy_location(chain, st)
                    stmts[i] = chain
                    ast.fix_missing_locations(chain)
                    self.counts["method-table"] = self.counts.get("method-table", 0) + 1
            i += 1

    def _arms(self, st):
        """statement lists of all arms of an if/elif/else chain that ends in an else; None if it does not"""
        arms = [st.body]
        cur = st
        while len(cur.orelse) == 1 and isinstance(cur.orelse[0], ast.If):
            cur = cur.orelse[0]
            arms.append(cur.body)
        if not cur.orelse:
            return None
        arms.append(cur.orelse)
        return arms

    def _dedent_else(self, stmts):
        """`if c: ...; return/raise/continue/break  else: B` -> the if without else, followed by B"""
        i = 0
        while i < len(stmts):
            st = stmts[i]
            if isinstance(st, ast.If) and st.orelse and st.body and isinstance(st.body[-1], (ast.Return, ast.Raise, ast.Continue, ast.Break)):
                rest, st.orelse = st.orelse, []
                stmts[i + 1:i + 1] = rest
                self.counts["else-after-exit"] = self.counts.get("else-after-exit", 0) + 1
            i += 1

    def visit_FunctionDef(self, node):
        self.generic_visit(node)
        changed = True
        while changed:
            before = self.counts.get("else-after-exit", 0)
            for n in ast.walk(node):
                for field in ("body", "orelse", "finalbody"):
                    b = getattr(n, field, None)
                    if isinstance(b, list) and b and isinstance(b[0], ast.stmt):
                        self._dedent_else(b)
            changed = self.counts.get("else-after-exit", 0) != before
        for n in ast.walk(node):
            for field in ("body", "orelse", "finalbody"):
                b = getattr(n, field, None)
                if isinstance(b, list) and b and isinstance(b[0], ast.stmt):
                    self._method_value_dispatch(b)
        tables = {}
        for n in ast.walk(node):
            for field in ("body", "orelse", "finalbody"):
                b = getattr(n, field, None)
                if isinstance(b, list) and b and isinstance(b[0], ast.stmt):
                    self._method_table_dispatch(b, tables)
        return node

    def visit_If(self, node):
        self.generic_visit(node)
        if node.orelse and isinstance(node.test, ast.UnaryOp) and isinstance(node.test.op, ast.Not):
            node.test, node.body, node.orelse = node.test.operand, node.orelse, node.body
            self.counts["if-not-else"] += 1
        return node

    def visit_Compare(self, node):
        self.generic_visit(node)
        if len(node.ops) != 1:
            return node
        op, l, r = node.ops[0], node.left, node.comparators[0]
        flip = None
        if isinstance(op, ast.Gt):
            flip = ast.Lt()
        elif isinstance(op, ast.GtE):
            flip = ast.LtE()
        elif isinstance(op, (ast.Eq, ast.NotEq)):
            lc, rc = isinstance(l, ast.Constant), isinstance(r, ast.Constant)
            if (lc and not rc) or (not lc and not rc and ast.unparse(l) > ast.unparse(r)):
                flip = type(op)()
        if flip is not None:
            node.left, node.ops, node.comparators = r, [flip], [l]
            self.counts["compare"] += 1
        return node

    def visit_Call(self, node):
        self.generic_visit(node)
        f = node.func
        if isinstance(f, ast.Name) and f.id == "range" and len(node.args) == 2 and not node.keywords and isinstance(node.args[0], ast.Constant) \
                and node.args[0].value == 0 and not isinstance(node.args[0].value, bool):
            node.args = [node.args[1]]
            self.counts["range0"] += 1
            return node
        cp = constructor_params(node, self.classes)
        if cp is not None:
            # objects are built with keyword arguments in canonical form (the rules read the fields of a construction by name)
            if node.args and not any(isinstance(a, ast.Starred) for a in node.args) and all(k.arg is not None for k in node.keywords) \
                    and len(node.args) <= len(cp) and not ({k.arg for k in node.keywords} & set(cp[:len(node.args)])):
                node.keywords = [ast.keyword(arg=p_, value=a) for p_, a in zip(cp, node.args)] + node.keywords
                node.args = []
                self.counts["constructors"] = self.counts.get("constructors", 0) + 1
            return node
        if node.keywords and all(k.arg is not None for k in node.keywords) and not any(isinstance(a, ast.Starred) for a in node.args):
            params = certain_callee_params(node, self.cls, self.classes, self.modfuncs, self.by_name)
            if params is not None:
                kw = {k.arg: k.value for k in node.keywords}
                n = len(node.args) + len(kw)
                if len(kw) == len(node.keywords) and n <= len(params) and set(params[len(node.args):n]) == set(kw):
                    node.args = list(node.args) + [kw[p] for p in params[len(node.args):n]]
                    node.keywords = []
                    self.counts["keywords"] += 1
        return node


def canonicalise(tree, classes, modfuncs=None):
    if modfuncs is None:
        names = [n.name for n in tree.body if isinstance(n, ast.FunctionDef)]
        modfuncs = {n.name: n for n in tree.body if isinstance(n, ast.FunctionDef) and names.count(n.name) == 1}
    c = Canon(classes, modfuncs)
    c.visit(tree)
    ast.fix_missing_locations(tree)
    return c.counts



# ------------------------------------------------------------------------------------------------------------------
# named tuples read as the tuples they are: `P = namedtuple("P", [...])`; `return P(a=x, b=y)`; `r = f(); r.b`  ->  `return (x, y)`; `r[1]`

def namedtuple_tables(mods):
    """(named tuple name -> field list, function name -> named tuple its every return builds) over the raw modules of src/"""
    nts = {}
    for mod in mods:
        for st in mod.body:
            if isinstance(st, ast.Assign) and len(st.targets) == 1 and isinstance(st.targets[0], ast.Name) and isinstance(st.value, ast.Call):
                f = st.value.func
                fname = f.id if isinstance(f, ast.Name) else (f.attr if isinstance(f, ast.Attribute) else None)
                if fname == "namedtuple" and len(st.value.args) >= 2:
                    fl = st.value.args[1]
                    fields = None
                    if isinstance(fl, (ast.List, ast.Tuple)) and all(isinstance(e, ast.Constant) and isinstance(e.value, str) for e in fl.elts):
                        fields = [e.value for e in fl.elts]
                    elif isinstance(fl, ast.Constant) and isinstance(fl.value, str):
                        fields = fl.value.replace(",", " ").split()
                    if fields:
                        nts[st.targets[0].id] = fields
            if isinstance(st, ast.ClassDef) and any((isinstance(b, ast.Name) and b.id == "NamedTuple") or (isinstance(b, ast.Attribute) and b.attr == "NamedTuple")
                                                    for b in st.bases):
                fields = [x.target.id for x in st.body if isinstance(x, ast.AnnAssign) and isinstance(x.target, ast.Name)]
                if fields:
                    nts[st.name] = fields
    defs = {}
    for mod in mods:
        for fn in [n for n in ast.walk(mod) if isinstance(n, ast.FunctionDef)]:
            defs.setdefault(fn.name, []).append(fn)
    returns = {}
    changed = True
    while changed and nts:
        changed = False
        for name, fns in defs.items():
            if len(fns) != 1 or name in returns:
                continue
            fn = fns[0]
            rets = [r.value for r in ast.walk(fn) if isinstance(r, ast.Return) and r.value is not None]
            if not rets:
                continue
            kinds = set()
            for r in rets:
                v = r
                if isinstance(v, ast.Name):
                    ds = [s_.value for s_ in ast.walk(fn) if isinstance(s_, ast.Assign) and any(isinstance(t, ast.Name) and t.id == v.id for t in s_.targets)]
                    v = ds[0] if len(ds) == 1 else None
                k = None
                if isinstance(v, ast.Call):
                    f = v.func
                    cn = f.id if isinstance(f, ast.Name) else (f.attr if isinstance(f, ast.Attribute) else None)
                    k = cn if cn in nts else returns.get(cn)
                kinds.add(k)
            if len(kinds) == 1 and None not in kinds:
                returns[name] = kinds.pop()
                changed = True
    # fields that name nothing else in src/: no attribute of that name is ever stored, no function / class / class-level name is called so, and
    # only one named tuple has it - `x.<field>` can then only be a read of that field, whatever `x` is
    class _NTs(dict):
        unique = {}
    nts2 = _NTs(nts)
    owners = {}
    for t_, fl in nts.items():
        for i_, f_ in enumerate(fl):
            owners.setdefault(f_, []).append((t_, i_))
    taken = set()
    for mod in mods:
        for n_ in ast.walk(mod):
            if isinstance(n_, ast.Attribute) and isinstance(n_.ctx, (ast.Store, ast.Del)):
                taken.add(n_.attr)
            elif isinstance(n_, (ast.FunctionDef, ast.ClassDef)):
                taken.add(n_.name)
            elif isinstance(n_, ast.ClassDef):
                pass
        for c_ in [x for x in ast.walk(mod) if isinstance(x, ast.ClassDef)]:
            for st_ in c_.body:
                if isinstance(st_, (ast.Assign, ast.AnnAssign)):
                    for tg in (st_.targets if isinstance(st_, ast.Assign) else [st_.target]):
                        if isinstance(tg, ast.Name) and not (c_.name in nts):
                            taken.add(tg.id)
    nts2.unique = {f_: o[0] for f_, o in owners.items() if len(o) == 1 and f_ not in taken and not f_.startswith("_")
                   and f_ not in ("count", "index", "real", "imag", "shape", "size", "values", "keys", "items", "name", "T")}
    return nts2, returns


def namedtuples_as_tuples(tree, nts, returns):
    """rewrite in place; -> number of rewritten nodes"""
    if not nts:
        return 0
    n = [0]
    uniq = getattr(nts, "unique", {})
    if uniq:
        class UField(ast.NodeTransformer):
            def visit_Attribute(self, a):
                self.generic_visit(a)
                if a.attr in uniq and isinstance(a.ctx, ast.Load) and isinstance(a.value, (ast.Name, ast.Subscript)) \
                        and not (isinstance(a.value, ast.Name) and a.value.id in ("self", "cls", "np")):
                    n[0] += 1
                    return ast.copy_location(ast.Subscript(value=a.value, slice=ast.Constant(value=uniq[a.attr][1]), ctx=ast.Load()), a)
                return a
        UField().visit(tree)

    class Build(ast.NodeTransformer):
        def visit_Call(self, c):
            self.generic_visit(c)
            if isinstance(c.func, ast.Name) and c.func.id in nts and len(c.args) == 1 and isinstance(c.args[0], ast.Starred) and not c.keywords:
                n[0] += 1
                return c.args[0].value          # T(*seq): the same values in the same positions
            if isinstance(c.func, ast.Name) and c.func.id in nts and not any(isinstance(a, ast.Starred) for a in c.args) and all(k.arg for k in c.keywords):
                fields = nts[c.func.id]
                vals = dict(zip(fields, c.args))
                vals.update({k.arg: k.value for k in c.keywords})
                if set(vals) == set(fields):
                    n[0] += 1
                    return ast.copy_location(ast.Tuple(elts=[vals[f] for f in fields], ctx=ast.Load()), c)
            return c

    # locals that hold a named tuple built on the spot (`x = T(...)`), recorded before the constructors become plain tuples
    direct = {}
    built_stmts = set()
    for fn in [x for x in ast.walk(tree) if isinstance(x, ast.FunctionDef)]:
        for st in ast.walk(fn):
            if isinstance(st, ast.Assign) and len(st.targets) == 1 and isinstance(st.targets[0], ast.Name) and isinstance(st.value, ast.Call) \
                    and isinstance(st.value.func, ast.Name) and st.value.func.id in nts:
                direct.setdefault(id(fn), {}).setdefault(st.targets[0].id, set()).add(st.value.func.id)
                built_stmts.add(id(st))
    Build().visit(tree)
    for fn in [x for x in ast.walk(tree) if isinstance(x, ast.FunctionDef)]:
        holds = {k: set(v) for k, v in direct.get(id(fn), {}).items()}
        built_here = set(holds)
        for st in ast.walk(fn):
            if isinstance(st, ast.Assign) and len(st.targets) == 1 and isinstance(st.targets[0], ast.Name) and isinstance(st.value, ast.Call):
                f = st.value.func
                cn = f.id if isinstance(f, ast.Name) else (f.attr if isinstance(f, ast.Attribute) else None)
                if cn in returns:
                    holds.setdefault(st.targets[0].id, set()).add(returns[cn])
        others = {}
        for st in ast.walk(fn):
            if isinstance(st, ast.Assign):
                for t in st.targets:
                    if isinstance(t, ast.Name) and t.id in holds and not (isinstance(st.value, ast.Call) and (
                            (st.value.func.id if isinstance(st.value.func, ast.Name) else getattr(st.value.func, "attr", None)) in returns)) \
                            and not (t.id in built_here and (isinstance(st.value, ast.Tuple) or id(st) in built_stmts)):
                        others[t.id] = True
        holds = {k: next(iter(v)) for k, v in holds.items() if len(v) == 1 and k not in others}
        if not holds:
            continue

        class Field(ast.NodeTransformer):
            def visit_Attribute(self, a):
                self.generic_visit(a)
                if isinstance(a.value, ast.Name) and a.value.id in holds and a.attr in nts[holds[a.value.id]] and isinstance(a.ctx, ast.Load):
                    n[0] += 1
                    return ast.copy_location(ast.Subscript(value=a.value, slice=ast.Constant(value=nts[holds[a.value.id]].index(a.attr)), ctx=ast.Load()), a)
                return a

        Field().visit(fn)
    if n[0]:
        ast.fix_missing_locations(tree)
    return n[0]



# ------------------------------------------------------------------------------------------------------------------
# named-tuple-valued parameters read by field: `def f(x, group): ... group.a ... group.b` called as `f(x, T(a=u, b=v))`
#   ->  `def f(x, group): a, b = group; ... a ... b`, `f(x, (u, v))`  (then flattened like any tuple parameter unpacked at entry)

def nt_param_table(mods, nts):
    """function name -> {parameter: named tuple} for functions with a repository-wide unique name that read the parameter only through the
    fields of one named tuple, every call handing a freshly built tuple of that kind over for it"""
    if not nts:
        return {}
    defs, calls = {}, {}
    for mod in mods:
        for f in [n for n in ast.walk(mod) if isinstance(n, ast.FunctionDef)]:
            defs.setdefault(f.name, []).append(f)
        for c in [n for n in ast.walk(mod) if isinstance(n, ast.Call)]:
            nm = c.func.attr if isinstance(c.func, ast.Attribute) else (c.func.id if isinstance(c.func, ast.Name) else None)
            if nm:
                calls.setdefault(nm, []).append(c)
    out = {}
    for name, fs in defs.items():
        if len(fs) != 1 or name.startswith("__") or name not in calls:
            continue
        fn = fs[0]
        a = fn.args
        if a.vararg or a.kwarg or a.kwonlyargs or a.posonlyargs or a.defaults:
            continue
        params = [x.arg for x in a.args]
        static = any(isinstance(d, ast.Name) and d.id == "staticmethod" for d in fn.decorator_list)
        bound_params = params[1:] if (params and params[0] in ("self", "cls") and not static) else params
        field_reads = {}
        for n in ast.walk(fn):
            if isinstance(n, ast.Attribute) and isinstance(n.value, ast.Name) and n.value.id in bound_params and isinstance(n.ctx, ast.Load):
                field_reads.setdefault(n.value.id, []).append(n.attr)
        found = {}
        for p_, fields in field_reads.items():
            n_uses = sum(1 for n in ast.walk(fn) if isinstance(n, ast.Name) and n.id == p_)
            kinds = [t for t, fl in nts.items() if set(fields) <= set(fl)]
            if n_uses != len(fields) or not kinds:
                continue
            ok, kind = True, None
            for c in calls[name]:
                if any(isinstance(x, ast.Starred) for x in c.args) or any(k.arg is None for k in c.keywords):
                    ok = False
                    break
                got = dict(zip(bound_params, c.args))
                got.update({k.arg: k.value for k in c.keywords})
                v = got.get(p_)
                if isinstance(v, ast.Name):
                    # a local of the caller that is only ever built as T(...)
                    host = next((f_ for m_ in mods for f_ in ast.walk(m_) if isinstance(f_, ast.FunctionDef) and any(x is c for x in ast.walk(f_))), None)
                    defs_ = [s_.value for s_ in ast.walk(host) if isinstance(s_, ast.Assign) and any(isinstance(t_, ast.Name) and t_.id == v.id for t_ in s_.targets)] if host else []
                    if defs_ and all(isinstance(d_, ast.Call) and isinstance(d_.func, ast.Name) and d_.func.id in kinds for d_ in defs_) \
                            and len({d_.func.id for d_ in defs_}) == 1:
                        v = defs_[0]
                if not (isinstance(v, ast.Call) and isinstance(v.func, ast.Name) and v.func.id in kinds and (kind is None or kind == v.func.id)):
                    ok = False
                    break
                kind = v.func.id
            if ok and kind:
                found[p_] = kind
        if found:
            out[name] = found
    return out


def unpack_nt_params(tree, nts, table):
    """rewrite in place (definitions: fields unpacked at entry, read as locals; calls: the constructor becomes a plain tuple); -> count"""
    if not table:
        return 0
    n = 0
    for fn in [x for x in ast.walk(tree) if isinstance(x, ast.FunctionDef) and x.name in table]:
        taken = {x.id for x in ast.walk(fn) if isinstance(x, ast.Name)} | {x.arg for x in fn.args.args}
        lead = []
        for p_, kind in table[fn.name].items():
            if p_ not in [x.arg for x in fn.args.args]:
                continue
            names = {f: (f if f not in taken else f"{p_}_{f}") for f in nts[kind]}
            taken |= set(names.values())

            class Read(ast.NodeTransformer):
                def visit_Attribute(self, a):
                    self.generic_visit(a)
                    if isinstance(a.value, ast.Name) and a.value.id == p_ and a.attr in names and isinstance(a.ctx, ast.Load):
                        return ast.copy_location(ast.Name(id=names[a.attr], ctx=ast.Load()), a)
                    return a

            fn.body = [Read().visit(s_) for s_ in fn.body]
            lead.append(ast.Assign(targets=[ast.Tuple(elts=[ast.Name(id=names[f], ctx=ast.Store()) for f in nts[kind]], ctx=ast.Store())],
                                   value=ast.Name(id=p_, ctx=ast.Load())))
            n += 1
        k = 1 if fn.body and isinstance(fn.body[0], ast.Expr) and isinstance(fn.body[0].value, ast.Constant) else 0
        for st in lead:
            ast.copy_location(st, fn.body[min(k, len(fn.body) - 1)])
        fn.body[k:k] = lead
    for c in [x for x in ast.walk(tree) if isinstance(x, ast.Call)]:
        nm = c.func.attr if isinstance(c.func, ast.Attribute) else (c.func.id if isinstance(c.func, ast.Name) else None)
        if nm not in table:
            continue

        def as_tuple(v):
            if isinstance(v, ast.Call) and isinstance(v.func, ast.Name) and v.func.id in nts and all(k.arg for k in v.keywords):
                fields = nts[v.func.id]
                vals = dict(zip(fields, v.args))
                vals.update({k.arg: k.value for k in v.keywords})
                if set(vals) == set(fields):
                    return ast.copy_location(ast.Tuple(elts=[vals[f] for f in fields], ctx=ast.Load()), v)
            return v

        c.args = [as_tuple(v) for v in c.args]
        for k in c.keywords:
            k.value = as_tuple(k.value)
    if n:
        ast.fix_missing_locations(tree)
    return n


# ------------------------------------------------------------------------------------------------------------------
# tuple-valued parameters unpacked at entry: `def f(x, pair): a, b = pair; ...` called as `f(x, (u, v))`  ->  `def f(x, a, b)`, `f(x, u, v)`

def tuple_param_table(mods):
    """function name -> {parameter: [names it is unpacked into]} for functions with a repository-wide unique name whose body starts by
    unpacking the parameter (used nowhere else) and whose every call hands a literal tuple of that length over for it"""
    defs, calls = {}, {}
    for mod in mods:
        for f in [n for n in ast.walk(mod) if isinstance(n, ast.FunctionDef)]:
            defs.setdefault(f.name, []).append(f)
        for c in [n for n in ast.walk(mod) if isinstance(n, ast.Call)]:
            nm = c.func.attr if isinstance(c.func, ast.Attribute) else (c.func.id if isinstance(c.func, ast.Name) else None)
            if nm:
                calls.setdefault(nm, []).append(c)
    out = {}
    for name, fs in defs.items():
        if len(fs) != 1 or name.startswith("__") or name not in calls:
            continue
        fn = fs[0]
        a = fn.args
        if a.vararg or a.kwarg or a.kwonlyargs or a.posonlyargs or a.defaults:
            continue
        params = [x.arg for x in a.args]
        body = [s_ for s_ in fn.body if not (isinstance(s_, ast.Expr) and isinstance(s_.value, ast.Constant))]
        found = {}
        for st in body:
            if isinstance(st, ast.Assign) and len(st.targets) == 1 and isinstance(st.targets[0], ast.Tuple) and isinstance(st.value, ast.Name) \
                    and st.value.id in params and all(isinstance(e, ast.Name) for e in st.targets[0].elts):
                uses = [n for n in ast.walk(fn) if isinstance(n, ast.Name) and n.id == st.value.id]
                if len(uses) == 1 and not ({e.id for e in st.targets[0].elts} & set(params)):
                    found[st.value.id] = [e.id for e in st.targets[0].elts]
            else:
                break          # only the leading statements
        if not found:
            continue
        static = any(isinstance(d, ast.Name) and d.id == "staticmethod" for d in fn.decorator_list)
        bound_params = params[1:] if (params and params[0] in ("self", "cls") and not static) else params
        ok = True
        for c in calls[name]:
            if any(isinstance(x, ast.Starred) for x in c.args) or any(k.arg is None for k in c.keywords):
                ok = False
                break
            got = dict(zip(bound_params, c.args))
            got.update({k.arg: k.value for k in c.keywords})
            for p_, names in found.items():
                v = got.get(p_)
                if not (isinstance(v, ast.Tuple) and len(v.elts) == len(names) and not any(isinstance(e, ast.Starred) for e in v.elts)):
                    ok = False
        if ok:
            out[name] = found
            out[("__params__", name)] = bound_params
    return out


def flatten_tuple_params(tree, table):
    """rewrite definitions and calls in place; -> number of flattened parameters"""
    if not table:
        return 0
    n = 0
    for fn in [x for x in ast.walk(tree) if isinstance(x, ast.FunctionDef) and x.name in table]:
        found = table[fn.name]
        new_args = []
        for x in fn.args.args:
            if x.arg in found:
                new_args += [ast.copy_location(ast.arg(arg=nm), x) for nm in found[x.arg]]
                n += 1
            else:
                new_args.append(x)
        fn.args.args = new_args
        fn.body = [s_ for s_ in fn.body if not (isinstance(s_, ast.Assign) and isinstance(s_.value, ast.Name) and s_.value.id in found
                                                 and isinstance(s_.targets[0], ast.Tuple))]
    defs_here = {}
    for c in [x for x in ast.walk(tree) if isinstance(x, ast.Call)]:
        nm = c.func.attr if isinstance(c.func, ast.Attribute) else (c.func.id if isinstance(c.func, ast.Name) else None)
        if nm in table:
            found = table[nm]
            c.keywords = [k2 for k in c.keywords for k2 in (
                [ast.keyword(arg=nm2, value=v2) for nm2, v2 in zip(found[k.arg], k.value.elts)] if k.arg in found and isinstance(k.value, ast.Tuple) else [k])]
            # positional tuples: their position is known from the definition's (old) parameter list, kept in `_old_params`
            old = table.get(("__params__", nm))
            if old:
                new_pos = []
                for p_, v in zip(old, c.args):
                    if p_ in found and isinstance(v, ast.Tuple):
                        new_pos += list(v.elts)
                    else:
                        new_pos.append(v)
                c.args = new_pos + list(c.args[len(old):])
    if n:
        ast.fix_missing_locations(tree)
    return n



# ------------------------------------------------------------------------------------------------------------------
# a method moved to another class with a delegating stub left under the old name:
#   class C: def m(self, a, b): return D.m2(a, b)      class D: @staticmethod def m2(a, b): <body>
# is read as if <body> still stood in C.m, and calls `<anything>.m2(...)` made inside C as `self.m(...)`

def stub_table(mods):
    """(class, method) -> (target class, target method name, target FunctionDef) over the raw modules of src/"""
    classes = {}
    for mod in mods:
        for c in [n for n in mod.body if isinstance(n, ast.ClassDef)]:
            classes.setdefault(c.name, []).append(c)
    modfuncs = {}
    for mod in mods:
        for f_ in [n for n in mod.body if isinstance(n, ast.FunctionDef)]:
            modfuncs.setdefault(f_.name, []).append(f_)
    out = {}
    for cname, cs in classes.items():
        if len(cs) != 1:
            continue
        for m in [x for x in cs[0].body if isinstance(x, ast.FunctionDef)]:
            body = [s_ for s_ in m.body if not (isinstance(s_, ast.Expr) and isinstance(s_.value, ast.Constant))]
            if len(body) != 1 or not isinstance(body[0], ast.Return) or not isinstance(body[0].value, ast.Call):
                continue
            call = body[0].value
            f = call.func
            if isinstance(f, ast.Name) and len(modfuncs.get(f.id, [])) == 1 and f.id not in classes:
                # ... or to a function of a module
                a = m.args
                tg_ = modfuncs[f.id][0]
                static_ = any(isinstance(d, ast.Name) and d.id == "staticmethod" for d in m.decorator_list)
                own_ = [x.arg for x in a.args][0 if static_ else 1:]
                ta_ = tg_.args
                if not (a.vararg or a.kwarg or a.kwonlyargs or a.posonlyargs or a.defaults or call.keywords or ta_.vararg or ta_.kwarg or ta_.kwonlyargs
                        or ta_.posonlyargs or ta_.defaults) and [x.id if isinstance(x, ast.Name) else None for x in call.args] == own_ and len(ta_.args) == len(own_):
                    out[(cname, m.name)] = (None, f.id, tg_)
                continue
            if not (isinstance(f, ast.Attribute) and isinstance(f.value, ast.Name) and f.value.id in classes and f.value.id != cname and len(classes[f.value.id]) == 1):
                continue
            a = m.args
            if a.vararg or a.kwarg or a.kwonlyargs or a.posonlyargs or a.defaults or call.keywords:
                continue
            static = any(isinstance(d, ast.Name) and d.id == "staticmethod" for d in m.decorator_list)
            own = [x.arg for x in a.args][0 if static else 1:]
            if [x.id if isinstance(x, ast.Name) else None for x in call.args] != own:
                continue
            tgt = [x for x in classes[f.value.id][0].body if isinstance(x, ast.FunctionDef) and x.name == f.attr]
            if len(tgt) != 1 or not any(isinstance(d, ast.Name) and d.id == "staticmethod" for d in tgt[0].decorator_list):
                continue
            ta = tgt[0].args
            if ta.vararg or ta.kwarg or ta.kwonlyargs or ta.posonlyargs or len(ta.args) != len(own):
                continue
            out[(cname, m.name)] = (f.value.id, f.attr, tgt[0])
    return out


def read_through_stubs(tree, table):
    """rewrite in place; -> number of stubs read through"""
    if not table:
        return 0
    import copy
    n = 0
    for c in [x for x in tree.body if isinstance(x, ast.ClassDef)]:
        mine = {m: v for (cn, m), v in table.items() if cn == c.name}
        if not mine:
            continue
        for m in [x for x in c.body if isinstance(x, ast.FunctionDef) and x.name in mine]:
            dcls, dname, tgt = mine[m.name]
            static = any(isinstance(d, ast.Name) and d.id == "staticmethod" for d in m.decorator_list)
            own = [x.arg for x in m.args.args][0 if static else 1:]
            ren = {t.arg: o for t, o in zip(tgt.args.args, own) if t.arg != o}
            body = [copy.deepcopy(s_) for s_ in tgt.body if not (isinstance(s_, ast.Expr) and isinstance(s_.value, ast.Constant))]
            if ren:
                for s_ in body:
                    for x in ast.walk(s_):
                        if isinstance(x, ast.Name) and x.id in ren:
                            x.id = ren[x.id]
            doc = [s_ for s_ in m.body if isinstance(s_, ast.Expr) and isinstance(s_.value, ast.Constant)][:1]
            m.body = doc + body
            n += 1
        targets = {v[1]: m for m, v in mine.items() if v[0] is not None}
        fn_targets = {v[1]: m for m, v in mine.items() if v[0] is None}
        for fn in [x for x in c.body if isinstance(x, ast.FunctionDef) and x.name not in mine]:
            for call in [x for x in ast.walk(fn) if isinstance(x, ast.Call)]:
                f = call.func
                if isinstance(f, ast.Attribute) and f.attr in targets and not (isinstance(f.value, ast.Name) and f.value.id == "self"):
                    call.func = ast.copy_location(ast.Attribute(value=ast.Name(id="self", ctx=ast.Load()), attr=targets[f.attr], ctx=ast.Load()), f)
                elif isinstance(f, ast.Name) and f.id in fn_targets:
                    call.func = ast.copy_location(ast.Attribute(value=ast.Name(id="self", ctx=ast.Load()), attr=fn_targets[f.id], ctx=ast.Load()), f)
    if n:
        ast.fix_missing_locations(tree)
    return n
