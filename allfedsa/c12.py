"""C12 — more supply never feeds fewer people, and scale does not matter.

C12.SCALE (D for the LP): every constraint template of the human-maximising programme is
homogeneous of degree 1 in (supplies, population) under the degree table below, so x -> t*x maps
feasible points to feasible points with the same consumed_kcals; the optimum is scale invariant.
C12.SIGN (N): supplies occur only on relaxing sides / as sources of ledgers with a free stock or
use variable of opposite sign; charges only as the constant of the feed/biofuel equalities."""
from __future__ import annotations

from .core import AnalysisError
from .lpdb import OPT, build_all, ranges
from .symx import Cmp
from .rat import Rat, V, K, rat_sign, Poly

# ---- degree table: 1 = scales with the country (supply, stock, area, population), 0 = intensive
DEG1_CONST = {"BILLION_KCALS_NEEDED", "POP", "meat_summed_consumption", "INITIAL_SEAWEED",
              "INITIAL_BUILT_SEAWEED_AREA"}
DEG0_CONST = {"SEAWEED_KCALS", "KCALS_MONTHLY", "MAXIMUM_DENSITY", "MINIMUM_DENSITY", "HARVEST_LOSS",
              "OG_FRACTION_FAT", "OG_FRACTION_PROTEIN", "OG_ROTATION_FRACTION_FAT", "OG_ROTATION_FRACTION_PROTEIN",
              "INITIAL_HARVEST_DURATION_IN_MONTHS"}
DEG0_TC = {"growth_rates_monthly"}
DEG0_VARS = {"consumed_kcals", "consumed_fat", "consumed_protein"}


def degree(atom, opt_type):
    if isinstance(atom, V):
        fam = atom.family
        if isinstance(fam, tuple):
            return 1
        if fam in DEG0_VARS:
            return 0
        if fam == "objective_function":
            return 0 if opt_type == "to_humans" else 1
        return 1
    if isinstance(atom, K):
        p = atom.path
        up = ".".join(p).upper()
        if p[0] == "tc":
            return 0 if p[1] in DEG0_TC else 1
        if p[0] == "consts":
            name = p[1]
            if name == "stored_food":
                return 1
            if name == "inputs":
                if "PERCENT" in up:
                    return 0
                raise AnalysisError("no degree declared for " + ".".join(p))
            if "WASTE" in up:
                return 0
            if name in DEG1_CONST:
                return 1
            if name in DEG0_CONST or name == "DELAY":
                return 0
        raise AnalysisError("vocabulary drift: no scaling degree declared for constant " + ".".join(p))
    if isinstance(atom, tuple) and atom and (atom[0] == "value" or atom[:2] == ("call", "model.objective.value")):
        return 0  # objective value of a previous solve: a percentage in the human round
    raise AnalysisError(f"no scaling degree for atom {atom!r}")


def poly_degrees(p, opt_type):
    ds = set()
    for mono in p.t:
        ds.add(sum(degree(a, opt_type) * e for a, e in mono))
    return ds


def homogeneous(expr, opt_type):
    dn = poly_degrees(expr.n, opt_type)
    dd = poly_degrees(expr.d, opt_type)
    return len(dn) <= 1 and len(dd) <= 1, (sorted(dn), sorted(dd))


def supply_atoms(expr):
    return {a for a in expr.atoms() if isinstance(a, K) and a.path[0] == "tc"
            or isinstance(a, K) and a.path[:2] in (("consts", "stored_food"), ("consts", "meat_summed_consumption"))}
    # INITIAL_SEAWEED / INITIAL_BUILT_SEAWEED_AREA are deliberately NOT supplies here: they are the floors of the seaweed
    # state variables ("stays between its starting level and the density limit", C01) and are not among the supplies
    # C12 enumerates.


CHARGE = {("tc", "feed"), ("tc", "biofuel")}
PINNED = ("tc", "min_human_food_consumption")


POPULATION_DEPENDENT_CONVERSIONS = ("in_units_percent_fed", "in_units_billions_fed", "in_units_kcals_equivalent", "in_units_kcals_grams_grams_per_person",
                                    "in_units_kcals_grams_grams_per_person_from_ratio", "in_units")


def reads_only_inputs(index, rep):
    """scale clause, who-may-read part: the programme is built from consts_for_optimizer / time_consts alone.  A coefficient obtained from the
    process-wide conversion settings (Food.conversions, a population-dependent in_units_* conversion) is the population of whichever run
    configured them last, not the population the programme is scaled with"""
    rule = "C12.SCALE"
    from .lpdb import OPT
    import ast as _ast
    cls = index.cls(OPT, "Optimizer")
    bad = []
    for n in _ast.walk(cls):
        if isinstance(n, _ast.Attribute) and n.attr == "conversions":
            bad.append((n, "reads .conversions"))
        if isinstance(n, _ast.Call) and isinstance(n.func, _ast.Attribute) and n.func.attr in POPULATION_DEPENDENT_CONVERSIONS:
            bad.append((n, f"calls {n.func.attr}()"))
    from .core import loc as _loc
    rep.check(not bad, rule, "optimizer:coefficients-from-its-inputs-only",
              "the LP builder takes a number from the process-wide unit-conversion settings (" + "; ".join(sorted({w for _, w in bad})) +
              "): that is the population of the run that configured them last, not consts_for_optimizer's - scaling population and supplies together "
              "(or an earlier run in the same process) changes the result", loc=_loc(OPT, bad[0][0]) if bad else OPT)


def run(index, rep, db=None):
    rep.guard(reads_only_inputs, index, rep)
    db = db or rep.guard(build_all, index)
    if db is None:
        return None
    rep.note_analysed("optimizer_templates", len(db.templates))
    rep.guard(scale, db, rep)
    rep.guard(sign, db, rep)
    rep.guard(decisions_scale_free, db, rep)
    rep.guard(waste, db, rep)
    return db


def scale(db, rep):
    rule = "C12.SCALE"
    seen = set()
    for t in db.templates:
        if t.aborted or t.opt_type != "to_humans":
            continue
        for name, c in t.constraints:
            if not isinstance(c, Cmp):
                continue
            key = (t.entry, name, str(t.mc), str(c.expr))
            if key in seen:
                continue
            seen.add(key)
            ok, degs = homogeneous(c.expr, t.opt_type)
            rep.check(ok, rule, f"{t.entry}:{name}|months{t.mc}",
                      "constraint is not homogeneous in (supplies, population): scaling every supply and the population by "
                      f"the same factor changes it (term degrees {degs})", loc=OPT, detail=str(c)[:300])
    rep.require_min(rule, 60)


def decisions_scale_free(db, rep):
    """which constraints the to-humans programme contains must not depend on the absolute size of a degree-1 quantity: a test such
    as `POP < 1e7` on the way to a constraint makes a country's programme change when population and supplies are scaled together"""
    rule = "C12.SCALE"
    seen = set()
    n = 0
    for t in db.templates:
        if t.aborted or t.opt_type != "to_humans":
            continue
        for key, val in t.decisions.items():
            pe = t.interp.pred_exprs.get(key)
            if pe is None or key in seen:
                continue
            seen.add(key)
            if any(a in ("M", "N") for a in pe[0].atoms()):
                continue  # which month it is: structural, not a size
            n += 1
            ok, degs = homogeneous(pe[0], t.opt_type)
            rep.check(ok, rule, f"{t.entry}:decision `{key[:60]}`",
                      f"the to-humans programme is built differently depending on `{key}`, which compares quantities of different scaling degree "
                      f"{degs} (an absolute size threshold): scaling population and supplies by a common factor changes the programme", loc=OPT)
    rep.note_analysed("data_dependent_decisions_in_to_humans_templates", n)


def waste(db, rep):
    """more waste never feeds more people: in every to-humans constraint, written `expr <= 0` / `expr == 0` with the ledger's own
    orientation, the gross-up factor on what people eat is non-decreasing in each retail-waste percentage"""
    from .rat import rat_derivative, derivative_sign
    rule = "C12.WASTE"
    seen = set()
    n = 0
    for t in db.templates:
        if t.aborted or t.opt_type != "to_humans":
            continue
        for name, c in t.constraints:
            if not isinstance(c, Cmp):
                continue
            try:
                coeffs, const = c.expr.linear_in_vars()
            except Exception:
                continue
            # a balance against a supply reads  uses - supply <= 0 : each coefficient is taken per unit of supply (the constraint divided by
            # the supply's own coefficient), so that a waste factor written on the supply's side is seen on the eaten variable where it acts
            sup = sorted(supply_atoms(const), key=repr)
            factor = Rat.const(1)
            if len(sup) == 1:
                cs = _coeff_of_atom(const, sup[0])
                if cs is not None and not cs.is_zero() and rat_sign(cs, ranges) in ("+", "-"):
                    factor = Rat.const(-1) / cs
            for v, cv in coeffs.items():
                cv = cv * factor
                watoms = [a for a in cv.atoms() if isinstance(a, K) and "WASTE" in ".".join(a.path).upper()]
                for w in watoms:
                    key = (t.entry, name, v.family, ".".join(w.path), str(cv))
                    if key in seen:
                        continue
                    seen.add(key)
                    n += 1
                    # |coefficient| of the eaten variable must grow with the waste percentage: d|cv|/dw >= 0
                    sg = rat_sign(cv, ranges)
                    d = rat_derivative(cv, w)
                    sd = derivative_sign(cv, w, ranges)
                    ok = (sg == "+" and sd in ("+", "+0", "0")) or (sg == "-" and sd in ("-", "-0", "0"))
                    rep.check(ok, rule, f"{t.entry}:{name}|{v.family} x f({'.'.join(w.path)})",
                              f"the amount drawn from the supply per unit eaten ({cv}) does not grow with the waste percentage {'.'.join(w.path)}: "
                              "lowering waste would feed fewer people", loc=OPT, detail=f"d/dw = {d}")
    if n < 5:
        raise AnalysisError(f"C12.WASTE: only {n} waste-dependent coefficients found")
    rep.require_min(rule, 5)


def sign(db, rep):
    rule = "C12.SIGN"
    seen = set()
    for t in db.templates:
        if t.aborted or t.opt_type != "to_humans":
            continue
        for name, c in t.constraints:
            if not isinstance(c, Cmp):
                continue
            try:
                coeffs, const = c.expr.linear_in_vars()
            except Exception as e:
                raise AnalysisError(f"constraint not affine in LP variables: {name}: {e}")
            sup = supply_atoms(const)
            if not sup:
                continue
            key = (t.entry, name, str(t.mc), str(c.expr))
            if key in seen:
                continue
            seen.add(key)
            for s in sorted(sup, key=repr):
                # coefficient of the supply atom inside the constant part
                cs = _coeff_of_atom(const, s)
                sg = rat_sign(cs, ranges)
                base = s.path[:2]
                construct = f"{t.entry}:{name}|{'.'.join(s.path)}|months{t.mc}"
                if c.sense == "<=":
                    rep.check(sg in ("-", "-0"), rule, construct,
                              "a supply appears on the tightening side of an inequality (more supply would shrink the "
                              "feasible set)", loc=OPT, detail=f"{c}  coefficient sign {sg}")
                else:
                    if base in CHARGE:
                        # charge: feed_sum == charge ; all uses enter with the opposite sign
                        opp = [v for v, cv in coeffs.items() if _opp(rat_sign(cv, ranges), sg)]
                        rep.check(len(opp) == len(coeffs) and coeffs, rule, construct,
                                  "feed/biofuel charge must be the constant side of `sum of uses == charge`", loc=OPT,
                                  detail=str(c))
                        continue
                    # ledger/source equality: some non-negative LP variable with the opposite sign can absorb extra supply
                    opp = [v for v, cv in coeffs.items() if _opp(rat_sign(cv, ranges), sg)]
                    ok = bool(opp)
                    why = ("a supply enters an equality with no LP variable of opposite sign to absorb an increase "
                           "(extra supply would make the programme infeasible or be lost)")
                    if ok and t.entry.startswith("resource:"):
                        # stock-and-flow orientation: same-month uses/end stocks opposite to the source, the
                        # carried-in stock of the previous month on the source's side
                        for v, cv in coeffs.items():
                            rel = _rel_index(v.idx, s.idx)
                            sv = rat_sign(cv, ranges)
                            if rel == 0 and not _opp(sv, sg):
                                ok = False
                                why = (f"in this stock balance the same-month variable {v.family} has the same sign as the "
                                       "supply: supply is subtracted instead of added")
                            if rel == -1 and _opp(sv, sg):
                                ok = False
                                why = f"carried-in stock {v.family}[m-1] has the opposite sign to the month's supply"
                    rep.check(ok, rule, construct, why, loc=OPT, detail=str(c))
    # stock ledgers without a supply term (months after the first): what is drawn from the stock - eaten, fed, turned into biofuel -
    # stands with the end-of-month stock against the stock carried in; a use on the carried-in side would ADD to the stock
    for t in db.templates:
        if t.aborted or t.opt_type != "to_humans" or not t.entry.startswith("resource:"):
            continue
        for name, c in t.constraints:
            if not isinstance(c, Cmp) or c.sense != "==":
                continue
            coeffs, const = c.expr.linear_in_vars()
            ends = [v for v in coeffs if v.family.endswith("_end")]
            starts = [v for v in coeffs if v.family.endswith("_start")]
            if len(ends) + len(starts) < 2 or len(coeffs) < 3:
                continue
            # the stock after this month's uses: the `_end` variable with the later index (or the only one next to a `_start`)
            def off(v):
                return (v.idx.c if v.idx is not None and hasattr(v.idx, "c") else 0)
            end_now = max(ends, key=off) if ends else None
            carried = [v for v in ends if v is not end_now] + starts
            if end_now is None or not carried:
                continue
            s_end = rat_sign(coeffs[end_now], ranges)
            uses = [v for v in coeffs if v is not end_now and v not in carried]
            bad = [v.family for v in uses if _opp(rat_sign(coeffs[v], ranges), s_end) or rat_sign(coeffs[v], ranges) is None]
            bad_c = [v.family for v in carried if not _opp(rat_sign(coeffs[v], ranges), s_end)]
            k = ("ledger-uses", t.entry, name, str(t.mc))
            if k in seen or not uses:
                continue
            seen.add(k)
            rep.check(not bad and not bad_c, rule, f"{t.entry}:{name}|uses-draw-the-stock-down|months{t.mc}",
                      f"in this stock balance {bad or bad_c} stand on the wrong side: using more of the resource (for people, feed or biofuel) would leave "
                      "MORE in the stock, so a larger charge feeds more people", loc=OPT, detail=str(c))
    # every to_humans family enters consumed_kcals with a positive coefficient
    for t in [x for x in db.templates if x.entry == "add_total_human_consumption_to_model" and not x.aborted][:]:
        for name, c in t.constraints:
            if not isinstance(c, Cmp) or c.sense != "==":
                continue
            coeffs, const = c.expr.linear_in_vars()
            cons = [v for v in coeffs if v.family == "consumed_kcals"]
            if len(cons) != 1:
                raise AnalysisError("consumption equality without exactly one consumed_kcals variable")
            sc = rat_sign(coeffs[cons[0]], ranges)
            bad = [v.family for v, cv in coeffs.items() if v.family != "consumed_kcals" and not _opp(rat_sign(cv, ranges), sc)]
            k = ("sumsign", str(t.mc), tuple(sorted(v.family for v in coeffs)))
            if k in seen:
                continue
            seen.add(k)
            rep.check(not bad, rule, f"consumption-sum-signs|months{t.mc}|{len(coeffs)-1} foods",
                      f"foods {bad} do not add to consumed_kcals with a positive coefficient", loc=OPT)
    rep.require_min(rule, 20)


def _rel_index(vi, si):
    """offset of a variable's month index relative to the supply atom's (None if not comparable)"""
    from .rat import Idx
    if si is None:
        return 0
    if isinstance(vi, Idx) and isinstance(si, Idx) and vi.m == si.m and vi.n == si.n:
        return vi.c - si.c
    return None


def _opp(a, b):
    return (a in ("+",) and b in ("-",)) or (a in ("-",) and b in ("+",))


def _coeff_of_atom(r, atom):
    """coefficient Rat of `atom` (degree 1) in rational form r (atom not in the denominator)"""
    if atom in r.d.atoms():
        raise AnalysisError("supply atom in a denominator")
    p = Poly()
    for mono, c in r.n.t.items():
        d = dict(mono)
        if d.get(atom, 0) == 1:
            del d[atom]
            p.t[tuple(sorted(d.items(), key=lambda t: (type(t[0]).__name__, repr(t[0]))))] = c
        elif d.get(atom, 0) > 1:
            raise AnalysisError("supply atom with a power > 1")
    return Rat(p, r.d)


def describe(rep):
    rep.explanation = (
        "Static analysis of the constraint templates of the human-maximising LP (extracted from optimizer.py by abstract "
        "evaluation, all month classes / regimes / flag combinations). C12.SCALE: with LP quantities, supplies, stocks, "
        "areas, BILLION_KCALS_NEEDED and POP of degree 1 and percentages, waste, densities, growth and nutrient ratios of "
        "degree 0, every constraint is a homogeneous form, so multiplying population and every supply by t>0 maps the "
        "feasible set onto itself (x -> t x) leaving consumed_kcals and hence the optimum unchanged - decided for all "
        "inputs. C12.SIGN: every supply atom sits on the relaxing side of its inequality, or in a source equality that "
        "contains a non-negative LP variable of opposite sign; feed/biofuel charges are exactly the constant side of the "
        "use-sum equalities; every food adds to consumed_kcals positively. These are the premises of the free-disposal "
        "monotonicity argument; the conclusion for equality-ledger foods and for waste/charge perturbations is LP duality "
        "and is not re-proved here."
    )
    rep.assumptions = ["CBC solves the LP exactly (scale invariance ignores solver tolerances gapRel, 0.99995 floors)",
                       "waste percentages < 100"]
