"""E3 `flow` — positional (tuple-slot) provenance across functions, by def-use on the ast.

origin(fn, expr) answers "where does this value come from" as a set of terminal tokens:
  src:<function>            value returned by a designated source function
  param:<function>.<name>   a parameter of the outermost function asked about
  call:<dotted>             result of a call the engine does not follow
  expr:<text>               any other expression
Tuple returns are followed by POSITION (slot i of the callee's return tuple to slot i of the
unpacking target), never by name."""
from __future__ import annotations

import ast

from .core import AnalysisError, norm_src, walk_no_nested, dotted, str_const

MAX_DEPTH = 10


class Flow:
    def __init__(self, index, files, sources=()):
        self.index = index
        self.sources = set(sources)
        self.funcs = {}
        for rel in files:
            mod = index.module(rel)
            for n in ast.walk(mod):
                if isinstance(n, ast.FunctionDef):
                    self.funcs.setdefault(n.name, []).append((rel, n))

    def resolve(self, call):
        name = call.func.attr if isinstance(call.func, ast.Attribute) else (call.func.id if isinstance(call.func, ast.Name) else None)
        if name is None:
            return None, None
        cands = self.funcs.get(name, [])
        if len(cands) == 1:
            return name, cands[0][1]
        return name, None

    # ---------------------------------------------------------------- definitions of a name inside a function
    def defs(self, fn, name, before=None):
        out = []
        for st in walk_no_nested(fn):
            if before is not None and getattr(st, "lineno", 0) >= before:
                continue
            if isinstance(st, ast.Assign):
                for t in st.targets:
                    if isinstance(t, ast.Name) and t.id == name:
                        out.append(("whole", st.value, st))
                    elif isinstance(t, (ast.Tuple, ast.List)):
                        for i, e in enumerate(t.elts):
                            if isinstance(e, ast.Name) and e.id == name:
                                out.append((i, st.value, st))
            elif isinstance(st, ast.AugAssign) and isinstance(st.target, ast.Name) and st.target.id == name:
                out.append(("aug", st.value, st))
        return out

    def origin(self, fn, expr, depth=0, before=None, stack=()):
        if depth > MAX_DEPTH:
            return {"expr:<depth>"}
        if isinstance(expr, ast.Name):
            params = [a.arg for a in fn.args.args + fn.args.kwonlyargs]
            ds = self.defs(fn, expr.id, before)
            if not ds:
                if expr.id in params:
                    return {f"param:{fn.name}.{expr.id}"}
                return {f"expr:{expr.id}"}
            out = set()
            for slot, value, st in ds:
                if slot == "whole":
                    out |= self.origin(fn, value, depth + 1, st.lineno, stack)
                elif slot == "aug":
                    out |= self.origin(fn, value, depth + 1, st.lineno, stack) | {"aug"}
                else:
                    out |= self.slot_origin(fn, value, slot, depth + 1, st.lineno, stack)
            return out
        if isinstance(expr, ast.Call):
            return self.slot_origin(fn, expr, None, depth, before, stack)
        if isinstance(expr, ast.IfExp):
            return self.origin(fn, expr.body, depth + 1, before, stack) | self.origin(fn, expr.orelse, depth + 1, before, stack)
        if isinstance(expr, ast.Subscript) and isinstance(expr.slice, ast.Constant) and isinstance(expr.slice.value, int) \
                and not isinstance(expr.slice.value, bool) and expr.slice.value >= 0:
            # <tuple-valued expression>[k]: slot k of what the expression stands for (a call result kept whole, then indexed)
            return self.slot_origin(fn, expr.value, expr.slice.value, depth, before, stack)
        if isinstance(expr, ast.Subscript) and isinstance(expr.value, ast.Name) and str_const(expr.slice) is not None:
            # d["k"]: the latest store d["k"] = v in this function
            key = str_const(expr.slice)
            stores = [st for st in walk_no_nested(fn) if isinstance(st, ast.Assign) and any(
                isinstance(t, ast.Subscript) and isinstance(t.value, ast.Name) and t.value.id == expr.value.id
                and str_const(t.slice) == key for t in st.targets) and (before is None or st.lineno < before)]
            if stores:
                st = max(stores, key=lambda s: s.lineno)
                return self.origin(fn, st.value, depth + 1, st.lineno, stack)
        if isinstance(expr, ast.Attribute) and isinstance(expr.value, ast.Name):
            # x.attr: latest store x.attr = v in this function
            stores = [st for st in walk_no_nested(fn) if isinstance(st, ast.Assign) and any(
                isinstance(t, ast.Attribute) and norm_src(t) == norm_src(expr) for t in st.targets) and (before is None or st.lineno < before)]
            if stores:
                st = max(stores, key=lambda s: s.lineno)
                return self.origin(fn, st.value, depth + 1, st.lineno, stack)
        return {"expr:" + norm_src(expr)[:80]}

    def slot_origin(self, fn, value, slot, depth, before, stack):
        """origin of slot `slot` (None = whole value) of `value` evaluated in fn"""
        if isinstance(value, (ast.Tuple, ast.List)) and slot is not None:
            if slot < len(value.elts):
                return self.origin(fn, value.elts[slot], depth + 1, before, stack)
            return {"expr:<slot out of range>"}
        if isinstance(value, ast.Call):
            name, callee = self.resolve(value)
            if name in self.sources:
                return {f"src:{name}" + (f"[{slot}]" if slot is not None else "")}
            if callee is None or callee in stack:
                return {f"call:{dotted(value.func) or name}" + (f"[{slot}]" if slot is not None else "")}
            out = set()
            rets = [r for r in walk_no_nested(callee) if isinstance(r, ast.Return) and r.value is not None]
            if not rets:
                return {f"call:{name}:no-return"}
            for r in rets:
                if isinstance(r.value, ast.Constant) and r.value.value is None:
                    continue
                if slot is None:
                    sub = self.origin(callee, r.value, depth + 1, r.lineno, stack + (callee,))
                elif isinstance(r.value, (ast.Tuple, ast.List)):
                    if all(isinstance(e, ast.Constant) and e.value is None for e in r.value.elts):
                        continue  # the all-None "skip" tuple
                    if slot >= len(r.value.elts):
                        out.add("expr:<slot out of range>")
                        continue
                    sub = self.origin(callee, r.value.elts[slot], depth + 1, r.lineno, stack + (callee,))
                else:
                    # the callee returns a value it holds in a local / gets from another routine: slot k of that
                    sub = self.slot_origin(callee, r.value, slot, depth + 1, r.lineno, stack + (callee,))
                # parameters of the callee map back to the caller's arguments
                for tok in sub:
                    if tok.startswith(f"param:{callee.name}."):
                        pname = tok.split(".", 1)[1]
                        arg = self.bind(callee, value, pname)
                        if arg is not None:
                            out |= self.origin(fn, arg, depth + 1, before, stack)
                        else:
                            out.add(tok)
                    else:
                        out.add(tok)
            return out
        if slot is None:
            return self.origin(fn, value, depth + 1, before, stack)
        if isinstance(value, ast.Name):
            # slot of a local that holds a whole tuple: follow its definitions
            ds = self.defs(fn, value.id, before)
            if ds and all(sl == "whole" for sl, _, _ in ds):
                out = set()
                for _, v_, st in ds:
                    out |= self.slot_origin(fn, v_, slot, depth, st.lineno, stack)
                return out
        return {"expr:" + norm_src(value)[:60] + f"[{slot}]"}

    def bind(self, callee, call, pname):
        params = [a.arg for a in callee.args.args]
        if params and params[0] == "self":
            params = params[1:]
        for k in call.keywords:
            if k.arg == pname:
                return k.value
        if pname in params:
            i = params.index(pname)
            if i < len(call.args):
                return call.args[i]
        return None
