"""C01 — reported allocations never use food that does not exist.

Decides (N): the LP handed to the solver contains, for every month class x round x regime,
the stock-and-flow equalities, caps, bounds and terminal conditions that imply the physical
limits.  Solver feasibility is assumed (trusted base)."""
from __future__ import annotations

import ast

from .core import AnalysisError, loc, walk_no_nested, dotted, norm_src
from .lpdb import OPT, build_all, implied_eq, implied_ineq, equivalent_ineq
from .symx import Cmp, Abort
from .rat import Rat

WASTE_KEY = {
    "stored_food": "STORED_FOOD_WASTE_RETAIL",
    "crops": "CROP_WASTE_RETAIL",
    "meat": "MEAT_WASTE_RETAIL",
    "scp": "SCP_RETAIL_WASTE",
    "cs": "CELL_SUGAR_RETAIL_WASTE",
    "seaweed": "SEAWEED_WASTE_RETAIL",
}


def H(key):
    return f'(1 / (1 - consts["{WASTE_KEY[key]}"] / 100))'


def V_(f, off=0):
    if off == 0:
        return f'variables["{f}"][month]'
    return f'variables["{f}"][month{off:+d}]'


def is_first(t):
    return t.mc.lo == (0, 0) and t.mc.singleton()


def is_last(t):
    return t.mc.lo == (1, -1) and t.mc.singleton()


def flag(t, key):
    return t.decisions.get(key)


def tmpl(db, entry, opt=None):
    out = [t for t in db.templates if t.entry == entry and (opt is None or t.opt_type == opt)]
    return out


def extra_env(t):
    """the data-dependent tests a template's path took (beyond the plain option flags): part of what identifies the environment"""
    import re as _re
    ex = sorted((k, v) for k, v in t.decisions.items() if not _re.fullmatch(r"consts\.[A-Za-z_0-9]+", k))
    return "|" + ",".join(f"{k}={'T' if v else 'F'}" for k, v in ex) if ex else ""


def envname(t):
    d = ",".join(f"{k.replace('consts.', '')}={'T' if v else 'F'}" for k, v in sorted(t.decisions.items())
                 if "ADD_" not in k)
    return f"{t.opt_type}|months{t.mc}|{d}"


def lp_language_traps(index, rep):
    """rows of the programme are written with overloaded comparisons: a chained comparison `a <= x <= b` (Python: `(a <= x) and (x <= b)`) or
    `and` / `or` / `not` over comparisons of LP expressions cannot be overloaded - only the last comparison becomes a row, the others vanish"""
    rule = "C01.ORDER"
    cls = index.cls(OPT, "Optimizer")
    n = 0
    for fn in [m for m in cls.body if isinstance(m, ast.FunctionDef)]:
        lp_names = {"variables"}
        for _ in range(3):
            for st in walk_no_nested(fn):
                if isinstance(st, ast.Assign) and any(isinstance(x, ast.Name) and x.id in lp_names for x in ast.walk(st.value)):
                    for t in st.targets:
                        for x in ast.walk(t):
                            if isinstance(x, ast.Name):
                                lp_names.add(x.id)

        def lp_valued(e):
            return any(isinstance(x, ast.Name) and x.id in lp_names for x in ast.walk(e))

        for node in walk_no_nested(fn):
            bad = None
            if isinstance(node, ast.Compare) and len(node.ops) > 1 and all(isinstance(o, (ast.Lt, ast.LtE, ast.Gt, ast.GtE, ast.Eq)) for o in node.ops) \
                    and lp_valued(node) and not isinstance(getattr(node, "_parent", None), (ast.If, ast.Assert, ast.While, ast.IfExp)):
                bad = "a chained comparison"
            if isinstance(node, ast.BoolOp) and any(isinstance(v, ast.Compare) and lp_valued(v) and all(
                    isinstance(o, (ast.Lt, ast.LtE, ast.Gt, ast.GtE)) for o in v.ops) for v in node.values) \
                    and not isinstance(getattr(node, "_parent", None), (ast.If, ast.Assert, ast.While, ast.IfExp)) and any(
                        isinstance(x, ast.Subscript) and isinstance(x.value, ast.Name) and x.value.id == "variables" for x in ast.walk(node)):
                bad = "`and`/`or`"
            if bad:
                n += 1
                rep.violation(rule, f"lp-row-built-with-{'chain' if 'chained' in bad else 'boolean'}:{fn.name}:{norm_src(node)[:60]}",
                              f"{bad} over LP expressions builds one row only (Python evaluates it with `and`, which PuLP cannot overload): the other "
                              "bound silently disappears from the programme", loc=loc(OPT, node))
    if n == 0:
        rep.ok(rule, "no LP row is written as a chained comparison or a boolean combination of comparisons")


def run(index, rep, db=None):
    rep.guard(lp_language_traps, index, rep)
    db = db or rep.guard(build_all, index)
    if db is None:
        return None
    rep.note_analysed("optimizer_templates", len(db.templates))
    rep.note_analysed("abstract_environments", db.n_envs)
    rep.note_analysed("resources", {k: v["function"] for k, v in db.resources.items()})
    rep.guard(sf, db, rep)
    rep.guard(crop, db, rep)
    rep.guard(meat, db, rep)
    rep.guard(scp_cs, db, rep)
    rep.guard(seaweed, db, rep)
    rep.guard(nonneg, index, db, rep)
    rep.guard(term, db, rep)
    rep.guard(feed_biofuel, db, rep)
    rep.guard(order, index, db, rep)
    rep.guard(waste_provenance, index, rep)
    return db


# ---------------------------------------------------------------------------------------


def sf(db, rep):
    rule = "C01.SF"
    ts = [t for t in tmpl(db, "resource:ADD_STORED_FOOD") if not t.aborted]
    if not ts:
        raise AnalysisError("no stored-food templates extracted")
    for t in ts:
        store = flag(t, "consts.STORE_FOOD_BETWEEN_YEARS")
        form, fam, resid = stock_chain(db, t, "ADD_STORED_FOOD", 'consts["stored_food"].initial_available.kcals',
                                       [(H("stored_food"), "stored_food_to_humans"), ("1", "stored_food_feed"), ("1", "stored_food_biofuel")])
        ok = form is not None
        ledger = f"{fam}: {form}-of-month stock"
        construct = f"Optimizer.add_stored_food_to_model[{envname(t)}]"
        if ok:
            rep.ok(rule, construct, detail=f"ledger in span: {ledger} == 0")
            continue
        # alternative discharge: all three uses pinned to zero (nothing can be drawn this month)
        pins = all(
            implied_eq(t, db.spec(t, V_(f)))[0]
            for f in ("stored_food_to_humans", "stored_food_feed", "stored_food_biofuel")
        )
        if pins and not is_first(t) and store is False:
            rep.ok(rule, construct, detail="no use possible: the three use variables are pinned to 0")
        else:
            rep.violation(
                rule, construct,
                "the stored-food stock balance end[m] = end[m-1] - humans[m]/(1-retail waste) - feed[m] - biofuel[m] "
                "(month 0: from the initial stock) is not implied by the constraints of this month class",
                loc=OPT, detail=resid,
            )
    rep.require_min(rule, 14)


def crop(db, rep):
    rule = "C01.CROP"
    ts = [t for t in tmpl(db, "resource:ADD_OUTDOOR_GROWING") if not t.aborted]
    seen = set()
    for t in ts:
        prev = "0" if is_first(t) else V_("crops_food_storage", -1)
        ledger = db.spec(
            t,
            f'{V_("crops_food_storage")} - ({prev}) - tc["outdoor_crops"].production.kcals[month]'
            f' + {H("crops")} * {V_("crops_food_to_humans")} + {V_("crops_food_feed")} + {V_("crops_food_biofuel")}',
        )
        ok, resid = implied_eq(t, ledger)
        key = (t.opt_type, str(t.mc), ok)
        construct = f"Optimizer.add_outdoor_crops_to_model[{t.opt_type}|months{t.mc}]"
        if key in seen:
            continue
        seen.add(key)
        if ok:
            rep.ok(rule, construct, detail=f"ledger in span: {ledger} == 0")
        else:
            rep.violation(
                rule, construct,
                "the crop stock balance storage[m] = storage[m-1] + production[m] - humans[m]/(1-retail waste) - feed[m] "
                "- biofuel[m] is not implied by the constraints of this month class",
                loc=OPT, detail=f"environment {envname(t)}; residual: {resid}",
            )
    rep.require_min(rule, 6)


def stock_chain(db, t, flagname, total, uses):
    """how the template's rows keep a stock that is only drawn down: (form, family, residual).  `end`: a family S with
    S[m] == S[m-1] - taken[m] (month 0: from the initial total) - S[m] >= 0 bounds the cumulative use of months 0..m.  `start`: a family S
    with S[0] == total, S[m] == S[m-1] - taken[m-1] - S[m] >= 0 bounds the use of months 0..m-1 only, so a class that contains the last
    month also needs taken[m] <= S[m].  The stock family is found among the resource's own families, whatever they are called.
    `uses`: (factor text, family) pairs of what leaves the stock"""
    used_fams = {f for _, f in uses}
    fams = [f for f in db.resources[flagname]["families"] if f not in used_fams]
    taken = " + ".join(f'{k} * {V_(f)}' for k, f in uses)
    taken_prev = " + ".join(f'{k} * {V_(f, -1)}' for k, f in uses)
    first_resid = None
    for fam in fams:
        prev = total if is_first(t) else V_(fam, -1)
        ok, resid = implied_eq(t, db.spec(t, f'{V_(fam)} - ({prev}) + {taken}'))
        if ok:
            return "end", fam, None
        first_resid = first_resid if first_resid is not None else resid
    for fam in fams:
        if is_first(t):
            e = f'{V_(fam)} - {total}'
        else:
            e = f'{V_(fam)} - {V_(fam, -1)} + {taken_prev}'
        ok, _ = implied_eq(t, db.spec(t, e))
        if ok:
            if t.mc.hi == (1, -1) and not implied_ineq(t, db.spec(t, f'{taken} - {V_(fam)}')):
                return None, fam, (f"{fam}[m] is the stock at the START of month m: its bound covers what was taken in the months before m only, "
                                   "and nothing bounds what is taken in the last month by what is left")
            return "start", fam, None
    return None, None, f"residual after elimination: {first_resid}"


def meat_chain(db, t):
    return stock_chain(db, t, "ADD_MEAT", 'consts["meat_summed_consumption"]', [(H("meat"), "meat_eaten")])


def meat(db, rep):
    ts = [t for t in tmpl(db, "resource:ADD_MEAT") if not t.aborted]
    for t in ts:
        store = flag(t, "consts.STORE_FOOD_BETWEEN_YEARS")
        env = f"{t.opt_type}|months{t.mc}|STORE={'T' if store else 'F'}"
        if store:
            form, fam, why = meat_chain(db, t)
            rep.check(
                form is not None, "C01.MEAT", f"Optimizer.add_meat_to_model[ledger|{env}]",
                "the meat stock balance stock[m] = stock[m-1] - eaten[m]/(1-retail waste) (month 0: from the total "
                "slaughtered), with every month's use drawn from a non-negative stock, is not implied", loc=OPT, detail=why,
            )
            if form is None:
                continue
            # cumulative cap: total slaughtered - stock after month m (= cumulative gross eaten) <= running slaughter total[m]
            used = f'consts["meat_summed_consumption"] - {V_(fam)}' + ("" if form == "end" else f' + {H("meat")} * {V_("meat_eaten")}')
            cap = db.spec(t, f'{used} - tc["max_consumed_culled_kcals_each_month"][month]')
            got = implied_ineq(t, cap)
            if got:
                rep.ok("C01.MEATCUM", f"Optimizer.add_meat_to_model[cumulative-cap|{t.opt_type}|months{t.mc}]",
                       detail=f"implied by {got[0]}")
            elif is_first(t):
                # month 0: cumulative == monthly, the per-month cap is the cumulative cap
                cap0 = db.spec(t, f'{H("meat")} * {V_("meat_eaten")} - tc["max_consumed_culled_kcals_each_month"][month]')
                g0 = implied_ineq(t, cap0)
                rep.check(bool(g0), "C01.MEATCUM",
                          f"Optimizer.add_meat_to_model[cumulative-cap|{t.opt_type}|months{t.mc}]",
                          "month 0: eaten/(1-waste) <= slaughtered so far is not implied", loc=OPT)
            else:
                rep.violation(
                    "C01.MEATCUM", "Optimizer.add_meat_to_model[cumulative-cap|months>=1]",
                    "no constraint bounds CUMULATIVE meat eaten by the running slaughter total: only "
                    "eaten[m]/(1-waste) <= running_total[m] per month and the horizon total; e.g. slaughter (4,0,6) "
                    "admits eaten (4,4,2), 8 eaten by month 1 with 4 slaughtered", loc=OPT,
                    detail=f"environment {env}",
                )
        else:
            cap = db.spec(t, f'{H("meat")} * {V_("meat_eaten")} - tc["each_month_meat_slaughtered"][month].kcals')
            got = implied_ineq(t, cap)
            rep.check(
                bool(got), "C01.MEAT", f"Optimizer.add_meat_to_model_no_storage[{env}]",
                "no-storage regime: eaten[m]/(1-retail waste) <= slaughtered[m] is not implied", loc=OPT,
            )
    rep.require_min("C01.MEAT", 6)


def meat_supply_read(db, rep, rule):
    """what the LP takes as the meat made available (used by C05): with storage the stock starts from the horizon total handed over
    (meat_summed_consumption) and is drawn down by what is eaten; without storage month m is bounded by the slaughter of month m"""
    n = 0
    for t in [t for t in tmpl(db, "resource:ADD_MEAT") if not t.aborted]:
        store = flag(t, "consts.STORE_FOOD_BETWEEN_YEARS")
        env = f"{t.opt_type}|months{t.mc}|STORE={'T' if store else 'F'}"
        n += 1
        if store:
            form, fam, why = meat_chain(db, t)
            rep.check(form is not None, rule, f"LP meat stock[{env}]",
                      "the LP's meat stock is not (total slaughtered over the horizon) minus what was eaten so far, in every month", loc=OPT, detail=why)
        else:
            got = implied_ineq(t, db.spec(t, f'{H("meat")} * {V_("meat_eaten")} - tc["each_month_meat_slaughtered"][month].kcals'))
            rep.check(bool(got), rule, f"LP meat of the month[{env}]",
                      "without storage the meat the LP may use in month m is not bounded by the meat slaughtered in month m", loc=OPT)
    rep.require_min(rule, 6)


def scp_cs(db, rep):
    for flagname, fam, wkey, tcname, rule in (
        ("ADD_METHANE_SCP", "methane_scp", "scp", "methane_scp", "C01.SCP"),
        ("ADD_CELLULOSIC_SUGAR", "cellulosic_sugar", "cs", "cellulosic_sugar", "C01.CS"),
    ):
        ts = [t for t in tmpl(db, "resource:" + flagname) if not t.aborted]
        seen = set()
        for t in ts:
            cap = db.spec(
                t,
                f'{H(wkey)} * {V_(fam + "_to_humans")} + {V_(fam + "_feed")} + {V_(fam + "_biofuel")}'
                f' - tc["{tcname}"].kcals[month]',
            )
            got = equivalent_ineq(t, cap)
            k = (t.opt_type, str(t.mc), extra_env(t), bool(got))
            if k in seen:
                continue
            seen.add(k)
            rep.check(
                bool(got), rule, f"Optimizer.{db.resources[flagname]['function']}[{t.opt_type}|months{t.mc}{extra_env(t)}]",
                f"monthly use humans/(1-{WASTE_KEY[wkey]}/100) + feed + biofuel <= that month's output is not "
                "among the constraints (wrong waste key, month index, sense or term)", loc=OPT,
                detail=f"required: {cap} <= 0; found: {[str(c) for _, c in t.constraints if isinstance(c, Cmp) and c.sense == '<='][:3]}",
            )
        rep.require_min(rule, 2)


def seaweed(db, rep):
    rule = "C01.SW"
    ts = [t for t in tmpl(db, "resource:ADD_SEAWEED") if not t.aborted]
    seen = set()
    for t in ts:
        k = (t.opt_type, str(t.mc), extra_env(t))
        if k in seen:
            continue
        seen.add(k)
        env = f"{t.opt_type}|months{t.mc}{extra_env(t)}"
        bounds = {
            "wet>=initial": f'consts["INITIAL_SEAWEED"] - {V_("seaweed_wet_on_farm")}',
            "wet<=density*built": f'{V_("seaweed_wet_on_farm")} - consts["MAXIMUM_DENSITY"] * tc["built_area"][month]',
            "area>=initial": f'consts["INITIAL_BUILT_SEAWEED_AREA"] - {V_("used_area")}',
            "area<=built": f'{V_("used_area")} - tc["built_area"][month]',
        }
        for nm, text in bounds.items():
            got = equivalent_ineq(t, db.spec(t, text))
            rep.check(bool(got), rule, f"Optimizer.add_seaweed_to_model[{nm}|{env}]",
                      f"seaweed bound {nm} missing or altered", loc=OPT)
        if is_first(t):
            pins = {
                "wet[0]=initial": f'{V_("seaweed_wet_on_farm")} - consts["INITIAL_SEAWEED"]',
                "area[0]=initial": f'{V_("used_area")} - consts["INITIAL_BUILT_SEAWEED_AREA"]',
                "humans[0]=0": V_("seaweed_to_humans"),
                "feed[0]=0": V_("seaweed_feed"),
                "biofuel[0]=0": V_("seaweed_biofuel"),
            }
            for nm, text in pins.items():
                ok, _ = implied_eq(t, db.spec(t, text))
                rep.check(ok, rule, f"Optimizer.add_seaweed_to_model[{nm}|{env}]",
                          f"month-0 seaweed pin {nm} is not implied", loc=OPT)
        else:
            # growth-and-harvest ledger.  The factor F that multiplies last month's biomass is read off the template; it must
            # depend on nothing but this month's supplied growth value (that F is the right function of the daily growth is
            # C08.GROWTH).  Obligation: wet[m] = F*wet[m-1] - humans/(1-waste) - feed - biofuel - (area[m]-area[m-1])*rho_min*loss/100
            eqs = [c for _, c in t.constraints if isinstance(c, Cmp) and c.sense == "==" and any(
                v.family == "seaweed_wet_on_farm" for v in c.expr.vars())]
            F = None
            if len(eqs) == 1:
                co, _ = eqs[0].expr.linear_in_vars()
                wets = sorted([v for v in co if v.family == "seaweed_wet_on_farm"], key=lambda v: (v.idx.m, v.idx.n, v.idx.c))
                if len(wets) == 2:
                    F = (Rat.const(0) - co[wets[0]]) / co[wets[1]]
            this_month = set(db.spec(t, 'tc["growth_rates_monthly"][month]').atoms())
            okF = F is not None and not F.vars() and all(
                getattr(a, "path", None) == ("tc", "growth_rates_monthly", "[]") and a in this_month for a in F.atoms())
            rep.check(okF, rule, f"Optimizer.add_seaweed_to_model[growth-factor|{env}]",
                      "the factor multiplying last month's seaweed biomass is not a function of this month's supplied growth value only",
                      loc=OPT, detail=str(F))
            if okF:
                ledger = db.spec(
                    t,
                    f'{V_("seaweed_wet_on_farm")} - {V_("seaweed_wet_on_farm", -1)} * FACTOR'
                    f' + {H("seaweed")} * {V_("seaweed_to_humans")} + {V_("seaweed_feed")} + {V_("seaweed_biofuel")}'
                    f' + ({V_("used_area")} - {V_("used_area", -1)}) * consts["MINIMUM_DENSITY"] * consts["HARVEST_LOSS"] / 100',
                    extra={"FACTOR": F},
                )
                ok, resid = implied_eq(t, ledger)
                rep.check(ok, rule, f"Optimizer.add_seaweed_to_model[ledger|{env}]",
                          "seaweed growth-and-harvest ledger is not implied", loc=OPT, detail=f"residual: {resid}")
    rep.require_min(rule, 14)


def nonneg(index, db, rep):
    rule = "C01.NONNEG"
    mod = index.module(OPT)
    n = 0
    for node in ast.walk(mod):
        if isinstance(node, ast.Call) and dotted(node.func) in ("LpVariable", "pulp.LpVariable"):
            n += 1
            low = None
            for k in node.keywords:
                if k.arg == "lowBound":
                    low = k.value
            if low is None and len(node.args) > 1:
                low = node.args[1]
            fn = _enclosing(node)
            ok = isinstance(low, ast.Constant) and low.value == 0 and not isinstance(low.value, bool)
            rep.check(ok, rule, f"LpVariable@{fn}:{_name_text(node)}",
                      "decision variable created without lowBound=0 (a quantity could go negative)",
                      loc=loc(OPT, node))
    rep.require_min(rule, 10)
    # every family read by a resource function belongs to that resource's prefix list
    for flagname, row in db.resources.items():
        ts = [t for t in tmpl(db, "resource:" + flagname) if not t.aborted]
        used = set()
        for t in ts:
            for _, c in t.constraints:
                if isinstance(c, Cmp):
                    used |= {v.family for v in c.expr.vars()}
        extra = used - set(row["families"])
        rep.check(not extra, "C01.FAMILIES", f"resource_constants[{flagname}]",
                  f"function {row['function']} constrains families {sorted(extra)} that its prefix list does not create "
                  "(they would stay the placeholder 0)", loc=OPT)
    # creation path: add_variable_from_prefixes -> create_lp_variables stores into variables[prefix.lower()][month]
    fn = index.func(OPT, "Optimizer.add_variable_from_prefixes")
    stores = [s for s in walk_no_nested(fn) if isinstance(s, ast.Assign) and isinstance(s.targets[0], ast.Subscript)]
    rep.check(len(stores) == 1 and "lower()" in ast.unparse(stores[0].targets[0]), "C01.FAMILIES",
              "Optimizer.add_variable_from_prefixes", "variables are no longer stored under prefix.lower()[month]",
              loc=loc(OPT, fn))


def _enclosing(node):
    n = node
    while n is not None and not isinstance(n, ast.FunctionDef):
        n = getattr(n, "_parent", None)
    return n.name if n is not None else "<module>"


def _name_text(call):
    for k in call.keywords:
        if k.arg == "name":
            return norm_src(k.value)
    if call.args:
        return norm_src(call.args[0])
    return "?"


def term(db, rep):
    rule = "C01.TERM"
    for entry, fam, what in (
        ("resource:ADD_STORED_FOOD", "stored_food_end", "stored food"),
        ("resource:ADD_OUTDOOR_GROWING", "crops_food_storage", "crop storage"),
    ):
        ts = [t for t in tmpl(db, entry, "to_humans") if not t.aborted and is_last(t)]
        if not ts:
            raise AnalysisError(f"no last-month template for {entry}")
        seen = set()
        for t in ts:
            store = flag(t, "consts.STORE_FOOD_BETWEEN_YEARS")
            if entry == "resource:ADD_OUTDOOR_GROWING":
                store = True  # crops have a single regime
            ok, _ = implied_eq(t, db.spec(t, V_(fam)))
            k = (store, extra_env(t), ok)
            if k in seen:
                continue
            seen.add(k)
            regime = "storage" if store else "first-year-only"
            rep.check(
                ok, rule, f"{what}|to_humans|last-month|{regime}{extra_env(t)}",
                f"no terminal condition forces {what} to be fully used by the last month in the human-maximising round"
                + ("" if store else " (first-year-only stock regime: the condition is commented out; stock left after "
                   "month 12 is simply lost)"),
                loc=OPT,
            )
    rep.require_min(rule, 3)


def feed_biofuel(db, rep, pid="C01"):
    feed_sum = ('variables["stored_food_feed"][month{o}] + variables["crops_food_feed"][month{o}] + '
                'variables["seaweed_feed"][month{o}] * consts["SEAWEED_KCALS"] + '
                'variables["cellulosic_sugar_feed"][month{o}] + variables["methane_scp_feed"][month{o}]')
    bio_sum = feed_sum.replace("_feed", "_biofuel")
    n_h = n_a = n_m = 0
    for t in tmpl(db, "add_feed_biofuel_to_model"):
        if t.aborted:
            continue
        flags = {k: v for k, v in t.decisions.items() if k.startswith("consts.ADD_")}
        if not any(flags.values()):
            continue  # no feed-capable resource at all: nothing is allocated
        if any(k.startswith("isinstance(") and v for k, v in t.decisions.items()):
            continue  # python-type corner of an all-zero sum (no variable present)
        fs = db.spec(t, feed_sum.format(o=""))
        bs = db.spec(t, bio_sum.format(o=""))
        envs = f"{t.opt_type}|months{t.mc}|" + ",".join(k[11:] for k, v in sorted(flags.items()) if v)
        if t.opt_type == "to_humans":
            for nm, s, key in (("feed", fs, "feed"), ("biofuel", bs, "biofuel")):
                if not s.vars():
                    continue
                ok, resid = implied_eq(t, s - db.spec(t, f'tc["{key}"].kcals[month]'))
                n_h += 1
                rep.check(ok, pid + ".FB_EQ", f"add_feed_biofuel_to_model[{nm}|{envs}]",
                          f"human round: total {nm} drawn must EQUAL the amount charged for the round", loc=OPT,
                          detail=f"residual {resid}")
        else:
            for nm, s, key in (("feed", fs, "max_feed_that_could_be_used"), ("biofuel", bs, "max_biofuel_that_could_be_used")):
                if not s.vars():
                    continue
                got = equivalent_ineq(t, s - db.spec(t, f'tc["{key}"].kcals[month]'))
                n_a += 1
                rep.check(bool(got), pid + ".FB_LE", f"add_feed_biofuel_to_model[{nm}|{envs}]",
                          f"animal round: total {nm} must stay within the demand ceiling", loc=OPT)
            if not is_first(t):
                for nm, tmpl_s in (("feed", feed_sum), ("biofuel", bio_sum)):
                    cur = db.spec(t, tmpl_s.format(o=""))
                    prv = db.spec(t, tmpl_s.format(o="-1"))
                    if not cur.vars():
                        continue
                    got = equivalent_ineq(t, cur - prv)
                    n_m += 1
                    rep.check(bool(got), pid + ".MONO", f"add_feed_biofuel_to_model[{nm}-monotone|{envs}]",
                              f"animal round: {nm} use must never rise from one month to the next "
                              f"(sum[m] <= sum[m-1])", loc=OPT)
    rep.require_min(pid + ".FB_EQ", 6)
    rep.require_min(pid + ".FB_LE", 6)
    rep.require_min(pid + ".MONO", 4)


def order(index, db, rep):
    """within add_variables_and_constraints_to_model: variables are created before they are read"""
    rule = "C01.ORDER"
    # the builder as one statement list: helper methods it merely delegates to are read as part of it; the LP-building steps are kept as calls
    BUILD_STEPS = ("add_variable_from_prefixes", "add_resource_specific_conditions_to_model", "add_feed_biofuel_to_model",
                   "add_total_human_consumption_to_model", "add_percentage_intake_constraints", "add_maximize_min_month_objective_to_model",
                   "add_maximize_sum_total_feed_used_by_animals", "add_conditions_to_model", "load_variable_names_and_prefixes")
    fn = index.flat_func(OPT, "Optimizer.add_variables_and_constraints_to_model", keep=BUILD_STEPS)
    calls = []
    for n in ast.walk(fn):
        if isinstance(n, ast.Call):
            d = dotted(n.func)
            if d and d.startswith("self."):
                calls.append((n.lineno, n.col_offset, d[5:], n))
    calls.sort()
    names = [c[2] for c in calls]

    def pos(name):
        return names.index(name) if name in names else None

    need = ["add_variable_from_prefixes", "add_resource_specific_conditions_to_model", "add_feed_biofuel_to_model",
            "add_total_human_consumption_to_model", "add_percentage_intake_constraints"]
    missing = [n for n in need if pos(n) is None]
    if missing:
        raise AnalysisError(f"add_variables_and_constraints_to_model no longer calls {missing}")
    rep.check(pos("add_variable_from_prefixes") < pos("add_resource_specific_conditions_to_model"), rule,
              "variables-before-resource-constraints",
              "resource constraints are built before the resource's LP variables exist (placeholders 0 would be used)",
              loc=loc(OPT, fn))
    # resource loop completes before the feed/biofuel loop starts (different For statements, in order)
    fors = sorted([s for s in ast.walk(fn) if isinstance(s, ast.For) and not any(isinstance(p_, ast.For) for p_ in _ancestors(s, fn))], key=lambda s: s.lineno)

    def for_of(name):
        for i, f in enumerate(fors):
            for n in ast.walk(f):
                if isinstance(n, ast.Call) and dotted(n.func) == "self." + name:
                    return i
        return None

    rep.check(for_of("add_variable_from_prefixes") is not None and for_of("add_feed_biofuel_to_model") is not None
              and for_of("add_variable_from_prefixes") < for_of("add_feed_biofuel_to_model"), rule,
              "resources-before-feed-sums",
              "feed/biofuel sums are built before all resource variables exist", loc=loc(OPT, fn))
    rep.check(pos("add_total_human_consumption_to_model") < pos("add_percentage_intake_constraints")
              and for_of("add_total_human_consumption_to_model") == for_of("add_percentage_intake_constraints"), rule,
              "consumed_kcals-before-intake-caps",
              "intake caps read consumed_kcals[month] before add_total_human_consumption_to_model created it "
              "(the placeholder 0 would cap every resilient food at 0)", loc=loc(OPT, fn))
    # the objective constraints come after consumed_kcals exist for all months
    obj_for = for_of("add_maximize_min_month_objective_to_model")
    if obj_for is not None:
        ok_obj = obj_for > for_of("add_total_human_consumption_to_model")
    else:
        # the objective routine loops over the months itself and is called once: after the loop that creates consumed_kcals has finished
        oc_ = [c for c in calls if c[2] == "add_maximize_min_month_objective_to_model"]
        cons_for = fors[for_of("add_total_human_consumption_to_model")]
        ok_obj = len(oc_) == 1 and oc_[0][0] > max(getattr(n_, "lineno", 0) for n_ in ast.walk(cons_for))
    rep.check(ok_obj, rule, "objective-after-consumption",
              "max-min objective constraints are built before consumed_kcals variables exist", loc=loc(OPT, fn))
    # every month is covered: loops are range(0, self.NMONTHS)
    for f in fors:
        if isinstance(f.iter, ast.Call) and dotted(f.iter.func) == "range":
            txt = [norm_src(a) for a in f.iter.args]
            ok = txt in (["0", "self.NMONTHS"], ["self.NMONTHS"])
            rep.check(ok, rule, f"month-loop:{norm_src(f.iter)}@{_first_call(f)}",
                      "a month loop of the LP builder does not cover months 0..NMONTHS-1", loc=loc(OPT, f))
    inner = index.func(OPT, "Optimizer.add_variable_from_prefixes")
    for f in [s for s in ast.walk(inner) if isinstance(s, ast.For)]:
        if isinstance(f.iter, ast.Call) and dotted(f.iter.func) == "range":
            txt = [norm_src(a) for a in f.iter.args]
            rep.check(txt in (["0", "self.NMONTHS"], ["self.NMONTHS"]), rule,
                      "month-loop:add_variable_from_prefixes",
                      "variables are not created for every month 0..NMONTHS-1", loc=loc(OPT, f))
    rep.require_min(rule, 6)


def _ancestors(n, stop):
    out = []
    n = getattr(n, '_parent', None)
    while n is not None and n is not stop:
        out.append(n)
        n = getattr(n, '_parent', None)
    return out


def _first_call(f):
    for n in ast.walk(f):
        if isinstance(n, ast.Call):
            d = dotted(n.func)
            if d and d.startswith("self."):
                return d[5:]
    return "?"


# the six retail-waste constants of the optimiser all originate from constants_inputs["WASTE_RETAIL"]
PARAMS = "src/optimizer/parameters.py"


def waste_provenance(index, rep):
    rule = "C01.WASTE"
    # key in consts_for_optimizer -> accepted provenance text fragments (attribute chain ending in the WASTE_RETAIL read)
    mod = index.module(PARAMS)
    assigns = {}
    from .core import unrolled_assigns
    from .symx import Interp as _I
    # (written in parameters.py, or by a food-system class that fills the table it is handed)
    food_files_ = ["src/food_system/" + f for f in ("stored_food.py", "outdoor_crops.py", "meat_and_dairy.py", "methane_scp.py", "cellulosic_sugar.py",
                                                    "seaweed.py")]
    all_assigns = list(unrolled_assigns(mod, _I.global_literals))
    for rel_ in food_files_:
        all_assigns += [a_ for a_ in unrolled_assigns(index.module(rel_), _I.global_literals)
                        if isinstance(a_.targets[0], ast.Subscript) and isinstance(a_.targets[0].value, ast.Name)]
    for n in all_assigns:
        if isinstance(n, ast.Assign) and len(n.targets) == 1 and isinstance(n.targets[0], ast.Subscript):
            t = n.targets[0]
            k = t.slice.value if isinstance(t.slice, ast.Constant) else None
            if isinstance(k, str) and k in WASTE_KEY.values():
                assigns.setdefault(k, []).append(n)
    for k in WASTE_KEY.values():
        if k not in assigns:
            raise AnalysisError(f"parameters.py no longer assigns constants_out[{k!r}]")
    # follow one hop: value is either constants_inputs["WASTE_RETAIL"] directly or <obj>.<ATTR> assigned from it
    def direct(v):
        return isinstance(v, ast.Subscript) and isinstance(v.slice, ast.Constant) and v.slice.value == "WASTE_RETAIL"

    food_files = ["src/food_system/" + f for f in ("stored_food.py", "outdoor_crops.py", "meat_and_dairy.py",
                                                  "methane_scp.py", "cellulosic_sugar.py", "seaweed.py")]
    attr_src = {}
    for rel in food_files:
        for n in ast.walk(index.module(rel)):
            if isinstance(n, ast.Assign) and len(n.targets) == 1 and isinstance(n.targets[0], ast.Attribute):
                attr_src.setdefault(n.targets[0].attr, []).append((rel, n))
    for k, nodes in assigns.items():
        for n in nodes:
            v = n.value
            ok = direct(v)
            why = norm_src(v)
            if not ok and isinstance(v, ast.Attribute):
                srcs = attr_src.get(v.attr, [])
                ok = bool(srcs) and all(direct(s.value) for _, s in srcs)
                why += " <- " + "; ".join(norm_src(s.value) for _, s in srcs)
            rep.check(ok, rule, f"constants_out[{k}]",
                      f"retail-waste constant {k} does not originate from constants_inputs['WASTE_RETAIL'] ({why})",
                      loc=loc(PARAMS, n), detail=why)
    rep.require_min(rule, 6)


def describe(rep):
    rep.explanation = (
        "Static analysis of src/optimizer/optimizer.py. The six resource functions, the feed/biofuel function and the "
        "pinning function are abstractly evaluated (no execution, no solver) with a symbolic month over auto-split month "
        "classes ([0,0], [1,12]/[13,N-2] where the code distinguishes them, [N-1,N-1]), both rounds, both stock regimes and "
        "all ADD_* flag combinations; every comparison involving LP variables becomes a constraint template in exact "
        "rational form. Each obligation states a physical balance/cap/bound in the same vocabulary and is discharged by "
        "linear-span membership (equalities), positive-multiple equivalence or one-inequality-plus-equalities implication. "
        "By induction over months the templates imply the cumulative bounds of C01 for any feasible point. "
        "Not decided: that CBC returns a feasible point; the data values."
    )
    rep.assumptions = [
        "CBC returns a feasible point of the LP it is given (trusted base)",
        "waste percentages are < 100 (sign of the gross-up factor 1/(1-W/100))",
        "horizon NMONTHS in 48..120 (month-class predicates are decided on that interval)",
        "Optimizer.optimize_to_humans/optimize_feed_to_animals receive the same consts dict the object was built with",
    ]
