"""C17 — shipped input tables are what the import pipeline derives (statically decidable part).

Not decided: byte-for-byte reproduction of the tables from raw data (needs pandas/openpyxl execution).
Decided: every invariant stated for the shipped combined table, over all cells (exhaustive for the artefact);
pipeline writer/reader wiring; structure of the percentage-averaging helper."""
from __future__ import annotations

import ast
import csv
import math
import os
import re

from .core import AnalysisError, loc, norm_src, walk_no_nested, dotted, str_const
from .symx import Interp, Obj, PList, PDict, Path, Opaque, Unsupported, explore, Abort
from .rat import Rat

TABLE = "data/no_food_trade/computer_readable_combined.csv"
RMNT = "src/scenarios/run_model_no_trade.py"
IU = "src/utilities/import_utilities.py"
IFD = "src/import_scripts_no_food_trade/import_food_data.py"
SCRIPTS = "src/import_scripts_no_food_trade"
SH = "scripts/run_all_imports.sh"
PROCESSED = "data/no_food_trade/processed_data"


def run(index, rep):
    rows, header = load_table(index)
    rep.note_analysed("combined_table", f"{len(rows)} rows x {len(header)} columns")
    rep.guard(table, index, rep, rows, header)
    rep.guard(wire, index, rep, header)
    rep.guard(avg, index, rep)
    rep.guard(korea, index, rep)
    rep.guard(sentinel, index, rep)
    rep.guard(sibling_columns, index, rep)
    rep.guard(korea_labels, index, rep)
    rep.guard(stale_row_values, index, rep)


def load_table(index):
    p = index.path(TABLE)
    if not os.path.exists(p):
        raise AnalysisError("combined table missing")
    with open(p, newline="") as f:
        r = csv.reader(f)
        header = next(r)
        rows = [dict(zip(header, row)) for row in r]
    return rows, header


def expected_codes(index):
    """evaluate the class-level list algebra of ImportUtilities for `country_codes` (lists, +, names)"""
    cls = index.cls(IU, "ImportUtilities")
    env = {}

    def ev(e):
        if isinstance(e, ast.List):
            return [ev(x) for x in e.elts]
        if isinstance(e, ast.Constant):
            return e.value
        if isinstance(e, ast.Name):
            if e.id not in env:
                raise AnalysisError(f"ImportUtilities: {e.id} is not a literal list")
            return env[e.id]
        if isinstance(e, ast.BinOp) and isinstance(e.op, ast.Add):
            return ev(e.left) + ev(e.right)
        raise AnalysisError("ImportUtilities.country_codes is no longer built from list literals and +")

    for st in cls.body:
        if isinstance(st, ast.Assign) and len(st.targets) == 1 and isinstance(st.targets[0], ast.Name):
            try:
                env[st.targets[0].id] = ev(st.value)
            except AnalysisError:
                continue
    if "country_codes" not in env:
        raise AnalysisError("ImportUtilities.country_codes not found")
    codes = list(env["country_codes"])
    # the rewrite import_food_data.py applies
    mod = index.module(IFD)
    rewrites = []
    for n in ast.walk(mod):
        if isinstance(n, ast.Call) and isinstance(n.func, ast.Attribute) and n.func.attr == "replace" and len(n.args) == 2 \
                and "expected_country_codes" in norm_src(n.func.value):
            a, b = str_const(n.args[0]), str_const(n.args[1])
            if a and b:
                rewrites.append((a, b))
    for a, b in rewrites:
        codes = [c.replace(a, b) for c in codes]
    return codes, rewrites


def parse_bounds(index):
    """assert country_data["k"] OP literal  ->  [(k, op, value)], also when the assertion sits in a loop over a literal list of names
    (unrolled) and reads the cell through a local (`x = country_data[f"..._{name}"]; assert x < 1`) or a chained comparison"""
    from .c13 import str_eval
    fn = index.func(RMNT, "ScenarioRunnerNoTrade.verify_country_data")
    out = []
    OPS = {ast.Lt: "<", ast.LtE: "<=", ast.Gt: ">", ast.GtE: ">="}
    FLIP = {"<": ">", "<=": ">=", ">": "<", ">=": "<="}

    row_env = {}          # names bound by the row of a table the enclosing loop iterates over (several names per row)

    def key_of(e, var, value, locals_):
        if isinstance(e, ast.Name) and e.id in locals_:
            e = locals_[e.id]
        if isinstance(e, ast.Subscript) and norm_src(e.value) == "country_data":
            if str_const(e.slice):
                return str_const(e.slice)
            if isinstance(e.slice, ast.Name) and isinstance(row_env.get(e.slice.id), str):
                return row_env[e.slice.id]
            if var is not None:
                try:
                    k = str_eval(e.slice, var, value)
                    return k if isinstance(k, str) else None
                except (AnalysisError, Exception):
                    return None
        return None

    def lit(e):
        if isinstance(e, ast.Name) and isinstance(row_env.get(e.id), (int, float)) and not isinstance(row_env.get(e.id), bool):
            return float(row_env[e.id])
        if isinstance(e, (ast.Constant, ast.UnaryOp, ast.BinOp)):
            try:
                return float(ast.literal_eval(e))
            except Exception:
                return None
        return None

    def table_of(it):
        from .symx import Interp as _I17
        if isinstance(it, ast.Name) and _I17.global_literals is not None and it.id in _I17.global_literals:
            return _I17.global_literals[it.id]
        return it

    def scan(stmts, var, value):
        locals_ = {}
        for st in stmts:
            if isinstance(st, ast.Assign) and len(st.targets) == 1 and isinstance(st.targets[0], ast.Name):
                locals_[st.targets[0].id] = st.value
            elif isinstance(st, ast.Assert) and isinstance(st.test, (ast.Compare, ast.BoolOp)):
                tests = st.test.values if isinstance(st.test, ast.BoolOp) and isinstance(st.test.op, ast.And) else [st.test]
                for t in tests:
                    if not isinstance(t, ast.Compare):
                        continue
                    terms = [t.left] + list(t.comparators)
                    for l, o, r in zip(terms, t.ops, terms[1:]):
                        op = OPS.get(type(o))
                        if not op:
                            continue
                        k, v = key_of(l, var, value, locals_), lit(r)
                        if k is not None and v is not None:
                            out.append((k, op, v))
                            continue
                        k, v = key_of(r, var, value, locals_), lit(l)
                        if k is not None and v is not None:
                            out.append((k, FLIP[op], v))
            elif isinstance(st, ast.For) and var is None and isinstance(st.target, ast.Name) and isinstance(table_of(st.iter), (ast.List, ast.Tuple)) \
                    and all(isinstance(e, ast.Constant) and isinstance(e.value, (str, int)) for e in table_of(st.iter).elts):
                for e in table_of(st.iter).elts:
                    scan(st.body, st.target.id, e.value)
            elif isinstance(st, ast.For) and var is None and isinstance(st.target, ast.Tuple) and all(isinstance(t_, ast.Name) for t_ in st.target.elts) \
                    and isinstance(table_of(st.iter), (ast.List, ast.Tuple)):
                # for column, bound, ... in <table of rows>: one pass per row with the row's constants bound
                for row in table_of(st.iter).elts:
                    if isinstance(row, (ast.Tuple, ast.List)) and len(row.elts) == len(st.target.elts):
                        row_env.clear()
                        for t_, v_ in zip(st.target.elts, row.elts):
                            try:
                                row_env[t_.id] = ast.literal_eval(v_)
                            except Exception:
                                pass
                        scan(st.body, None, None)
                        row_env.clear()

    scan(fn.body, None, None)
    if len(out) < 60:
        raise AnalysisError(f"verify_country_data: only {len(out)} simple bounds recognised")
    return out, fn


def num(v):
    try:
        return float(v)
    except ValueError:
        return None


def table(index, rep, rows, header):
    rule = "C17.TABLE"
    codes, rewrites = expected_codes(index)
    got = [r["iso3"] for r in rows]
    missing = sorted(set(codes) - set(got))
    extra = sorted(set(got) - set(codes))
    rep.check(not missing and not extra and len(got) == len(set(got)), rule, "rows:one-per-expected-country",
              f"rows do not match the expected countries (missing {missing[:5]}, unexpected {extra[:5]}, duplicates "
              f"{len(got) - len(set(got))})", loc=TABLE, detail=f"{len(codes)} expected (rewrites {rewrites})")
    # no missing values, all cells
    bad = [(r["iso3"], c) for r in rows for c in header if r.get(c) is None or r[c].strip() == "" or r[c].strip().lower() in ("nan", "none", "null")]
    rep.check(not bad, rule, f"cells:no-missing-values ({len(rows) * len(header)} cells)",
              f"{len(bad)} missing value(s), e.g. {bad[:4]}", loc=TABLE)
    nonfinite = [(r["iso3"], c) for r in rows for c in header if num(r[c]) is not None and not math.isfinite(num(r[c]))]
    rep.check(not nonfinite, rule, "cells:finite", f"non-finite numbers at {nonfinite[:4]}", loc=TABLE)
    bounds, fn = parse_bounds(index)
    ops = {"<": lambda a, b: a < b, "<=": lambda a, b: a <= b, ">": lambda a, b: a > b, ">=": lambda a, b: a >= b}
    for col, op, val in bounds:
        if col not in header:
            rep.violation(rule, f"bound:{col}{op}{val:g}", f"column {col} checked by verify_country_data is not in the table", loc=TABLE)
            continue
        viol = [r["iso3"] for r in rows if num(r[col]) is None or not ops[op](num(r[col]), val)]
        rep.check(not viol, rule, f"bound:{col}{op}{val:g}", f"{len(viol)} row(s) violate {col} {op} {val:g}: {viol[:6]}", loc=TABLE)
    # loops of verify_country_data / the property statement
    for i in range(1, 11):
        for fam in ("crop_reduction_year", "grasses_reduction_year"):
            col = f"{fam}{i}"
            viol = [r["iso3"] for r in rows if num(r[col]) is None or num(r[col]) < -1 - 1e-8]
            rep.check(not viol, rule, f"reduction:{col}>=-1", f"reduction below -100 % in {viol[:6]}", loc=TABLE)
    seas = [f"seasonality_m{i}" for i in range(1, 13)]
    viol = [r["iso3"] for r in rows if not math.isclose(sum(num(r[c]) for c in seas), 1, rel_tol=1e-5, abs_tol=1e-8)]
    rep.check(not viol, rule, "seasonality:sums-to-1", f"seasonality shares do not sum to one for {viol[:6]}", loc=TABLE)
    viol = [r["iso3"] for r in rows if any(not (0 <= num(r[c]) <= 1) for c in seas)]
    rep.check(not viol, rule, "seasonality:shares-in-0..1", f"seasonality share outside 0..1 for {viol[:6]}", loc=TABLE)
    months = ["jan", "feb", "mar", "apr", "may", "jun", "jul", "aug", "sep", "oct", "nov", "dec"]
    for m in months:
        col = f"stocks_kcals_{m}"
        viol = [r["iso3"] for r in rows if num(r[col]) is None or not (-1e-8 <= num(r[col]) < 10e9)]
        rep.check(not viol, rule, f"stocks:{col}", f"stock outside [0, 1e10) for {viol[:6]}", loc=TABLE)
    # fractions in 0..1 (named by the property): every distribution_loss_* / retail_waste_* column
    for col in header:
        if col.startswith(("distribution_loss_", "retail_waste_")):
            viol = [r["iso3"] for r in rows if not (0 <= num(r[col]) <= 1)]
            rep.check(not viol, rule, f"fraction:{col}", f"fraction outside 0..1 for {viol[:6]}", loc=TABLE)
    # non-negative quantities: every numeric column that is not a signed reduction
    for col in header:
        if col in ("iso3", "country") or "reduction" in col:
            continue
        vals = [num(r[col]) for r in rows]
        if any(v is None for v in vals):
            rep.violation(rule, f"numeric:{col}", "non-numeric cell in a quantity column", loc=TABLE)
            continue
        neg = [r["iso3"] for r in rows if num(r[col]) < 0]
        rep.check(not neg, rule, f"nonneg:{col}", f"negative quantity for {neg[:6]}", loc=TABLE)
    rep.extra["exhaustive_table_cells"] = len(rows) * len(header)
    rep.require_min(rule, 250)


def wire(index, rep, header):
    rule = "C17.WIRE"
    sh = index.source(SH)
    run = re.findall(r"^python\s+(\S+\.py)\s*$", sh, flags=re.M)
    present = sorted(f for f in os.listdir(index.path(SCRIPTS)) if f.startswith("create_") and f.endswith(".py"))
    rep.check(sorted(x for x in run if x.startswith("create_")) == present, rule, "run_all_imports:runs-every-create-script",
              f"the pipeline script does not run exactly the create_*.py scripts present (missing {sorted(set(present) - set(run))}, "
              f"stale {sorted(set(run) - set(present) - {'import_food_data.py'})})", loc=SH)
    rep.check(bool(run) and run[-1] == "import_food_data.py" and run.count("import_food_data.py") == 1, rule,
              "run_all_imports:merge-last", "import_food_data.py must run once, after every create script", loc=SH)
    written = {}
    for f in present:
        rel = SCRIPTS + "/" + f
        names = csv_names_written(index.module(rel))
        written[f] = names
    all_written = set().union(*written.values()) if written else set()
    read = set()
    for n in ast.walk(index.module(IFD)):
        if isinstance(n, ast.Constant) and isinstance(n.value, str) and n.value.endswith("_csv.csv"):
            read.add(os.path.basename(n.value))
    on_disk = {f for f in os.listdir(index.path(PROCESSED)) if f.endswith(".csv")}
    rep.check(all_written == read, rule, "processed:written==merged",
              f"tables written by the create scripts and tables merged differ: only written {sorted(all_written - read)}, only read "
              f"{sorted(read - all_written)}", loc=IFD)
    rep.check(read == on_disk, rule, "processed:merged==shipped",
              f"merged tables and shipped tables differ: not shipped {sorted(read - on_disk)}, not merged {sorted(on_disk - read)}", loc=PROCESSED)
    for f, names in sorted(written.items()):
        rep.check(len(names) == 1, rule, f"create-script:{f}", f"script names {sorted(names)} processed tables (expected exactly one)",
                  loc=SCRIPTS + "/" + f)
    dup = [n for n in all_written if sum(1 for v in written.values() if n in v) > 1]
    rep.check(not dup, rule, "processed:single-writer", f"tables written by more than one script: {dup}", loc=SCRIPTS)
    # merge discipline: inner join on iso3, null assertion, country-set assertion, written once
    mod = index.module(IFD)
    src = norm_src(mod)
    rep.check("how='inner'" in src and "on=['iso3']" in src, rule, "merge:inner-join-on-iso3", "merge is no longer an inner join on iso3", loc=IFD)
    asserts = [norm_src(a.test) for a in ast.walk(mod) if isinstance(a, ast.Assert)]
    rep.check(any("isnull().values.any()" in a and a.startswith("not") for a in asserts), rule, "merge:null-assertion",
              "the merged table is no longer asserted free of nulls", loc=IFD)
    rep.check(any("set(df_merged['iso3'].values) == set(expected_country_codes)" in a for a in asserts), rule, "merge:country-set-assertion",
              "the merged table's countries are no longer asserted equal to the expected set", loc=IFD)
    # every column the model reads from a country row exists
    used = set()
    readers = ["src/scenarios/scenarios.py", RMNT, "src/scenarios/run_scenario.py", "src/optimizer/parameters.py"] + \
        ["src/food_system/" + f for f in sorted(os.listdir(index.path("src/food_system"))) if f.endswith(".py")]
    for rel in readers:
        for n in ast.walk(index.module(rel)):
            if isinstance(n, ast.Subscript) and norm_src(n.value) == "country_data" and isinstance(n.ctx, ast.Load):
                k = n.slice
                if isinstance(k, ast.Constant) and isinstance(k.value, str):
                    used.add((k.value, rel, n.lineno))
                elif isinstance(k, ast.JoinedStr) or isinstance(k, ast.BinOp):
                    for name in expand_key(k, n):
                        used.add((name, rel, n.lineno))
    cols = set(header)
    seen = set()
    for k, rel, ln in sorted(used):
        if k in seen:
            continue
        seen.add(k)
        rep.check(k in cols, rule, f"column-used:{k}", f"the model reads country_data[{k!r}] ({rel}:{ln}) but the combined table has no such column",
                  loc=f"{rel}:{ln}")
    rep.note_analysed("columns_read_by_model", len(seen))
    rep.note_analysed("columns_unused", sorted(cols - seen - {"iso3", "country"})[:20])
    rep.require_min(rule, 100)


WRITERS = ("to_csv", "savetxt", "to_excel", "writerows", "write")
READERS = ("read_csv", "read_excel", "loadtxt", "genfromtxt", "open")


def csv_names_written(mod):
    """basenames of *.csv string constants that flow into a writer call (directly or through one local)"""
    def enclosing_call(n):
        p = getattr(n, "_parent", None)
        while p is not None:
            if isinstance(p, ast.Call):
                name = p.func.attr if isinstance(p.func, ast.Attribute) else (p.func.id if isinstance(p.func, ast.Name) else "")
                if name in WRITERS or name in READERS:
                    return name
            if isinstance(p, (ast.Assign, ast.Expr)):
                return p
            p = getattr(p, "_parent", None)
        return None

    out = set()
    for n in ast.walk(mod):
        if isinstance(n, ast.Constant) and isinstance(n.value, str) and n.value.endswith(".csv"):
            ec = enclosing_call(n)
            if ec in WRITERS:
                out.add(os.path.basename(n.value))
            elif isinstance(ec, ast.Assign) and isinstance(ec.targets[0], ast.Name):
                var = ec.targets[0].id
                for u in ast.walk(mod):
                    if isinstance(u, ast.Name) and u.id == var and isinstance(u.ctx, ast.Load):
                        if enclosing_call(u) in WRITERS:
                            out.add(os.path.basename(n.value))
    return out


def expand_key(k, node):
    """f"crop_reduction_year{i}" / "x" + str(i) inside for i in range(a,b) -> names"""
    loopvar = None
    if isinstance(k, ast.JoinedStr):
        parts = []
        for v in k.values:
            if isinstance(v, ast.Constant):
                parts.append(v.value)
            elif isinstance(v, ast.FormattedValue) and isinstance(v.value, ast.Name):
                loopvar = v.value.id
                parts.append("{}")
            elif isinstance(v, ast.FormattedValue) and isinstance(v.value, ast.Subscript) and isinstance(v.value.slice, ast.Name):
                return []  # months[i]: handled by the explicit month rule
            else:
                return []
        tmpl = "".join(parts)
    elif isinstance(k, ast.BinOp) and isinstance(k.op, ast.Add) and isinstance(k.left, ast.Constant) and \
            isinstance(k.right, ast.Call) and dotted(k.right.func) == "str" and isinstance(k.right.args[0], ast.Name):
        tmpl = k.left.value + "{}"
        loopvar = k.right.args[0].id
    else:
        return []
    n = getattr(node, "_parent", None)
    while n is not None:
        if isinstance(n, ast.For) and isinstance(n.target, ast.Name) and n.target.id == loopvar:
            it = n.iter
            if isinstance(it, ast.Call) and dotted(it.func) == "range" and all(isinstance(a, ast.Constant) for a in it.args):
                return [tmpl.format(v) for v in range(*[a.value for a in it.args])]
        if isinstance(n, (ast.GeneratorExp, ast.ListComp)):
            for g in n.generators:
                if isinstance(g.target, ast.Name) and g.target.id == loopvar and isinstance(g.iter, ast.Call) and \
                        dotted(g.iter.func) == "range" and all(isinstance(a, ast.Constant) for a in g.iter.args):
                    return [tmpl.format(v) for v in range(*[a.value for a in g.iter.args])]
        n = getattr(n, "_parent", None)
    return []


NWCSV = "src/import_scripts_no_food_trade/create_nuclear_winter_csv.py"


def sentinel(index, rep):
    """create_nuclear_winter_csv.clean_up_nw_csv, evaluated for one symbolic cell x of every reduction column: a valid percentage
    (-100..1e5) becomes x/100, the averaging helper's "no data" value (9.37e36) becomes -1 (total loss) - in the final units"""
    from .symx import NArr, NMask, _Return, NSYM
    from .nphooks import np_hook
    from .rat import feasible
    from fractions import Fraction
    rule = "C17.NODATA"
    fn = index.func(NWCSV, "clean_up_nw_csv")
    x = Rat.atom(("x",))
    SENT = Rat.const(Fraction(937, 100) * 10**36)
    neg = {"<": ">=", "<=": ">", ">": "<=", ">=": "<", "==": "!=", "!=": "=="}
    keys = [p + str(i) for i in range(1, 11) for p in ("crop_reduction_year", "grasses_reduction_year")]

    def runit(it):
        def hook(interp, d, a, kw, node):
            if d in ("pd.DataFrame", "pandas.DataFrame"):
                return PDict({k: NArr([(x, Rat.atom(NSYM))]) for k in keys})
            if isinstance(node.func, ast.Attribute) and node.func.attr in ("astype", "div", "copy", "to_numpy", "mul", "truediv"):
                recv = interp.eval(node.func.value, interp.call_env)
                if isinstance(recv, NArr):
                    if node.func.attr in ("div", "truediv") and len(a) == 1:
                        return interp.narr_binop(ast.Div(), recv, a[0], node)
                    if node.func.attr == "mul" and len(a) == 1:
                        return interp.narr_binop(ast.Mult(), recv, a[0], node)
                    return recv
            return np_hook(interp, d, a, kw, node)

        it.call_hook = hook
        env = {fn.args.args[0].arg: Opaque("raw"), fn.args.args[1].arg: Opaque("cols")}
        try:
            it.exec_block([s_ for s_ in fn.body if not (isinstance(s_, ast.Expr) and isinstance(s_.value, ast.Constant))], env)
        except _Return as r:
            return r.value
        return None

    try:
        leaves = explore(runit, month_classes=False)
    except Unsupported as e:
        raise AnalysisError(f"clean_up_nw_csv outside the analysed fragment: {e}")
    n_valid = n_sent = 0
    for _, dec, res, it in leaves:
        if isinstance(res, Abort) or not isinstance(res, PDict):
            continue
        cons = [(it.pred_exprs[k][0], it.pred_exprs[k][1] if v else neg[it.pred_exprs[k][1]]) for k, v in dec.items() if k in it.pred_exprs]
        valid = feasible(cons + [(x + Rat.const(100), ">="), (x - Rat.const(10**5), "<=")])
        sent = feasible(cons + [(x - SENT, "==")])
        for k in keys:
            v = res.d.get(k)
            segs = v.segs if isinstance(v, NArr) else None
            got = it.to_rat(segs[0][0]) if segs and len(segs) == 1 else None
            if valid:
                n_valid += 1
                rep.check(got is not None and got == x / Rat.const(100), rule, f"{k}: valid percentage -> x/100",
                          f"a valid percentage in {k} is not converted to the fraction x/100 (got {got})", loc=loc(NWCSV, fn))
            if sent:
                n_sent += 1
                rep.check(got is not None and got == Rat.const(-1), rule, f"{k}: no-data value -> -1",
                          f"the no-data value (9.37e36) in {k} does not become -1 = total loss in the final (fraction) units (got {got}): "
                          "countries without data would be treated as almost unaffected", loc=loc(NWCSV, fn))
    if n_valid < 20 or n_sent < 20:
        raise AnalysisError(f"clean_up_nw_csv: {n_valid} valid / {n_sent} no-data cell cases analysed (expected 20 each)")
    rep.require_min(rule, 40)


IU = "src/utilities/import_utilities.py"


def korea_labels(index, rep):
    """the merge decides per table, from the label of the KOR row, whether a table has the two Koreas' codes exchanged.  The tables built with
    the shared country-name list carry that list's labels: the label it gives KOR must be one the test accepts, the label it gives PRK must not"""
    rule = "C17.WIRE"
    mod = index.module(IFD)
    accepted = None
    for n in ast.walk(mod):
        if isinstance(n, ast.Compare) and len(n.ops) == 1 and isinstance(n.ops[0], (ast.In, ast.NotIn)) and "'KOR'" in norm_src(n.left) \
                and isinstance(n.comparators[0], (ast.List, ast.Tuple, ast.Set)):
            vals = [str_const(e) for e in n.comparators[0].elts]
            if all(v is not None for v in vals):
                accepted = (vals, ".lower()" in norm_src(n.left), n)
    if accepted is None:
        raise AnalysisError("import_food_data.py: the test on the KOR row's label was not found")
    cls = index.cls(IU, "ImportUtilities")
    lists = {st.targets[0].id: st.value for st in cls.body if isinstance(st, ast.Assign) and len(st.targets) == 1 and isinstance(st.targets[0], ast.Name)
             and isinstance(st.value, ast.List) and all(isinstance(e, ast.Constant) and isinstance(e.value, str) for e in st.value.elts)}
    codes = [(k, v) for k, v in lists.items() if any(e.value == "KOR" for e in v.elts) and any(e.value == "PRK" for e in v.elts)]
    n_checked = 0
    for cname, cl in codes:
        ik = [e.value for e in cl.elts].index("KOR")
        ip = [e.value for e in cl.elts].index("PRK")
        for nname, nl in lists.items():
            if nname == cname or len(nl.elts) != len(cl.elts) or not any("orea" in e.value for e in nl.elts):
                continue
            lab_k, lab_p = nl.elts[ik].value, nl.elts[ip].value
            norm = (lambda x: x.lower()) if accepted[1] else (lambda x: x)
            ok = norm(lab_k) in accepted[0] and norm(lab_p) not in accepted[0]
            n_checked += 1
            rep.check(ok, rule, f"korea-labels:{nname}",
                      f"the shared name list labels KOR {lab_k!r} and PRK {lab_p!r}; the merge takes a table for correct only when the KOR row's label is "
                      f"one of {accepted[0]}: every table built with this list would have its (correct) codes exchanged", loc=loc(IU, nl))
    if n_checked == 0:
        raise AnalysisError("ImportUtilities: the parallel code / name lists holding KOR and PRK were not found")


def stale_row_values(index, rep):
    """per-row values in the import scripts: a value that a row's iteration assigns only under a condition (no else, no default earlier in the
    iteration, nothing before the loop) and uses afterwards is, for a row that does not meet the condition, the previous row's value"""
    rule = "C17.WIRE"
    n = 0
    for rel in [r for r in index.py_files(SCRIPTS)] + [IU]:
        mod = index.module(rel)
        scopes = [mod] + [f for f in ast.walk(mod) if isinstance(f, ast.FunctionDef)]
        for sc in scopes:
            stmts = list(walk_no_nested(sc)) if isinstance(sc, ast.FunctionDef) else [x for x in ast.walk(sc) if not any(
                isinstance(p_, ast.FunctionDef) for p_ in _parents(x))]
            for loop in [x for x in stmts if isinstance(x, ast.For)]:
                n += 1
                inside = {id(x) for x in ast.walk(loop)}
                outside_stores = {x.id for x in stmts if isinstance(x, ast.Name) and isinstance(x.ctx, ast.Store) and id(x) not in inside}
                uncond = {x.id for x in ast.walk(loop.target) if isinstance(x, ast.Name)}
                for i, st in enumerate(loop.body):
                    if isinstance(st, ast.If) and not st.orelse:
                        cond_only = {x.id for b in st.body for x in ast.walk(b) if isinstance(x, ast.Name) and isinstance(x.ctx, ast.Store)} - uncond - outside_stores
                        aug = {x.target.id for b in st.body for x in ast.walk(b) if isinstance(x, ast.AugAssign) and isinstance(x.target, ast.Name)}
                        later = {x.id for s2 in loop.body[i + 1:] for x in ast.walk(s2) if isinstance(x, ast.Name) and isinstance(x.ctx, ast.Load)}
                        for name in sorted((cond_only - aug) & later):
                            rep.violation(rule, f"stale-row-value:{rel.split('/')[-1]}:{name}",
                                          f"`{name}` is assigned only when `{norm_src(st.test)[:60]}` holds and is used later in the same iteration: for a row "
                                          "that does not meet the condition it still holds the previous row's value (the table gets another country's number)",
                                          loc=loc(rel, st))
                    if isinstance(st, ast.If):
                        if st.orelse:
                            a_ = {x.id for b in st.body for x in ast.walk(b) if isinstance(x, ast.Name) and isinstance(x.ctx, ast.Store)}
                            b_ = {x.id for b in st.orelse for x in ast.walk(b) if isinstance(x, ast.Name) and isinstance(x.ctx, ast.Store)}
                            uncond |= a_ & b_
                    else:
                        uncond |= {x.id for x in ast.walk(st) if isinstance(x, ast.Name) and isinstance(x.ctx, ast.Store)}
    rep.ok(rule, "no per-row value of the import scripts is carried over from the previous row", detail=f"{n} loops read")


def _parents(x):
    p_ = getattr(x, "_parent", None)
    while p_ is not None:
        yield p_
        p_ = getattr(p_, "_parent", None)


def korea(index, rep):
    """import_food_data.py: every table that enters the merge comes from the list the KOR/PRK iso-code correction wrote into"""
    rule = "C17.WIRE"
    mod = index.module(IFD)
    fix_loops = [s_ for s_ in mod.body if isinstance(s_, ast.For) and "'KOR': 'PRK'" in norm_src(s_) and "'PRK': 'KOR'" in norm_src(s_)]
    if len(fix_loops) != 1:
        raise AnalysisError("import_food_data.py: the KOR/PRK correction loop was not found")
    fl = fix_loops[0]
    corrected = set()
    for st in ast.walk(fl):
        if isinstance(st, ast.Assign):
            for t in st.targets:
                if isinstance(t, ast.Subscript) and isinstance(t.value, ast.Name):
                    corrected.add(t.value.id)          # written back in place
        if isinstance(st, ast.Call) and isinstance(st.func, ast.Attribute) and st.func.attr == "append" and isinstance(st.func.value, ast.Name):
            corrected.add(st.func.value.id)            # collected in a new list
    if not corrected:
        rep.violation(rule, "merge:KOR/PRK correction is stored", "the corrected table is computed but never written back into a list: the "
                      "correction is lost and the two Koreas keep each other's data", loc=loc(IFD, fl))
        return
    if len(corrected) != 1:
        raise AnalysisError(f"KOR/PRK correction: result container not identified ({sorted(corrected)})")
    rep.ok(rule, "merge:KOR/PRK correction is stored")
    good = corrected.pop()
    # the merge list and everything that flows into it
    merged = [c for c in ast.walk(mod) if isinstance(c, ast.Call) and dotted(c.func) == "reduce" and len(c.args) >= 2 and isinstance(c.args[1], ast.Name)]
    if len(merged) != 1:
        raise AnalysisError("import_food_data.py: the reduce(...) merge was not found")
    mname = merged[0].args[1].id
    sources = []
    after = fl.lineno
    for st in mod.body:
        if st.lineno <= after:
            continue
        if isinstance(st, ast.Assign) and any(isinstance(t, ast.Name) and t.id == mname for t in st.targets):
            for n in ast.walk(st.value):
                if isinstance(n, ast.Subscript) and isinstance(n.value, ast.Name):
                    sources.append((n.value.id, st))
        if isinstance(st, ast.For):
            apps = [c for c in ast.walk(st) if isinstance(c, ast.Call) and isinstance(c.func, ast.Attribute) and c.func.attr == "append"
                    and isinstance(c.func.value, ast.Name) and c.func.value.id == mname]
            if apps:
                it_names = [n.id for n in ast.walk(st.iter) if isinstance(n, ast.Name) and n.id not in ("enumerate", "range", "len", "zip")]
                for nme in it_names:
                    sources.append((nme, st))
    if len(sources) < 2:
        raise AnalysisError("import_food_data.py: what flows into the merge list was not identified")
    for nme, st in sources:
        rep.check(nme == good, rule, f"merge:table source `{nme}` is the KOR/PRK-corrected list",
                  f"tables taken from `{nme}` enter the merge, but the KOR/PRK iso-code correction wrote its result into `{good}`: for those "
                  "tables the two Koreas keep each other's data", loc=loc(IFD, st))


def avg(index, rep):
    """abstract evaluation of weighted_average_percentages on symbolic 1..3-element vectors, forking on the rejection
    predicate: accepted entries must give sum(p_i w_i)/(1 - sum rejected w_i); all-rejected must give the sentinel"""
    rule = "C17.AVG"
    fn = index.func(IU, "ImportUtilities.weighted_average_percentages")
    cls = index.cls(IU, "ImportUtilities")
    n_cases = 0
    patterns = set()
    for n in (1, 2, 3):
        ps = [Rat.atom(("p", i)) for i in range(n)]
        ws = [Rat.atom(("w", i)) for i in range(n)]

        def runit(it, ps=ps, ws=ws):
            it.classes = {"ImportUtilities": cls}

            def hook(interp, d, args, kwargs, node):
                if d == "sum" and len(args) == 1 and isinstance(args[0], PList):
                    tot = Rat.const(0)
                    for x in args[0].items:
                        tot = tot + interp.to_rat(x)
                    return tot
                return NotImplemented

            it.call_hook = hook
            return it.call_function(fn, [PList(list(ps)), PList(list(ws))], {}, None)

        try:
            envs = explore(runit, month_classes=False)
        except Unsupported as e:
            raise AnalysisError(f"weighted_average_percentages outside the analysed fragment: {e}")
        for _, dec, res, it in envs:
            if isinstance(res, Abort):
                continue  # an assertion of the helper refused the input
            # which entries were rejected on this path?  an accepted entry contributes p_i*w_i, so p_i occurs in the
            # result; a rejected one can only occur through its weight (boundary semantics are checked separately below)
            sentinel = isinstance(res, Rat) and res.is_const() and res.const_value() > 10**30
            if not isinstance(res, Rat):
                raise AnalysisError("weighted_average_percentages returned a non-numeric value")
            rej = [True] * n if sentinel else [ps[i].n.atoms().isdisjoint(res.atoms()) for i in range(n)]
            n_cases += 1
            pattern = "".join("R" if r else "A" for r in rej)
            patterns.add((n, pattern))
            if all(rej):
                ok = isinstance(res, Rat) and res.is_const() and res.const_value() > 10**30
                rep.check(ok, rule, f"n={n}:{pattern}:sentinel", "all entries impossible: the helper must return its 'impossible' sentinel "
                          "before dividing", loc=loc(IU, fn), detail=str(res))
                continue
            num_ = Rat.const(0)
            rejw = Rat.const(0)
            for i in range(n):
                if rej[i]:
                    rejw = rejw + ws[i]
                else:
                    num_ = num_ + ps[i] * ws[i]
            want = num_ / (Rat.const(1) - rejw)
            if isinstance(res, Rat) and res.is_const() and res.const_value() > 10**30:
                # renormalisation == 0 branch (only zero-weight valid entries): sentinel is acceptable
                rep.ok(rule, f"n={n}:{pattern}:zero-weight-sentinel", nontrivial=False)
                continue
            rep.check(isinstance(res, Rat) and res == want, rule, f"n={n}:{pattern}:weighted-mean",
                      "result is not sum over accepted p_i*w_i divided by (1 - rejected weight): rejected values leak into the mean or "
                      "the renormalisation is wrong (the mean could leave the range of the valid inputs)", loc=loc(IU, fn),
                      detail=f"got {res}; want {want}")
    # thresholds of the rejection predicate (docstring: impossible = greater than 1e5 or less than -100), decided by
    # constant propagation through the helper on boundary literals with a single weight of 1
    from fractions import Fraction

    def fold(value):
        it = Interp(decisions={})
        it.classes = {"ImportUtilities": cls}

        def hook(interp, d, args, kwargs, node):
            if d == "sum" and len(args) == 1 and isinstance(args[0], PList):
                tot = Rat.const(0)
                for x in args[0].items:
                    tot = tot + interp.to_rat(x)
                return tot
            return NotImplemented

        it.call_hook = hook
        try:
            return it.call_function(fn, [PList([Rat.const(value)]), PList([Rat.const(1)])], {}, None)
        except Abort:
            return "abort"

    for value, accepted in ((Fraction(100000), True), (Fraction(100001), False), (Fraction(1000001, 10), False),
                            (Fraction(-100), True), (Fraction(-1001, 10), False), (Fraction(0), True), (Fraction(-50), True)):
        r = fold(value)
        is_sentinel = isinstance(r, Rat) and r.is_const() and r.const_value() > 10**30
        ok = (isinstance(r, Rat) and r.is_const() and r.const_value() == value) if accepted else is_sentinel
        rep.check(ok, rule, f"boundary:{float(value):g}:{'accepted' if accepted else 'rejected'}",
                  f"a percentage of {float(value):g} must be {'kept' if accepted else 'treated as impossible'} (impossible means > 1e5 or < -100); "
                  f"the helper returns {r}", loc=loc(IU, fn))
    asserts = [norm_src(a.test) for a in walk_no_nested(fn) if isinstance(a, ast.Assert)]
    wparam = [a.arg for a in fn.args.args if a.arg not in ("self", "cls")][1]
    from .core import Inliner
    inl = Inliner(fn)
    atoms_ = []  # (lhs text, op, rhs text) of every comparison asserted (chains and `and` expanded, locals substituted)

    def collect(t):
        if isinstance(t, ast.BoolOp) and isinstance(t.op, ast.And):
            for v in t.values:
                collect(v)
        elif isinstance(t, ast.Compare):
            left = t.left
            for op, right in zip(t.ops, t.comparators):
                atoms_.append((inl.src(left), type(op).__name__, inl.src(right)))
                left = right

    for a in walk_no_nested(fn):
        if isinstance(a, ast.Assert):
            collect(a.test)

    def num(x):
        try:
            return float(x)
        except ValueError:
            return None

    sw = f"sum({wparam})"
    upper = any((l == sw and op in ("LtE", "Lt") and num(r) is not None and 1 <= num(r) <= 1.001) or
                (r == sw and op in ("GtE", "Gt") and num(l) is not None and 1 <= num(l) <= 1.001) for l, op, r in atoms_)
    lower = any((l == sw and op in ("GtE", "Gt") and num(r) is not None and 0.999 <= num(r) <= 1) or
                (r == sw and op in ("LtE", "Lt") and num(l) is not None and 0.999 <= num(l) <= 1) for l, op, r in atoms_)
    each = any(l == "0" and op == "LtE" and re.fullmatch(rf"\w+|{wparam}\[\w+\]", r) for l, op, r in atoms_) and \
        any(r == "1" and op == "LtE" and re.fullmatch(rf"\w+|{wparam}\[\w+\]", l) for l, op, r in atoms_)
    rep.check(upper and lower and each, rule,
              "weights-asserted",
              "weights are no longer asserted to lie in [0,1] and to sum to 1 (needed for the mean to stay within the valid range)",
              loc=loc(IU, fn))
    if len(patterns) < 2 + 4 + 8 - 2:
        rep.min_failures.append(f"weighted_average_percentages: only {len(patterns)} accept/reject patterns explored")
    if n_cases < 10:
        raise AnalysisError(f"weighted_average_percentages: only {n_cases} accept/reject patterns explored")
    rep.require_min(rule, 10)


def _decision(dec, tag, op):
    for k, v in dec.items():
        if f"<{tag}>" in k.replace(" ", "").replace("('p',", "<p,").replace(")", ">") or tag.replace(",", ", ") in k or tag in k:
            if k.rstrip().endswith(f"{op} 0") and f"p,{tag.split(',')[1]}" in k.replace(" ", ""):
                return v
    return None


def describe(rep):
    rep.explanation = (
        "Artefact and AST checks. C17.TABLE (exhaustive over all 164 x 211 cells of the shipped combined table): one row per "
        "country of ImportUtilities.country_codes (list algebra evaluated from the AST, with the SWZ->SWT rewrite the merge "
        "script applies), no missing/non-finite values, every `assert country_data[k] OP literal` bound of "
        "verify_country_data (read from its AST), reductions >= -1, seasonality shares in 0..1 summing to one, stocks in "
        "[0,1e10), every loss/waste fraction in 0..1, every non-reduction column non-negative. C17.WIRE: the pipeline script "
        "runs every create script and the merge last; tables written = tables merged = tables shipped, one writer each; the "
        "merge is an inner join on iso3 with null and country-set assertions; every column the model reads exists. C17.AVG: "
        "the averaging helper is abstractly evaluated on symbolic vectors of length 1..3, forking on the rejection predicate; "
        "every accept/reject pattern yields exactly the renormalised weighted mean of the accepted entries (a convex "
        "combination, hence within their range) or the sentinel. NOT decided: that re-running the scripts on the raw data "
        "reproduces the processed and combined tables."
    )
    rep.assumptions = ["CSV parsing of the checked-in artefact; np.isclose default tolerances for the seasonality sum",
                       "weights sum to one (asserted by the helper) so that 1 - rejected weight = accepted weight"]


# ------------------------------------------------------------------------------------------------ sibling columns of the import scripts

def _script_frames(mod):
    """the import script executed abstractly, statement by statement at module level: `pd.read_excel(...)[[raw columns]]` is a frame whose
    column c holds the atom ('raw', c); `df.columns = [...]` renames in order; column stores and loads, loops over literal lists and
    ranges, list comprehensions and string building are evaluated by the interpreter.  -> {frame name: {column: value}} for the frames
    whose every statement was understood (a frame touched by anything else is dropped)"""
    from .symx import Interp, Obj, PDict, PList, Opaque, Unsupported as _U, Abort as _A, Fork as _F
    it = Interp()

    class Src:
        pass

    def hook(interp, d, a, kw, node):
        if d in ("pd.read_excel", "pd.read_csv"):
            return Obj(None, {"_frame_source": True}, "sheet")
        if d in ("print", "pd.ExcelFile", "Path", "git.Repo"):
            return Opaque(d)
        return NotImplemented

    it.call_hook = hook
    orig_getitem, orig_assign = it.getitem, it.assign

    def getitem(obj, key, node):
        if isinstance(obj, Obj) and obj.attrs.get("_frame_source") and isinstance(key, PList) and all(isinstance(k, str) for k in key.items):
            fr = PDict()
            for k in key.items:
                dk = it.dkey(k, node)
                fr.d[dk] = Rat.atom(("raw", k))
                fr.k[dk] = k
            fr.is_frame = True
            return fr
        return orig_getitem(obj, key, node)

    def assign(tgt, val, env):
        if isinstance(tgt, ast.Attribute) and tgt.attr == "columns":
            fr = it.eval(tgt.value, env)
            if isinstance(fr, PDict) and getattr(fr, "is_frame", False) and isinstance(val, PList) and len(val.items) == len(fr.d) \
                    and all(isinstance(k, str) for k in val.items):
                vals = list(fr.d.values())
                fr.d.clear()
                fr.k.clear()
                for k, v in zip(val.items, vals):
                    dk = it.dkey(k, tgt)
                    fr.d[dk] = v
                    fr.k[dk] = k
                return
            raise _U("columns assignment", tgt)
        return orig_assign(tgt, val, env)

    it.getitem, it.assign = getitem, assign
    env = {}
    dropped = set()
    for st in mod.body:
        if isinstance(st, (ast.Import, ast.ImportFrom, ast.FunctionDef, ast.ClassDef)):
            continue
        frames_now = {n for n, v in env.items() if isinstance(v, PDict) and getattr(v, "is_frame", False)}
        names = {n.id for n in ast.walk(st) if isinstance(n, ast.Name)}
        if isinstance(st, ast.Expr) and isinstance(st.value, ast.Call) and isinstance(st.value.func, ast.Attribute) and st.value.func.attr in ("to_csv", "head", "info"):
            continue
        try:
            it.exec(st, env)
        except (_U, _A, _F, Exception):
            dropped |= names & frames_now
            for t in (st.targets if isinstance(st, ast.Assign) else []):
                if isinstance(t, ast.Name):
                    env.pop(t.id, None)
    out = {}
    for n, v in env.items():
        if isinstance(v, PDict) and getattr(v, "is_frame", False) and n not in dropped:
            out[n] = {str(v.k.get(dk, dk)): val for dk, val in v.d.items() if isinstance(val, Rat)}
    return out


def sibling_columns(index, rep):
    """columns of one family written by an import script (stocks_kcals_jan .. stocks_kcals_dec) are derived the same way: each from exactly
    one raw column, all with the same factor"""
    rule = "C17.SIBLING"
    n = 0
    for rel in index.py_files(SCRIPTS):
        if not os.path.basename(rel).startswith("create_"):
            continue
        try:
            frames = _script_frames(index.module(rel))
        except Exception:
            continue
        for fr, cols in frames.items():
            fam = {}
            for c, v in cols.items():
                if "_" in c:
                    fam.setdefault(c.rsplit("_", 1)[0], []).append((c, v))
            for prefix, members in fam.items():
                if len(members) < 6:
                    continue
                n += 1
                factors = {}
                bad = []
                for c, v in members:
                    raws = [a for a in v.atoms() if isinstance(a, tuple) and a and a[0] == "raw"]
                    if len(raws) != 1:
                        bad.append(f"{c} is computed from {len(raws)} raw columns")
                        continue
                    f = v / Rat.atom(raws[0])
                    factors.setdefault(str(f) if f.is_const() else "non-constant", []).append(c)
                if len(factors) > 1:
                    minority = min(factors.items(), key=lambda t: len(t[1]))
                    bad.append(f"{minority[1]} get the factor {minority[0]}, the other columns of the family {max(factors.items(), key=lambda t: len(t[1]))[0]}")
                rep.check(not bad, rule, f"{os.path.basename(rel)}:{fr}:{prefix}_* ({len(members)} columns)",
                          "the columns of one family are not derived alike: " + "; ".join(bad), loc=rel)
    if n < 1:
        raise AnalysisError("no import script with a family of sibling columns was understood")
    rep.require_min(rule, 1)
