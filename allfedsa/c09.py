"""C09 — cropland is neither double-counted nor lost between crops and greenhouses.

  C09.GH     on every path with outdoor growing, production = grown x (1 - greenhouse share of that month) x (1 - distribution
             waste): the greenhouse share reaches the result on ALL paths
  C09.AREA   greenhouse share: zero until delay + lead-in, monotone, at most the configured multiplier (evaluated in c08.delay_greenhouse)
  C09.RELOC  relocation never lowers a month (r>1: m*r, else m*r^e with the in-loop assertion), expanded area multiplies by >= 1
  C09.QUANT  no rounding / truncation on the path from the baselines to the production series (named exception: the tiny-
             negative clamp round(x, 8) for x <= 0); no integer array receives float stores
"""
from __future__ import annotations

import ast

from .core import AnalysisError, loc, norm_src, walk_no_nested, dotted, str_const
from .core import Inliner as _InlQ
from .symx import Interp, Obj, Path, PList, NArr, Unsupported, explore, Abort, MONTH
from .rat import Rat, K
from .nphooks import np_hook
from . import c08

OC = "src/food_system/outdoor_crops.py"
GH = "src/food_system/greenhouses.py"
PARAMS = "src/optimizer/parameters.py"


def run(index, rep):
    rep.guard(gh, index, rep)
    rep.guard(c08.delay_greenhouse, index, rep, "C09.AREA", "C09.AREA")
    rep.guard(reloc, index, rep)
    rep.guard(quant, index, rep)
    # the outdoor series handed to the rounds is what the crop model produced: no exporter, plotter or validator rewrites it in place through
    # a local that is the series' own storage (the rule is C05's; filed here as C09.STATE as well)
    from .c05 import no_alias_writes
    from .core import RuleAlias
    rep.guard(no_alias_writes, index, RuleAlias(rep, lambda r: "C09.STATE" if r == "C05.STATE" else r))


def gh(index, rep):
    rule = "C09.GH"
    cls = index.cls(OC, "OutdoorCrops")
    fn = index.func(OC, "OutdoorCrops.set_crop_production_minus_greenhouse_area")
    gfa = Path(("gfa",))
    results = []
    for rot in (True, False):
        def runit(it, rot=rot):
            it.classes = {"OutdoorCrops": cls}
            it.path_alias = {("c", "OG_USE_BETTER_ROTATION"): rot}
            stores = {}

            def hook(interp, d, a, kw, node):
                if d == "Food":
                    return Obj(None, dict(kw), "food")
                if d == "np.isnan":
                    return Obj(None, {}, "nan-test")
                if d == "np.zeros" and len(a) == 1:
                    return Obj(None, {"_slices": {}}, "array")
                if d == "np.array" and len(a) == 1 and isinstance(a[0], (Path, Rat)):
                    return a[0]
                return np_hook(interp, d, a, kw, node)

            it.call_hook = hook
            orig_assign = it.assign

            def assign(tgt, val, env):
                if isinstance(tgt, ast.Subscript) and isinstance(tgt.slice, ast.Slice):
                    base = it.eval(tgt.value, env)
                    if isinstance(base, Obj) and "_slices" in base.attrs:
                        tag = it.getslice(Path(("x",)), tgt.slice, env, tgt).parts[-1]
                        base.attrs["_slices"][tag] = val
                        return
                return orig_assign(tgt, val, env)

            it.assign = assign
            obj = Obj(cls, {"ADD_OUTDOOR_GROWING": True, "NMONTHS": Rat.atom("N"), "KCALS_GROWN": Path(("grown",)),
                            "NO_RELOCATION_KCALS_GROWN": Path(("grown_norel",)), "CROP_WASTE_DISTRIBUTION": Rat.atom(("Wd",)),
                            "OG_FRACTION_FAT": Rat.atom(("ff",)), "OG_FRACTION_PROTEIN": Rat.atom(("fp",))}, "self")
            from .core import ref_params as _rp9
            pc_, pg_ = _rp9(fn, ["constants_for_params", "greenhouse_fraction_area"])
            env = {fn.args.args[0].arg: obj, pc_: Path(("c",)), pg_: gfa}
            # evaluate up to (not including) the statement that builds the production Food object
            pname, upto = c08.production_split(fn)
            it.exec_block([st for st in fn.body[:upto] if not (isinstance(st, ast.Expr) and isinstance(st.value, ast.Constant))], env)
            return env.get(pname)

        try:
            envs = explore(runit, month_classes=False)
        except Unsupported as e:
            raise AnalysisError(f"set_crop_production_minus_greenhouse_area outside the analysed fragment: {e}")
        for _, dec, res, it in envs:
            if isinstance(res, Abort):
                continue
            results.append((rot, res, it))
    if len(results) < 2:
        raise AnalysisError("crop production: expected a relocation and a no-relocation path")
    for rot, cp, it in results:
        arm = "relocation" if rot else "no-relocation"
        pieces = {}
        if isinstance(cp, Obj) and "_slices" in cp.attrs:
            pieces = dict(cp.attrs["_slices"])
        elif isinstance(cp, (Rat, Path)):
            pieces = {"[:]": cp}
        else:
            rep.violation(rule, f"crops_produced[{arm}]", f"crops_produced is {type(cp).__name__}: not grown x (1 - greenhouse share)", loc=loc(OC, fn))
            continue
        if not pieces:
            rep.violation(rule, f"crops_produced[{arm}]", "nothing is stored into the production array", loc=loc(OC, fn))
        for sl, val in pieces.items():
            v = it.to_rat(val)
            ats = {".".join(a.path): a for a in v.atoms() if isinstance(a, K)}
            grown = [a for k, a in ats.items() if k.startswith(("grown.", "grown_norel.")) or k in ("grown", "grown_norel")]
            share = [a for k, a in ats.items() if k.startswith("gfa")]
            ok = len(grown) == 1 and len(share) == 1 and v == Rat.atom(grown[0]) * (Rat.const(1) - Rat.atom(share[0]))
            if ok:
                # same months on both factors
                gs = grown[0].path[1] if len(grown[0].path) > 1 else "[:]"
                ss = share[0].path[1] if len(share[0].path) > 1 else "[:]"
                ok = gs == ss and (sl == gs or sl == "[:]")
            rep.check(ok, rule, f"crops_produced{sl}[{arm}] = grown x (1 - greenhouse share), same months",
                      "outdoor output on this path is not the amount grown reduced by the greenhouse share of cropland for the same months "
                      "(cropland under greenhouses would be double-counted or lost)", loc=loc(OC, fn), detail=str(v))
    c08.production_form(index, rep, rule)
    # the share passed in is the greenhouse object's share of the same run, the hd split uses the configured delays
    # read in the routine that holds both the greenhouse model and the crop model's call, helpers of the class inlined: the two may sit in
    # one helper (init_greenhouse_params) or be split over helpers called in sequence by compute_parameters_first_round
    def _has(f_, attr):
        return [c for c in walk_no_nested(f_) if isinstance(c, ast.Call) and isinstance(c.func, ast.Attribute) and c.func.attr == attr]
    p = index.func(PARAMS, "Parameters.init_greenhouse_params", required=False)
    if p is None or not _has(p, "set_crop_production_minus_greenhouse_area"):
        p = index.flat_func(PARAMS, "Parameters.compute_parameters_first_round", depth=3)
    call = _has(p, "set_crop_production_minus_greenhouse_area")
    from .core import Inliner as _Inl
    inl_p = _Inl(p)
    from .core import args_by_ref_names as _abn9
    share_e = _abn9(call[0], fn, ["constants_for_params", "greenhouse_fraction_area"])[1] if len(call) == 1 else None
    share_src = inl_p.src(share_e) if share_e is not None else ""
    area_calls = [inl_p.src(c_.func.value) for c_ in walk_no_nested(p) if isinstance(c_, ast.Call) and isinstance(c_.func, ast.Attribute) and c_.func.attr == "get_greenhouse_area"]
    rep.check(len(call) == 1 and len(area_calls) == 1 and share_src == area_calls[0] + ".greenhouse_fraction_area" and share_src.startswith("Greenhouses("), rule,
              "share = this run's greenhouse share",
              "the greenhouse share passed to the crop model is not the Greenhouses object's greenhouse_fraction_area", loc=loc(PARAMS, p))
    rep.require_min(rule, 5)


def reloc(index, rep):
    rule = "C09.RELOC"
    # per-month arms are checked in C08.LOOP (shared evaluation); here: the assertion and the expanded-area multiplier
    c08.loop_rule(index, rep, "C09.RELOC", "C09.RELOC")
    fn = index.flat_func(OC, "OutdoorCrops.assign_increase_from_increased_cultivated_area")   # a helper that builds the ramp is read as part of it
    expanded_area(index, rep, fn, rule)
    cm = index.func(OC, "OutdoorCrops.calculate_monthly_production")
    from .core import bounds_in
    calls = [c_ for c_ in walk_no_nested(cm) if isinstance(c_, ast.Call) and dotted(c_.func) == "self.assign_increase_from_increased_cultivated_area"]
    guard = []
    for c_ in calls:
        # every enclosing `if` whose body holds the call: one of them must bound the ratio from below by (at least) 1
        p_, child = getattr(c_, "_parent", None), c_
        okc = False
        while p_ is not None and p_ is not cm:
            if isinstance(p_, ast.If) and any(child is x for x in p_.body):
                okc = okc or any(k == "lower" and v >= 1 and norm_src(e_) == "constants_for_params['RATIO_INCREASED_CROP_AREA']"
                                 for k, e_, v, strict in bounds_in(p_.test))
            child, p_ = p_, getattr(p_, "_parent", None)
        if okc:
            guard.append(c_)
    guard = guard if len(guard) == len(calls) else []
    rep.check(len(guard) == 1, rule, "expanded area applied only for ratio > 1 (multiplier >= 1)",
              "the expanded-area step can run with a ratio <= 1 (it would lower output)", loc=loc(OC, cm))
    rep.require_min(rule, 3)


def expanded_area(index, rep, fn, rule):
    """every value stored into the multiplier array is >= 1 given ratio > 1 and a ramp end after its start; the grown series is
    multiplied (not replaced / divided) by that array, month by month"""
    from .rat import rat_sign, Interval
    # symbols: N = harvest duration, total = N + t (t > 0), max = 1 + e (e > 0), loop index i = N + k (k >= 0)
    Ns, t_, e_, k_ = Rat.atom(("Nh",)), Rat.atom(("t",)), Rat.atom(("e",)), Rat.atom(("k",))
    alias = {("c", "INITIAL_HARVEST_DURATION_IN_MONTHS"): Ns, ("c", "RATIO_INCREASED_CROP_AREA"): Rat.const(1) + e_,
             ("c", "NUMBER_YEARS_TAKES_TO_REACH_INCREASED_AREA"): (Ns + t_) / Rat.const(12)}
    # whole-array form (np.arange / np.clip / array product): evaluated for the generic entry i and compared with the documented ramp
    from .symx import EIDX, constraints_of, explore, Abort, NArr as _NArr
    from .rat import piecewise_mismatch
    g_ = Rat.atom(("grown-i",))
    i_ = Rat.atom(EIDX)

    def run_generic(itg):
        itg.path_alias = alias

        def hk(interp, d, a, kw, node):
            if d in ("np.array", "list") and len(a) == 1 and isinstance(a[0], _NArr):
                return a[0]
            return np_hook(interp, d, a, kw, node)

        itg.call_hook = hk
        o_ = Obj(None, {"NMONTHS": Rat.atom("N"), "KCALS_GROWN": _NArr([(g_, Rat.atom("N"))])}, "self")
        itg.exec_block([s_ for s_ in fn.body if not (isinstance(s_, ast.Expr) and isinstance(s_.value, ast.Constant))],
                       {"self": o_, fn.args.args[1].arg: Path(("c",))})
        return o_

    try:
        leaves_g = [x for x in explore(run_generic, month_classes=False) if not isinstance(x[2], Abort)]
    except Unsupported:
        leaves_g = []
    gen = []
    for _, dec, o_, itg in leaves_g:
        kg = o_.attrs.get("KCALS_GROWN")
        if isinstance(kg, _NArr) and len(kg.segs) == 1 and itg.to_rat(kg.segs[0][1]) == Rat.atom("N"):
            gen.append((constraints_of(itg, dec), itg.to_rat(kg.segs[0][0]) / g_))
    if gen and len(gen) == len(leaves_g):
        T_ = Ns + t_
        spec = [(None, Ns, Rat.const(1)), (Ns, T_, Rat.const(1) + (i_ - Ns) * e_ / t_), (T_, None, Rat.const(1) + e_)]
        why = piecewise_mismatch(gen, spec, EIDX, extra=[(i_, ">="), (t_, ">"), (e_, ">"), (Ns, ">=")], positive=[("t",), ("e",)], nonneg=[("Nh",), EIDX])
        rep.check(why is None, rule, "expanded area: multiplier starts at >= 1",
                  f"the cultivated-area multiplier of month i is not 1 until the first harvest, then the linear ramp to RATIO_INCREASED_CROP_AREA reached "
                  f"after NUMBER_YEARS_TAKES_TO_REACH_INCREASED_AREA years, then that ratio: {why}", loc=loc(OC, fn))
        rep.check(why is None, rule, "expanded area: stored multiplier >= 1 [whole-array ramp]", f"the ramp is not the documented one: {why}", loc=loc(OC, fn))
        rep.check(why is None, rule, "expanded area: stored multiplier >= 1 [whole-array plateau]", f"the ramp is not the documented one: {why}", loc=loc(OC, fn))
        rep.ok(rule, "expanded area: grown[i] multiplied by multiplier[i]", detail="entry i of the grown series x entry i of the multiplier (evaluated)")
        return
    it = Interp()
    it.path_alias = alias
    it.call_hook = np_hook
    env = {"self": Obj(None, {"NMONTHS": Rat.atom("N"), "KCALS_GROWN": Path(("grown",))}, "self"), fn.args.args[1].arg: Path(("c",))}
    arrays = {}
    stores = []
    zipped = []
    elem_names = {}
    same_as = {}
    INF = float("inf")
    rtab = {("t",): Interval(0, INF, True, True), ("e",): Interval(0, INF, True, True), ("k",): Interval(0, INF, False, True),
            ("Nh",): Interval(0, INF, False, True)}
    ranges = rtab.get
    try:
        for st in fn.body:
            if isinstance(st, ast.Expr) and isinstance(st.value, ast.Constant):
                continue
            if isinstance(st, ast.Assign) and isinstance(st.targets[0], ast.Name):
                v = it.eval(st.value, env)
                env[st.targets[0].id] = v
                if isinstance(st.value, ast.Name) and st.value.id in arrays:
                    same_as[st.targets[0].id] = same_as.get(st.value.id, st.value.id)     # another name for the same array
                    arrays[st.targets[0].id] = arrays[st.value.id]
                elif isinstance(v, NArr):
                    arrays[st.targets[0].id] = [it.to_rat(f) for f, n in v.segs]
                continue
            if isinstance(st, ast.Assign) and isinstance(st.targets[0], ast.Subscript) and isinstance(st.targets[0].value, ast.Name) \
                    and st.targets[0].value.id in arrays:
                stores.append((st.targets[0].value.id, it.to_rat(it.eval(st.value, env)), st))
                continue
            enum_of = None
            if isinstance(st, ast.For) and isinstance(st.target, ast.Tuple) and len(st.target.elts) == 2 and all(isinstance(e__, ast.Name) for e__ in st.target.elts) \
                    and isinstance(st.iter, ast.Call) and dotted(st.iter.func) == "enumerate" and len(st.iter.args) == 1 \
                    and isinstance(st.iter.args[0], ast.Name) and st.iter.args[0].id in arrays:
                # for i, x in enumerate(<multiplier array>): x is element i of that array
                enum_of = (st.target.elts[0].id, st.target.elts[1].id, st.iter.args[0].id)
            if isinstance(st, ast.For) and (isinstance(st.target, ast.Name) or enum_of):
                env2 = dict(env)
                if enum_of:
                    env2[enum_of[0]] = Rat.atom(MONTH)
                    env2[enum_of[1]] = Rat.atom(("elem-of", enum_of[2]))
                    elem_names[enum_of[1]] = enum_of[2]
                else:
                    r = it.eval(st.iter, env)
                    lo = getattr(r, "lo", None)
                    if lo is not None and it.to_rat(lo) == Ns:
                        env2[st.target.id] = Ns + k_
                    else:
                        env2[st.target.id] = Rat.atom(MONTH)
                for s2 in st.body:
                    if isinstance(s2, ast.Assign) and isinstance(s2.targets[0], ast.Subscript):
                        base = s2.targets[0].value
                        if isinstance(base, ast.Name) and base.id in arrays:
                            stores.append((base.id, it.to_rat(it.eval(s2.value, env2)), s2))
                            continue
                        if norm_src(base) == "self.KCALS_GROWN":
                            idx = norm_src(s2.targets[0].slice)
                            val = it.eval(s2.value, env2)
                            stores.append(("KCALS_GROWN", (idx, val, env2), s2))
                            continue
                    raise Unsupported("statement in a loop of the expanded-area routine", s2)
                continue
            if isinstance(st, ast.Assign) and norm_src(st.targets[0]) == "self.KCALS_GROWN":
                # the series re-bound to [x * r for x, r in zip(<series>, <multiplier>)] (possibly wrapped in np.array / list)
                v_ = st.value
                while isinstance(v_, ast.Call) and dotted(v_.func) in ("np.array", "list", "np.asarray") and len(v_.args) == 1:
                    v_ = v_.args[0]
                if isinstance(v_, (ast.ListComp, ast.GeneratorExp)) and len(v_.generators) == 1 and not v_.generators[0].ifs:
                    g0 = v_.generators[0]
                    if isinstance(g0.iter, ast.Call) and dotted(g0.iter.func) == "zip" and len(g0.iter.args) == 2 and isinstance(g0.target, ast.Tuple) \
                            and len(g0.target.elts) == 2 and all(isinstance(x_, ast.Name) for x_ in g0.target.elts) \
                            and isinstance(v_.elt, ast.BinOp) and isinstance(v_.elt.op, ast.Mult) \
                            and {norm_src(v_.elt.left), norm_src(v_.elt.right)} == {x_.id for x_ in g0.target.elts}:
                        zipped.append(([norm_src(a_) for a_ in g0.iter.args], st))
                        continue
            raise Unsupported("statement in the expanded-area routine", st)
    except Unsupported as e:
        raise AnalysisError(f"assign_increase_from_increased_cultivated_area outside the analysed fragment: {e}")
    mult = [a for a in arrays if any(s[0] == a for s in stores) and a not in same_as]
    if len(mult) != 1:
        raise AnalysisError("expanded area: multiplier array not identified")
    m = mult[0]
    init_ok = all(rat_sign(v - Rat.const(1), ranges) in ("0", "+", "+0") for v in arrays[m])
    rep.check(init_ok, rule, "expanded area: multiplier starts at >= 1", "the expanded-area multiplier array is not initialised to values >= 1",
              loc=loc(OC, fn))
    n = 0
    for name, val, st in stores:
        if name != m:
            continue
        n += 1
        sg = rat_sign(val - Rat.const(1), ranges)
        rep.check(sg in ("0", "+", "+0"), rule, f"expanded area: stored multiplier >= 1 [{norm_src(st.targets[0])}]",
                  f"a multiplier below 1 can be stored ({val}): expanding cropland would lower output", loc=loc(OC, st))
    app = [s for s in stores if s[0] == "KCALS_GROWN"]
    ok = len(app) == 1
    if not app and len(zipped) == 1:
        names_m = {m} | {a_ for a_, b_ in same_as.items() if b_ == m}
        srcs = zipped[0][0]
        ok = "self.KCALS_GROWN" in srcs and any(x in srcs for x in names_m)
        rep.check(ok, rule, "expanded area: grown[i] multiplied by multiplier[i]",
                  f"the grown series is not multiplied month by month by the multiplier: the new series is built from {srcs}", loc=loc(OC, zipped[0][1]))
        if n < 2:
            raise AnalysisError("expanded area: fewer than two multiplier stores analysed")
        return
    if ok:
        idx, val, env2 = app[0][1]
        ok = isinstance(val, (Rat, Path)) and any(isinstance(a, K) and a.path[:1] == ("grown",) for a in it.to_rat(val).atoms())
        # value = grown[i] x multiplier[i]: the multiplier's generic element is opaque here, so compare with the source expression
        v_ = app[0][2].value
        sides = [norm_src(v_.left), norm_src(v_.right)] if isinstance(v_, ast.BinOp) and isinstance(v_.op, ast.Mult) else []
        names_m = {m} | {a_ for a_, b_ in same_as.items() if b_ == m}
        mult_elem = [f"{a_}[{idx}]" for a_ in names_m] + [nm for nm, arr_ in elem_names.items() if arr_ in names_m]
        ok = ok and len(sides) == 2 and f"self.KCALS_GROWN[{idx}]" in sides and any(x in sides for x in mult_elem)
    rep.check(ok, rule, "expanded area: grown[i] multiplied by multiplier[i]", "the grown series is not multiplied month by month by the multiplier",
              loc=loc(OC, fn))
    if n < 2:
        raise AnalysisError("expanded area: fewer than two multiplier stores analysed")


QUANT_CALLS = ("round", "int", "np.round", "np.around", "np.rint", "np.floor", "np.ceil", "np.trunc", "math.floor", "math.ceil", "np.fix")


def quant(index, rep):
    rule = "C09.QUANT"
    # the monthly crop output that is published (the csv written for the web interface) is the model's series: the routine that writes it
    # neither rounds it nor formats the floats to a fixed number of decimals
    RUNF = "src/scenarios/run_scenario.py"
    n_csv = 0
    bad = []
    for n in ast.walk(index.module(RUNF)):
        if isinstance(n, ast.Call) and isinstance(n.func, ast.Attribute) and n.func.attr == "to_csv":
            n_csv += 1
            if any(k.arg == "float_format" for k in n.keywords):
                bad.append((n, "float_format"))
            recv = n.func.value
            if isinstance(recv, ast.Call) and isinstance(recv.func, ast.Attribute) and recv.func.attr in ("round", "astype"):
                bad.append((n, norm_src(recv.func)[-30:] + "()"))
    rep.check(n_csv >= 1 and not bad, rule, "published tables: written at full precision",
              "a monthly series is quantised on the way out (" + "; ".join(w for _, w in bad) + "): the published crop output is no longer the model's",
              loc=loc(RUNF, bad[0][0]) if bad else RUNF)
    for rel, clsname, methods in ((OC, "OutdoorCrops", ["__init__", "calculate_rotation_ratios", "calculate_monthly_production",
                                                         "assign_increase_from_increased_cultivated_area", "assign_reduction_from_climate_impact",
                                                         "set_crop_production_minus_greenhouse_area"]),
                                  (GH, "Greenhouses", ["__init__", "assign_productivity_reduction_from_climate_impact", "get_greenhouse_area",
                                                       "get_greenhouse_yield_per_ha"])):
        for m in methods:
            fn = index.func(rel, f"{clsname}.{m}")
            bad = []
            for n in walk_no_nested(fn):
                if isinstance(n, ast.Call):
                    d = dotted(n.func) or ""
                    if d in QUANT_CALLS or (isinstance(n.func, ast.Attribute) and n.func.attr in ("astype", "round")):
                        if _is_tiny_negative_clamp(n) or _in_assert_or_range(n):
                            continue
                        bad.append(f"{norm_src(n)[:50]} (line {n.lineno})")
                if isinstance(n, ast.BinOp) and isinstance(n.op, ast.FloorDiv):
                    bad.append(f"floor division (line {n.lineno})")
            rep.check(not bad, rule, f"{clsname}.{m}: no rounding/truncation",
                      "monthly quantities are quantised: " + "; ".join(bad), loc=loc(rel, fn))
            # integer arrays receiving stores
            ints = {}
            for s in walk_no_nested(fn):
                if isinstance(s, ast.Assign) and len(s.targets) == 1 and isinstance(s.targets[0], ast.Name) and isinstance(s.value, ast.Call) \
                        and dotted(s.value.func) in ("np.array", "np.asarray") and s.value.args:
                    a = s.value.args[0]
                    if isinstance(a, ast.BinOp) and isinstance(a.op, ast.Mult) and isinstance(a.left, ast.List) and a.left.elts and all(
                            isinstance(e, ast.Constant) and isinstance(e.value, int) and not isinstance(e.value, bool) for e in a.left.elts):
                        if not any(k.arg == "dtype" for k in s.value.keywords):
                            ints[s.targets[0].id] = s
                if isinstance(s, ast.Assign) and len(s.targets) == 1 and isinstance(s.targets[0], ast.Name) and isinstance(s.value, ast.Call) \
                        and dotted(s.value.func) in ("np.zeros", "np.ones", "np.empty", "np.full") and any(
                            k.arg == "dtype" and "int" in norm_src(k.value) for k in s.value.keywords):
                    ints[s.targets[0].id] = s
            # element type of array expressions (a small dtype inference): arange of whole numbers, full(n, <int>), *_like(<int array>),
            # and arithmetic other than true division stay integer; np.piecewise keeps the element type of its first argument
            inl_q = _InlQ(fn)

            def int_typed(e, depth=0):
                if depth > 6:
                    return False
                if isinstance(e, ast.Constant):
                    return isinstance(e.value, int) and not isinstance(e.value, bool)
                if isinstance(e, ast.Name):
                    d_ = inl_q.single(e.id)
                    return d_ is not None and int_typed(d_, depth + 1)
                if isinstance(e, ast.Attribute):
                    return e.attr in ("NMONTHS", "greenhouse_delay")
                if isinstance(e, ast.BinOp):
                    if isinstance(e.op, ast.Div):
                        return False
                    return int_typed(e.left, depth + 1) and int_typed(e.right, depth + 1)
                if isinstance(e, ast.UnaryOp):
                    return int_typed(e.operand, depth + 1)
                if isinstance(e, ast.Call):
                    d_ = dotted(e.func) or ""
                    if any(k.arg == "dtype" for k in e.keywords):
                        return any(k.arg == "dtype" and "int" in norm_src(k.value) for k in e.keywords)
                    if d_ == "np.arange":
                        return bool(e.args) and all(int_typed(a_, depth + 1) for a_ in e.args)
                    if d_ == "np.full" and len(e.args) >= 2:
                        return int_typed(e.args[1], depth + 1)
                    if d_ in ("np.zeros_like", "np.ones_like", "np.empty_like", "np.full_like", "np.copy", "np.piecewise", "np.clip") and e.args:
                        return int_typed(e.args[0], depth + 1)
                    if d_ in ("len", "int", "round") and len(e.args) == 1:
                        return True
                return False

            def fractional(e):
                return any(isinstance(n_, ast.BinOp) and isinstance(n_.op, ast.Div) for n_ in ast.walk(e)) or any(
                    isinstance(n_, ast.Constant) and isinstance(n_.value, float) and n_.value != int(n_.value) for n_ in ast.walk(e))

            for c_ in walk_no_nested(fn):
                if isinstance(c_, ast.Call) and dotted(c_.func) == "np.piecewise" and len(c_.args) >= 3 and int_typed(c_.args[0]):
                    vals = c_.args[2].elts if isinstance(c_.args[2], (ast.List, ast.Tuple)) else [c_.args[2]]
                    if any(fractional(v_) or not (isinstance(v_, ast.Constant) or isinstance(v_, ast.Lambda)) for v_ in vals):
                        bad_pw = norm_src(c_.args[0])[:40]
                        rep.check(False, rule, f"{clsname}.{m}: np.piecewise over whole-number positions `{bad_pw}`",
                                  f"np.piecewise gives its result the element type of its first argument; `{bad_pw}` holds whole numbers (np.arange of "
                                  "integers), so the fractional values computed for each piece are truncated (245.256 -> 245)", loc=loc(rel, c_))
            for name, st in ints.items():
                stores = [s for top in _reachable_after(st, name) for s in ([top] + list(walk_no_nested(top)))
                          if isinstance(s, (ast.Assign, ast.AugAssign)) and any(
                    isinstance(t, ast.Subscript) and norm_src(t.value) == name for t in (s.targets if isinstance(s, ast.Assign) else [s.target]))]
                rep.check(not stores, rule, f"{clsname}.{m}: integer array `{name}` receives no stores",
                          f"`{name}` is created as an integer array ({norm_src(st.value)[:40]}) and then assigned into: float values are truncated to whole "
                          "numbers (8.14 -> 8)", loc=loc(rel, st))
    rep.require_min(rule, 10)


def _reachable_after(st, name):
    """statements that can execute after `st` while `name` still holds the value assigned by `st` (syntactic: the rest of the
    enclosing blocks, whole loop bodies when inside a loop; a plain re-assignment of `name` ends the walk)"""
    out = []
    node = st
    while True:
        parent = getattr(node, "_parent", None)
        if parent is None or isinstance(parent, (ast.FunctionDef, ast.AsyncFunctionDef, ast.ClassDef, ast.Module)) and node is not st and False:
            break
        block = None
        for f in ("body", "orelse", "finalbody", "handlers"):
            b = getattr(parent, f, None)
            if isinstance(b, list) and any(x is node for x in b):
                block = b
        if block is None:
            break
        i = [k for k, x in enumerate(block) if x is node][0]
        for nxt in block[i + 1:]:
            if isinstance(nxt, ast.Assign) and any(isinstance(t, ast.Name) and t.id == name for t in nxt.targets):
                return out
            out.append(nxt)
        if isinstance(parent, (ast.For, ast.While)):
            out.extend(x for x in parent.body if x is not node and x not in out)
        if isinstance(parent, (ast.FunctionDef, ast.AsyncFunctionDef, ast.Module, ast.ClassDef)):
            break
        node = parent
    return out


def _is_tiny_negative_clamp(call):
    """round(x, 8) applied under `if x <= 0:` (or inside an assert about >= 0); or, for a whole series, `x[neg] = np.round(x[neg], 8)` with
    `neg = x <= 0`: only the entries that are not positive are touched, at eight or more decimals"""
    if dotted(call.func) in ("np.round", "np.around") and len(call.args) == 2 and isinstance(call.args[1], ast.Constant) and isinstance(call.args[1].value, int) \
            and call.args[1].value >= 6 and isinstance(call.args[0], ast.Subscript) and isinstance(call.args[0].value, ast.Name):
        x, mask = call.args[0].value.id, call.args[0].slice
        st = getattr(call, "_parent", None)
        if isinstance(st, ast.Assign) and len(st.targets) == 1 and norm_src(st.targets[0]) == norm_src(call.args[0]):
            tests = (f"{x} <= 0", f"{x} < 0")
            if norm_src(mask) in tests:
                return True
            if isinstance(mask, ast.Name):
                fn = st
                while fn is not None and not isinstance(fn, ast.FunctionDef):
                    fn = getattr(fn, "_parent", None)
                defs = [s_.value for s_ in ast.walk(fn) if isinstance(s_, ast.Assign) and any(isinstance(t_, ast.Name) and t_.id == mask.id for t_ in s_.targets)] if fn else []
                if len(defs) == 1 and norm_src(defs[0]) in tests:
                    return True
        return False
    if dotted(call.func) != "round" or len(call.args) != 2 or not (isinstance(call.args[1], ast.Constant) and call.args[1].value >= 6):
        return False
    x = norm_src(call.args[0])
    p = getattr(call, "_parent", None)
    while p is not None:
        if isinstance(p, ast.If) and norm_src(p.test) in (f"{x} <= 0", f"{x} < 0"):
            return True
        if isinstance(p, ast.Assert):
            return True
        p = getattr(p, "_parent", None)
    return False


def _in_assert_or_range(call):
    p = getattr(call, "_parent", None)
    while p is not None:
        if isinstance(p, ast.Assert):
            return True
        if isinstance(p, ast.Call) and dotted(p.func) == "range":
            return True
        if isinstance(p, ast.stmt):
            return False
        p = getattr(p, "_parent", None)
    return False


def describe(rep):
    rep.explanation = (
        "Static analysis of outdoor_crops.py / greenhouses.py. C09.GH: the statement that builds the produced series is abstractly "
        "evaluated on both settings of the relocation flag; every stored piece must be grown[months] x (1 - greenhouse share[same "
        "months]) - an all-paths obligation, so a path that forgets the share is reported; the share is this run's greenhouse area / "
        "total cropland and production = produced x (1 - distribution waste). C09.AREA: the greenhouse share is zero for delay + 5 "
        "months, a non-decreasing ramp from 0 to the configured multiplier, identically zero without greenhouses (symbolic delay). "
        "C09.RELOC: per month relocated = m*r (r>1) or m*r^e with the in-loop assertion relocated >= not relocated; the expanded-area "
        "multiplier ramps from 1 and is applied only for ratio > 1. C09.QUANT: no round/int/floor/astype/floor-division on the path "
        "(named exception: round(x, 8) under x <= 0), and no integer-literal array receives stores. Assumed: relocation exponent in "
        "(0, 1] (data)."
    )
    rep.assumptions = ["POWER_LAW_IMPROVEMENT in (0,1] so that r^e >= r for r <= 1 (data; asserted at run time in the loop)"]
