"""C15 — aggregate fed fraction is a capped, population-weighted mean of the selection."""
from __future__ import annotations

import ast
import csv

from .core import AnalysisError, loc, norm_src, walk_no_nested, dotted
from .symx import Interp, Obj, PList, PDict, Opaque, Path, Unsupported, explore, Abort, canon
from .rat import Rat

RMNT = "src/scenarios/run_model_no_trade.py"
TABLE = "data/no_food_trade/computer_readable_combined.csv"


def run(index, rep):
    rep.guard(acc, index, rep)
    rep.guard(iteration, index, rep)
    rep.guard(sel, index, rep)
    rep.guard(once, index, rep)


def _stores(fn, name):
    out = []
    for st in walk_no_nested(fn):
        if isinstance(st, ast.Assign):
            for t in st.targets:
                for e in ast.walk(t):
                    if isinstance(e, ast.Name) and e.id == name and isinstance(e.ctx, ast.Store):
                        out.append(st)
        elif isinstance(st, ast.AugAssign) and isinstance(st.target, ast.Name) and st.target.id == name:
            out.append(st)
    return out


def acc(index, rep):
    rule = "C15.ACC"
    fn = index.func(RMNT, "ScenarioRunnerNoTrade.run_model_no_trade")
    loops = [s for s in fn.body if isinstance(s, ast.For) and "iterrows()" in norm_src(s.iter)]
    if len(loops) != 1:
        raise AnalysisError("run_model_no_trade: the single pass over no_trade_table.iterrows() was not found")
    loop = loops[0]
    li = fn.body.index(loop)
    ret0 = [r for r in fn.body if isinstance(r, ast.Return)]
    if len(ret0) != 1 or not isinstance(ret0[0].value, (ast.List, ast.Tuple)) or len(ret0[0].value.elts) != 4:
        raise AnalysisError("run_model_no_trade no longer returns [world, net_pop, net_pop_fed, results]")
    # initialisation before the loop
    for name in (norm_src(ret0[0].value.elts[1]), norm_src(ret0[0].value.elts[2])):
        sts = _stores(fn, name)
        inits = [s for s in sts if isinstance(s, ast.Assign) and s in fn.body and fn.body.index(s) < li
                 and isinstance(s.value, ast.Constant) and s.value.value == 0]
        augs = [s for s in sts if isinstance(s, ast.AugAssign)]
        others = [s for s in sts if s not in inits and s not in augs]
        rep.check(len(inits) == 1 and not others and all(isinstance(a.op, ast.Add) and any(a is x for x in ast.walk(loop)) for a in augs), rule,
                  f"{name}:starts-at-zero, changed only inside the country loop",
                  f"{name} must be initialised to 0 before the loop and only ever increased inside it "
                  f"(inits {len(inits)}, +=/other {len(augs)}/{len(others)})", loc=loc(RMNT, fn))
    # returned unmodified in slots 1, 2, 3
    ret = [r for r in fn.body if isinstance(r, ast.Return)]
    ok = len(ret) == 1 and isinstance(ret[0].value, (ast.List, ast.Tuple)) and len(ret[0].value.elts) == 4 and all(
        isinstance(e, ast.Name) for e in ret[0].value.elts)
    rep.check(ok, rule, "return:[world, population, population fed, results] as plain names",
              "the aggregate is not returned as the four accumulated objects themselves (an expression in the return could rescale them)",
              loc=loc(RMNT, fn))
    nested_rets = [r for r in walk_no_nested(fn) if isinstance(r, ast.Return) and r not in fn.body]
    rep.check(not nested_rets, rule, "return:single", "an early return skips part of the aggregation", loc=loc(RMNT, fn))
    # every country has its own entry in the returned results: the key is a column of the country's row as it stands - a name passed through
    # a clean-up or shortening first can be the same for two countries, and the second then overwrites the first
    res_name = norm_src(ret0[0].value.elts[3])
    from .core import Inliner
    key_stores = [st for st in walk_no_nested(loop) if isinstance(st, ast.Assign) and len(st.targets) == 1 and isinstance(st.targets[0], ast.Subscript)
                  and norm_src(st.targets[0].value) == res_name]
    import re as _re15
    row_var = loop.target.elts[1].id if isinstance(loop.target, ast.Tuple) and len(loop.target.elts) == 2 and isinstance(loop.target.elts[1], ast.Name) else None
    for st in key_stores:
        src = Inliner(fn).at(st).src(st.targets[0].slice)
        def is_row(e_):
            """the loop's row, possibly handed through the routines that return the (customised / verified) row"""
            if isinstance(e_, ast.Name):
                return row_var is not None and e_.id == row_var
            return isinstance(e_, ast.Call) and isinstance(e_.func, ast.Attribute) and e_.func.attr in ("apply_custom_parameters", "verify_country_data", "copy") \
                and (any(is_row(a_) for a_ in list(e_.args) + [k_.value for k_ in e_.keywords]) if (e_.args or e_.keywords) else is_row(e_.func.value))
        try:
            k_ = ast.parse(src, mode="eval").body
        except SyntaxError:
            k_ = None
        plain = isinstance(k_, ast.Subscript) and isinstance(k_.slice, ast.Constant) and isinstance(k_.slice.value, str) and is_row(k_.value)
        rep.check(plain, rule, f"results keyed by a column of the row [{src[:50]}]",
                  f"the per-country results are stored under `{src[:80]}`, not under a column of the country's row itself: two countries can get the "
                  "same key and one result silently replaces the other while both are counted in the totals", loc=loc(RMNT, st))
    rep.require_min(rule, 4)


def iteration(index, rep):
    """one pass of the country loop evaluated for a symbolic row and symbolic running totals: every feasible path either skips the
    country for a stated reason and leaves both totals and the results untouched, or adds population to the denominator,
    min(1, ratio) x population to the numerator and stores the country's result - nothing else"""
    from .symx import _Continue
    from .rat import feasible, K
    rule = "C15.ACC"
    fn = index.func(RMNT, "ScenarioRunnerNoTrade.run_model_no_trade")
    cls = index.cls(RMNT, "ScenarioRunnerNoTrade")
    loops = [s for s in fn.body if isinstance(s, ast.For) and "iterrows()" in norm_src(s.iter)]
    if len(loops) != 1:
        raise AnalysisError("run_model_no_trade: the single pass over no_trade_table.iterrows() was not found")
    loop = loops[0]
    unp = [s for s in walk_no_nested(fn) if isinstance(s, ast.Assign) and isinstance(s.value, ast.Call)
           and dotted(s.value.func) == "self.get_countries_to_run_and_skip" and isinstance(s.targets[0], ast.Tuple) and len(s.targets[0].elts) == 2]
    if len(unp) != 1:
        raise AnalysisError("run_model_no_trade: the call that yields (inclusion list, skip list) was not found")
    incl_name, skip_name = (norm_src(e) for e in unp[0].targets[0].elts)
    accs = {}
    for st in walk_no_nested(loop):
        if isinstance(st, ast.AugAssign) and isinstance(st.target, ast.Name):
            accs.setdefault(st.target.id, []).append(st)
    P0, F0 = Rat.atom(("P0",)), Rat.atom(("F0",))
    ratio = Rat.atom(("ratio",))
    neg = {"<": ">=", "<=": ">", ">": "<=", ">=": "<", "==": "!=", "!=": "=="}
    # which names are the two totals: the two returned after `world`
    ret = [r for r in fn.body if isinstance(r, ast.Return)]
    if len(ret) != 1 or not isinstance(ret[0].value, (ast.List, ast.Tuple)) or len(ret[0].value.elts) != 4:
        raise AnalysisError("run_model_no_trade no longer returns [world, net_pop, net_pop_fed, results]")
    world_n, pop_n, fed_n, res_n = (norm_src(e) for e in ret[0].value.elts)

    def runit(it):
        it.classes = {"ScenarioRunnerNoTrade": cls}
        rec = {}

        def hook(interp, d, a, kw, node):
            if d == "self.apply_custom_parameters":
                from .core import values_by_ref_names
                rec["custom_arg"] = values_by_ref_names(index.func(RMNT, "ScenarioRunnerNoTrade.apply_custom_parameters"), a, kw, ["country_data"])[0]
                return Path(("row",))
            if d == "self.verify_country_data":
                rec["verified"] = (list(a) + list(kw.values()))[0]
                return None
            if d in ("np.isnan", "math.isnan", "pd.isna", "pd.isnull"):
                return interp.fork("isnan:" + canon(a[0]))
            if d == "self.run_optimizer_for_country":
                from .core import values_by_ref_names
                rec["opt_arg"] = values_by_ref_names(index.func(RMNT, "ScenarioRunnerNoTrade.run_optimizer_for_country"), a, kw, ["country_data"])[0]
                return (ratio, Opaque("description"), Opaque("interpreted"))
            if d == "self.fill_data_for_map":
                rec["map"] = [canon(x) for x in a]
                helper = index.func(RMNT, "ScenarioRunnerNoTrade.fill_data_for_map")
                if any(isinstance(r_, ast.Return) and r_.value is not None for r_ in ast.walk(helper)):
                    # the helper hands a value back (the loop may use it): followed; what it does to the map object is not modelled
                    prev_hook = interp.call_hook

                    def map_hook(i2, d2, a2, kw2, n2):
                        if d2 == "len" and len(a2) == 1 and isinstance(a2[0], Opaque):
                            return i2.fork("map-has-one-row-for-the-country") and Rat.const(1) or (Rat.const(0) if i2.fork("map-has-no-row-for-the-country") else Rat.const(2))
                        return prev_hook(i2, d2, a2, kw2, n2)

                    interp.call_hook = map_hook
                    orig_assign, orig_getitem = interp.assign, interp.getitem

                    def assign2(tgt, val, env_):
                        if isinstance(tgt, ast.Subscript) and isinstance(interp.eval(tgt.value, env_), Opaque):
                            return None       # a store into the map
                        return orig_assign(tgt, val, env_)

                    def getitem2(obj_, key_, n_):
                        if isinstance(obj_, Opaque):
                            return Opaque(obj_.name + "[]")
                        return orig_getitem(obj_, key_, n_)

                    orig_compare = interp.compare

                    def compare2(op_, a_, b_, n_):
                        if isinstance(a_, Opaque) or isinstance(b_, Opaque):
                            return Opaque("map-mask")        # a row selection of the map table (world[column] == code)
                        return orig_compare(op_, a_, b_, n_)

                    interp.compare = compare2
                    interp.assign, interp.getitem = assign2, getitem2
                    try:
                        return interp.call_function(helper, [Opaque("world")] + list(a[1:]), dict(kw), Obj(cls, {}, "self"), node)
                    finally:
                        interp.call_hook = prev_hook
                        interp.assign, interp.getitem = orig_assign, orig_getitem
                        interp.compare = orig_compare
                return None
            if d in ("print",):
                return None
            if d in ("self.save_all_results_to_csv", "self.save_results_to_csv"):
                rec.setdefault("saved", []).append([canon(x) for x in a])     # writing files does not change what is returned
                return None
            return NotImplemented

        it.call_hook = hook
        env = {"self": Obj(cls, {}, "self"), incl_name: Path(("incl",)), skip_name: Path(("skip",)), pop_n: P0, fed_n: F0, res_n: PDict(),
               world_n: Opaque("world")}
        loaded = {n.id for n in ast.walk(loop) if isinstance(n, ast.Name) and isinstance(n.ctx, ast.Load)}
        for nme in sorted(loaded):
            if nme not in env and nme not in ("np", "self", "print", "len", "str", "float", "round", "math", "pd", "min", "max", "int", "bool"):
                env[nme] = Rat.atom(("n", nme)) if nme in accs else Path(("arg", nme))
        for nme in accs:
            env.setdefault(nme, Rat.atom(("n", nme)))
        it.assign(loop.target, (Opaque("index"), Path(("row0",))), env)
        try:
            it.exec_block(loop.body, env)
        except _Continue:
            return "skipped", env, rec
        return "counted", env, rec

    try:
        leaves = explore(runit, month_classes=False)
    except Unsupported as e:
        raise AnalysisError(f"country loop body outside the analysed fragment: {e}")
    n_counted = n_skipped = 0
    for _, dec, res, it in leaves:
        if isinstance(res, Abort):
            rep.violation(rule, "loop-body:abort", "a path through the country loop ends the process", loc=loc(RMNT, loop))
            continue
        kind, env, rec = res
        cons = [(it.pred_exprs[k][0], it.pred_exprs[k][1] if v else neg[it.pred_exprs[k][1]]) for k, v in dec.items() if k in it.pred_exprs
                and not k.startswith("nonzero:")]
        if not feasible(cons):
            continue
        # stated reasons to leave a country out
        def val(prefix):
            return [v for k, v in dec.items() if k.replace(" ", "").startswith(prefix)]
        incl_active = any(v for k, v in dec.items() if "len" in k and "incl" in k)
        in_incl = [v for k, v in dec.items() if k.replace(" ", "").endswith("inincl")]
        in_skip = [v for k, v in dec.items() if k.replace(" ", "").endswith("inskip")]
        nan_pop = [v for k, v in dec.items() if k.startswith("isnan:") and "population" in k]
        nan_ratio = [v for k, v in dec.items() if k.startswith("isnan:") and "ratio" in k]
        reasons = []
        if incl_active and in_incl and not in_incl[-1]:
            reasons.append("not in the inclusion list")
        if in_skip and in_skip[-1]:
            reasons.append("in the skip list")
        if nan_pop and nan_pop[-1]:
            reasons.append("population is NaN")
        if nan_ratio and nan_ratio[-1]:
            reasons.append("the optimisation failed (NaN)")
        where = ", ".join(f"{k}={'T' if v else 'F'}" for k, v in dec.items())
        got_pop, got_fed = it.to_rat(env[pop_n]), it.to_rat(env[fed_n])
        results = env[res_n]
        if kind == "skipped":
            n_skipped += 1
            ok = bool(reasons)
            rep.check(ok, rule, "skip only for a stated reason" + ("" if ok else f" [{where}]"),
                      f"a selected country with a valid population and result is left out of the aggregate when {where}", loc=loc(RMNT, loop))
            ok2 = got_pop == P0 and got_fed == F0 and isinstance(results, PDict) and not results.d
            rep.check(ok2, rule, "skipped country leaves both totals and the results untouched" + ("" if ok2 else f" [{where}]"),
                      f"a skipped country still changes a total or the results (partial update) when {where}", loc=loc(RMNT, loop),
                      detail=f"pop {got_pop}, fed {got_fed}")
            continue
        n_counted += 1
        rep.check(not reasons, rule, "excluded countries are never counted" + ("" if not reasons else f" [{where}]"),
                  f"a country that is {' / '.join(reasons)} is counted", loc=loc(RMNT, loop))
        row = rec.get("opt_arg")
        popatom = [a for a in (got_pop - P0).atoms() if isinstance(a, K)]
        ok = len(popatom) == 1 and popatom[0].path[-1] == "population" and isinstance(row, Path) and popatom[0].path[:-1] == row.parts \
            and got_pop == P0 + Rat.atom(popatom[0])
        rep.check(ok, rule, "denominator += population of the row that was optimised" + ("" if ok else f" [{where}]"),
                  "net population is not increased by exactly the 'population' of the row handed to the optimiser", loc=loc(RMNT, loop),
                  detail=str(got_pop))
        if ok:
            pop = Rat.atom(popatom[0])
            ge1 = not feasible(cons + [(ratio - Rat.const(1), "<")])
            lt1 = not feasible(cons + [(ratio - Rat.const(1), ">")])
            want = [F0 + pop] if ge1 else []
            want += [F0 + pop * ratio] if lt1 else []
            okf = any(got_fed == w for w in want)
            rep.check(okf, rule, "numerator += min(1, ratio) x population" + ("" if okf else f" [{where}]"),
                      f"population fed is not increased by min(1, fed ratio) x population when {where}", loc=loc(RMNT, loop), detail=str(got_fed))
        rr = dec.get("arg.return_results", None)
        if isinstance(results, PDict):
            keys = list(results.d)
            if rr is False:
                okr = not keys
            else:
                okr = len(keys) == 1 and canon(results.d[keys[0]]) == canon(Opaque("interpreted")) and "country" in str(keys[0])
            rep.check(okr, rule, "result stored once under the country's name" + ("" if okr else f" [{where}]"),
                      "the counted country's result is not stored exactly once under its own name", loc=loc(RMNT, loop), detail=str(keys))
        memb = [k for k in dec if k.replace(" ", "").endswith(("inincl", "inskip"))]
        okm = all(k.replace(" ", "").startswith("row0.iso3") for k in memb)
        rep.check(okm, "C15.SEL", "selection is matched against the row's iso3 code" + ("" if okm else f" [{where}]"),
                  f"the inclusion / skip lists are not tested against the row's iso3 code ({memb})", loc=loc(RMNT, loop))
        tested_len = any("len" in k and "incl" in k for k in dec)
        okt = bool(in_skip) and in_skip[-1] is False and tested_len and (not incl_active or (bool(in_incl) and in_incl[-1] is True))
        rep.check(okt, "C15.SEL", "a country is counted only after passing the inclusion list (when non-empty) and the skip list" +
                  ("" if okt else f" [{where}]"),
                  "a counted path never tested the skip list / the non-empty inclusion list: excluded countries enter the aggregate",
                  loc=loc(RMNT, loop))
    if n_counted < 1 or n_skipped < 3:
        raise AnalysisError(f"country loop: {n_counted} counted / {n_skipped} skipped paths analysed (expected >= 1 / >= 3)")
    # run_optimizer_for_country hands back percent/100 in slot 0
    rofc = index.func(RMNT, "ScenarioRunnerNoTrade.run_optimizer_for_country")
    rets = [r for r in walk_no_nested(rofc) if isinstance(r, ast.Return)]
    from .core import Inliner as _Inl
    inl_r = _Inl(rofc)

    def slot0_ok(r):
        if not (isinstance(r.value, ast.Tuple) and r.value.elts):
            return False
        from .core import through_helpers
        alts = through_helpers({}, inl_r, r.value.elts[0]) or []
        # every way the value can be defined: the interpreted results' percent fed (or NaN after a failed optimisation), divided by 100
        return bool(alts) and all(_re.fullmatch(r"(.+\.run_and_analyze_scenario\(.*\)\.percent_people_fed|\w+\.percent_people_fed|np\.nan) ?(/ ?100(\.0)?|\* ?0\.01)", a_, _re.S)
                                   for a_ in alts)

    import re as _re
    ok = bool(rets) and all(slot0_ok(r) for r in rets)
    rep.check(ok, rule, "ratio:percent/100", "run_optimizer_for_country does not return percent_people_fed / 100 in slot 0", loc=loc(RMNT, rofc))


def _is_min1(block, upto, capname, ratio):
    """capname assigned, before index `upto`, as 1 if ratio >= 1 else ratio (if-statement, conditional expression or min())"""
    for st in reversed(block[:upto]):
        if isinstance(st, ast.If):
            t = norm_src(st.test)
            a = [s for s in st.body if isinstance(s, ast.Assign) and norm_src(s.targets[0]) == capname]
            b = [s for s in st.orelse if isinstance(s, ast.Assign) and norm_src(s.targets[0]) == capname]
            if a and b and len(st.body) == 1 and len(st.orelse) == 1:
                va, vb = norm_src(a[0].value), norm_src(b[0].value)
                if t in (f"{ratio} >= 1", f"{ratio} > 1", f"1 <= {ratio}", f"1 < {ratio}"):
                    return va == "1" and vb == ratio
                if t in (f"{ratio} < 1", f"{ratio} <= 1", f"1 > {ratio}", f"1 >= {ratio}"):
                    return va == ratio and vb == "1"
                return False
        if isinstance(st, ast.Assign) and norm_src(st.targets[0]) == capname:
            v = norm_src(st.value)
            return v in (f"min(1, {ratio})", f"min({ratio}, 1)", f"1 if {ratio} >= 1 else {ratio}", f"1 if {ratio} > 1 else {ratio}",
                         f"{ratio} if {ratio} < 1 else 1", f"{ratio} if {ratio} <= 1 else 1", f"np.minimum(1, {ratio})",
                         f"np.minimum({ratio}, 1)")
    return False


def sel(index, rep):
    """case enumeration over list shapes with symbolic country codes: every '!'-pattern of a 0/1/2/3-element list"""
    rule = "C15.SEL"
    fn = index.func(RMNT, "ScenarioRunnerNoTrade.get_countries_to_run_and_skip")
    cls = index.cls(RMNT, "ScenarioRunnerNoTrade")
    n_cases = 0
    for n in (0, 1, 2, 3):
        elems = [Path((f"c{i}",)) for i in range(n)]

        def runit(it, elems=elems):
            it.classes = {"ScenarioRunnerNoTrade": cls}

            def hook(interp, d, args, kwargs, node):
                if d in ("np.array", "np.asarray") and len(args) == 1 and isinstance(args[0], PList):
                    return args[0]
                return NotImplemented

            it.call_hook = hook
            # methods of symbolic strings / bool lists
            orig_call_bound = it.call_bound

            def call_bound(bm, args, kwargs, node):
                if isinstance(bm.obj, PList) and bm.fn == "all" and not args:
                    return all(interp_truth(it, x) for x in bm.obj.items)
                if isinstance(bm.obj, PList) and bm.fn == "any" and not args:
                    return any(interp_truth(it, x) for x in bm.obj.items)
                return orig_call_bound(bm, args, kwargs, node)

            it.call_bound = call_bound
            obj = Obj(cls, {}, "self")
            return it.call_function(fn, [PList(list(elems))], {}, obj)

        try:
            envs = explore(runit, month_classes=False)
        except Unsupported as e:
            raise AnalysisError(f"get_countries_to_run_and_skip outside the analysed fragment: {e}")
        for _, dec, res, it in envs:
            if isinstance(res, Abort):
                raise AnalysisError("get_countries_to_run_and_skip aborts on a list shape")
            bang = []
            for i in range(n):
                k = f"'!' in c{i}"
                if k not in dec:
                    bang.append(None)
                else:
                    bang.append(dec[k])
            if any(b is None for b in bang):
                # the function never looked at some element: only legitimate for the empty list
                if n != 0:
                    pass
            n_cases += 1
            want_run, want_skip = expected(n, bang)
            got = result_lists(res)
            desc = "[" + ", ".join(("!" if b else "") + f"c{i}" for i, b in enumerate(bang)) + "]"
            rep.check(got == (want_run, want_skip), rule, f"selection{desc}",
                      f"for countries_list {desc} the selection is (run only {got[0]}, skip {got[1]}), expected (run only "
                      f"{want_run}, skip {want_skip}): empty runs all; all '!'-prefixed is an exclusion list with the prefix removed; "
                      "otherwise the un-prefixed entries are an inclusion list", loc=loc(RMNT, fn))
    # caller side: unpack order and the order of the two tests in the loop
    rm = index.func(RMNT, "ScenarioRunnerNoTrade.run_model_no_trade")
    unp = [s for s in walk_no_nested(rm) if isinstance(s, ast.Assign) and isinstance(s.value, ast.Call)
           and dotted(s.value.func) == "self.get_countries_to_run_and_skip"]
    nd = len(rm.args.args) - len(rm.args.defaults)
    cparams = [a.arg for i, a in enumerate(rm.args.args) if "countr" in a.arg and i >= nd and isinstance(rm.args.defaults[i - nd], ast.List)]
    # (the two targets are bound by position in C15.ACC's evaluation of the loop: slot 0 is used as the inclusion list, slot 1 as the skip list)
    ok = len(unp) == 1 and isinstance(unp[0].targets[0], ast.Tuple) and len(unp[0].targets[0].elts) == 2 and all(
        isinstance(e, ast.Name) for e in unp[0].targets[0].elts) and len({e.id for e in unp[0].targets[0].elts}) == 2 and \
        len(cparams) == 1 and norm_src(unp[0].value.args[0]) == cparams[0]
    rep.check(ok, rule, "caller:unpack-order", "run_model_no_trade does not unpack (inclusion list, skip list) in that order from its "
              "countries_list argument", loc=loc(RMNT, rm))
    # the selection helper leaves the caller's list alone (a YAML file's country list is reused for every simulation of the file)
    from .c13 import param_mutations
    pname = [a.arg for a in fn.args.args if a.arg != "self"][0]
    badm = param_mutations(fn, pname)
    rep.check(not badm, rule, "selection helper does not modify the caller's list",
              "get_countries_to_run_and_skip rewrites the list it is given (" + "; ".join(badm[:3]) + "): the next simulation that reuses the "
              "list gets a different selection (an exclusion list turns into an inclusion list)", loc=loc(RMNT, fn))
    # from the YAML file to the model: the list handed over is the file's own setting
    YAMLF = "src/scenarios/run_scenarios_from_yaml.py"
    yf = index.func(YAMLF, "run_scenarios_from_yaml")
    calls = [c for c in walk_no_nested(yf) if isinstance(c, ast.Call) and isinstance(c.func, ast.Attribute) and c.func.attr == "run_model_no_trade"]
    if len(calls) != 1:
        raise AnalysisError("run_scenarios_from_yaml: the call of run_model_no_trade was not found")
    from .core import bind_args as _ba15
    b15 = _ba15(calls[0], rm)
    kwv = [b15["countries_list"]] if "countries_list" in b15 else []
    if len(kwv) != 1 or not isinstance(kwv[0], ast.Name):
        raise AnalysisError("run_scenarios_from_yaml: countries_list is not passed as a plain variable")
    var = kwv[0].id
    defs = [st for st in walk_no_nested(yf) if isinstance(st, (ast.Assign, ast.AugAssign)) and any(
        isinstance(t, ast.Name) and t.id == var for t in (st.targets if isinstance(st, ast.Assign) else [st.target]))]
    okd = bool(defs)
    why = []
    from .core import Inliner
    inl_y = Inliner(yf)
    cfg = yf.args.args[0].arg

    def accepted(e):
        """the file's own `countries` setting, the empty list, or the variable itself wrapped in a list"""
        t = inl_y.src(e).replace('"', "'")
        if t in (f"{cfg}['settings']['countries']", "[]", f"[{var}]", f"list({var})", f"{cfg}['settings'].get('countries', [])",
                 f"{cfg}.get('settings', {{}}).get('countries', [])"):
            return True
        if isinstance(e, ast.IfExp):
            return accepted(e.body) and accepted(e.orelse)
        if isinstance(e, ast.Name) and inl_y.single(e.id) is not None:
            return accepted(inl_y.single(e.id))
        return False

    for st in defs:
        v = norm_src(st.value) if isinstance(st, ast.Assign) else None
        if isinstance(st, ast.Assign) and accepted(st.value):
            continue
        val = st.value if isinstance(st, ast.Assign) else None
        if isinstance(val, ast.ListComp) and len(val.generators) == 1 and not val.generators[0].ifs and norm_src(val.generators[0].iter) == var \
                and isinstance(val.generators[0].target, ast.Name):
            e, c = val.elt, val.generators[0].target.id
            # one element per element, only whitespace/case normalisation
            if norm_src(e) in (c, f"{c}.strip()", f"{c}.upper()", f"{c}.strip().upper()", f"{c}.upper().strip()", f"str({c})"):
                continue
        okd = False
        why.append(f"line {st.lineno}: {norm_src(st)[:70]}")
    muts = param_mutations(yf, var)
    rep.check(okd and not muts, rule, "yaml -> model: the country list is the file's own setting",
              "the country selection is altered between the YAML settings and run_model_no_trade (" + "; ".join(why + muts[:2]) + "): entries can "
              "be dropped or rewritten, and an emptied list means 'run all countries'", loc=loc(YAMLF, yf))
    if n_cases < 15:
        raise AnalysisError(f"selection enumeration produced only {n_cases} cases")
    rep.require_min(rule, 15)


def interp_truth(it, x):
    return it.truth(x)


def expected(n, bang):
    names = [f"c{i}" for i in range(n)]
    if n == 0:
        return [], []
    if all(bang):
        return [], [f"c{i}.replace('!','')" for i in range(n)]
    return [names[i] for i in range(n) if not bang[i]], []


def result_lists(res):
    if isinstance(res, PList):
        items = res.items
    elif isinstance(res, tuple):
        items = list(res)
    else:
        return None

    def names(v):
        out = []
        for x in v.items:
            if isinstance(x, Path):
                out.append(x.key())
            elif isinstance(x, Rat):
                s = str(x)
                # opaque call c0.replace('!','')
                import re
                m = re.search(r"(c\d)\.replace,'!',''", s.replace(" ", ""))
                out.append(f"{m.group(1)}.replace('!','')" if m else s)
            else:
                out.append(canon(x))
        return out

    if len(items) != 2 or not all(isinstance(v, PList) for v in items):
        return None
    return names(items[0]), names(items[1])


def once(index, rep):
    rule = "C15.ONCE"
    with open(index.path(TABLE), newline="") as f:
        rows = list(csv.DictReader(f))
    index.consulted.append(TABLE) if False else None
    for col in ("iso3", "country"):
        vals = [r[col] for r in rows]
        dup = sorted({v for v in vals if vals.count(v) > 1})
        rep.check(not dup, rule, f"table:{col}-unique",
                  f"column {col} has duplicates {dup[:5]}: a selected country would be run twice / overwrite another in the results "
                  "(results are keyed by country name)", loc=TABLE)
    rep.note_analysed("table_rows", len(rows))
    fn = index.func(RMNT, "ScenarioRunnerNoTrade.run_model_no_trade")
    loops = [s for s in ast.walk(fn) if isinstance(s, (ast.For, ast.While)) and any(
        isinstance(c, ast.Call) and dotted(c.func) == "self.run_optimizer_for_country" for c in ast.walk(s))]
    rep.check(len(loops) == 1 and loops[0] in fn.body, rule, "single-pass",
              "the per-country run is not inside exactly one top-level loop over the table (a country could be run more than once)",
              loc=loc(RMNT, fn))
    rep.require_min(rule, 3)


def describe(rep):
    rep.explanation = (
        "Static analysis of run_model_no_trade.py and the shipped country table. C15.ACC: one iteration of the single pass over "
        "the table is abstractly evaluated for a symbolic row and symbolic running totals, forking on every data-dependent test "
        "(selection membership, NaN population, NaN result, ratio >= 1, return_results); every feasible path either leaves the "
        "country out for a stated reason with both totals and the results untouched, or adds the population of the optimised row "
        "to the denominator, min(1, ratio) x that population to the numerator and stores the result once under the country's "
        "name; both totals start at zero, change only inside the loop and are returned as plain names; ratio = percent fed / 100 "
        "of the same "
        "row. C15.SEL: get_countries_to_run_and_skip is abstractly evaluated on lists of 0..3 symbolic country codes, forking "
        "on every '!'-pattern (15 cases), and the returned (inclusion, exclusion) lists are compared with the documented "
        "semantics; the caller unpacks them in that order, and on every counted path of the evaluated iteration the row's iso3 code "
        "was tested against the skip list and the non-empty inclusion list. C15.ONCE: iso3 "
        "and country are unique in the 164-row table and the run sits in one top-level loop. 0 <= aggregate <= 1 then "
        "follows from a non-negative ratio (objective variable has lowBound 0, C01.NONNEG)."
    )
    rep.assumptions = ["the per-country ratio is non-negative (C01.NONNEG) and finite (NaN rows are skipped before accumulation)"]
