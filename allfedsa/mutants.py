"""Mutation / refactoring corpus and runner for the thorough tier.

Each entry edits a scratch copy of /repo (under mktemp, removed afterwards) by exact text
replacement and runs the property's quick check against it (ALLFEDSA_REPO).  A mutant must be
reported by the named rule; a refactor (expect=None) must leave the verdict unchanged.
If the text to replace is no longer present (the repository changed), the entry is `stale`
and skipped - the corpus tests the checker, it is not itself a check of the repository."""
from __future__ import annotations

import concurrent.futures as cf
import json
import os
import shutil
import subprocess
import sys
import tempfile

from .core import REPO, VERIF

OPT = "src/optimizer/optimizer.py"

CORPUS = []


def M(pid, name, file, old, new, expect, nth=0, more=(), copy_data=False):
    """more: further (file, old, new) edits applied with the first one"""
    CORPUS.append(dict(pid=pid, name=name, file=file, old=old, new=new, expect=expect, nth=nth, more=list(more),
                       copy_data=copy_data))


# ---------------------------------------------------------------------------- C01
M("C01", "sf-prev-month-index", OPT,
  'variables["stored_food_start"][month]\n                == variables["stored_food_end"][month - 1]\n            )\n\n        conditions["Stored_Food_Eaten"]',
  'variables["stored_food_start"][month]\n                == variables["stored_food_end"][month]\n            )\n\n        conditions["Stored_Food_Eaten"]',
  "C01.SF")
M("C01", "sf-drop-biofuel-term", OPT,
  '            - variables["stored_food_feed"][month]\n            - variables["stored_food_biofuel"][month]\n        )\n\n        return conditions',
  '            - variables["stored_food_feed"][month]\n        )\n\n        return conditions',
  "C01.SF")
M("C01", "cs-wrong-waste-key", OPT,
  '/ (1 - self.consts_for_optimizer["CELL_SUGAR_RETAIL_WASTE"] / 100)',
  '/ (1 - self.consts_for_optimizer["SCP_RETAIL_WASTE"] / 100)', "C01.CS")
M("C01", "scp-sense-flipped", OPT,
  'total_methane_scp <= self.time_consts["methane_scp"].kcals[month]',
  'total_methane_scp >= self.time_consts["methane_scp"].kcals[month]', "C01.SCP")
M("C01", "lowbound-removed", OPT,
  'return LpVariable(variable_name, lowBound=0)', 'return LpVariable(variable_name)', "C01.NONNEG")
M("C01", "crops-none-left-deleted", OPT,
  '            conditions["Crops_Food_None_Left"] = (\n                variables["crops_food_storage"][month] == 0\n            )',
  '            pass', "C01.TERM")
M("C01", "last-month-off-by-one", OPT,
  '        elif month == self.NMONTHS - 1:  # last month\n            # be sure to eat all the stored food',
  '        elif month == self.NMONTHS:  # last month\n            # be sure to eat all the stored food', "C01.TERM")
M("C01", "monotone-flipped", OPT,
  'conditions["Feed_Decreases"] = feed_sum_previous_month >= feed_sum',
  'conditions["Feed_Decreases"] = feed_sum_previous_month <= feed_sum', "C01.MONO")
M("C01", "intake-before-consumption", OPT,
  '''            if optimization_type == "to_humans":
                (
                    model,
                    variables,
                ) = self.add_total_human_consumption_to_model(
                    model, variables, month, optimization_type
                )

            # Add percentage intake constraints to the model (HAS TO HAPPEN AFTER ADDING TOTAL HUMAN CONSUMPTION)
            model = self.add_percentage_intake_constraints(
                model, variables, month, optimization_type
            )
''',
  '''            # Add percentage intake constraints to the model (HAS TO HAPPEN AFTER ADDING TOTAL HUMAN CONSUMPTION)
            model = self.add_percentage_intake_constraints(
                model, variables, month, optimization_type
            )
            if optimization_type == "to_humans":
                (
                    model,
                    variables,
                ) = self.add_total_human_consumption_to_model(
                    model, variables, month, optimization_type
                )
''', "C01.ORDER")
M("C01", "crop-production-previous-month", OPT,
  '''                == self.time_consts["outdoor_crops"].production.kcals[month]
                + variables["crops_food_storage"][month - 1]
                - variables["crops_food_consumed"][month]
            )
        }
        # Return the conditions''',
  '''                == self.time_consts["outdoor_crops"].production.kcals[month - 1]
                + variables["crops_food_storage"][month - 1]
                - variables["crops_food_consumed"][month]
            )
        }
        # Return the conditions''', "C01.CROP")
M("C01", "meat-ledger-no-waste", OPT,
  '''        ][month] - variables["meat_eaten"][month] * 1 / (
            1 - self.consts_for_optimizer["MEAT_WASTE_RETAIL"] / 100
        )''',
  '''        ][month] - variables["meat_eaten"][month]''', "C01.MEAT")
M("C01", "seaweed-density-bound-dropped", OPT,
  '''        conditions["Seaweed_Wet_On_Farm_Upperbound"] = (
            variables["seaweed_wet_on_farm"][month] <= max_density * built_area
        )''', '', "C01.SW")
M("C01", "seaweed-feed-not-subtracted", OPT,
  '''                - feed_consumed
                - biofuel_consumed
                - (curr_used_area''', '''                - biofuel_consumed
                - (curr_used_area''', "C01.SW")
M("C01", "feed-equality-to-inequality", OPT,
  '''                conditions["Feed_Used"] = (
                    feed_sum == self.time_consts["feed"].kcals[month]
                )''',
  '''                conditions["Feed_Used"] = (
                    feed_sum <= self.time_consts["feed"].kcals[month]
                )''', "C01.FB_EQ")
M("C01", "biofuel-ceiling-uses-feed-ceiling", OPT,
  '''                    <= self.time_consts["max_biofuel_that_could_be_used"].kcals[month]''',
  '''                    <= self.time_consts["max_feed_that_could_be_used"].kcals[month]''', "C01.FB_LE")
M("C01", "feed-sum-forgets-seaweed-kcals", OPT,
  '''            + variables["seaweed_feed"][month]
            * self.consts_for_optimizer["SEAWEED_KCALS"]''',
  '''            + variables["seaweed_feed"][month]''', "C01.FB_EQ")
# refactors that must stay silent
M("C01", "R-reorder-ledger-terms", OPT,
  '''            - variables["stored_food_feed"][month]
            - variables["stored_food_biofuel"][month]
        )

        return conditions''',
  '''            - variables["stored_food_biofuel"][month]
            - variables["stored_food_feed"][month]
        )

        return conditions''', None)
M("C01", "R-scale-scp-constraint", OPT,
  'total_methane_scp <= self.time_consts["methane_scp"].kcals[month]',
  '2 * total_methane_scp <= 2 * self.time_consts["methane_scp"].kcals[month]', None)
M("C01", "R-gross-up-on-other-side", OPT,
  '''        total_cellulosic_sugar = (
            variables["cellulosic_sugar_to_humans"][month]
            * 1
            / (1 - self.consts_for_optimizer["CELL_SUGAR_RETAIL_WASTE"] / 100)
            + variables["cellulosic_sugar_feed"][month]
            + variables["cellulosic_sugar_biofuel"][month]
        )''',
  '''        keep = 1 - self.consts_for_optimizer["CELL_SUGAR_RETAIL_WASTE"] / 100
        total_cellulosic_sugar = (
            variables["cellulosic_sugar_to_humans"][month]
            + keep * variables["cellulosic_sugar_feed"][month]
            + keep * variables["cellulosic_sugar_biofuel"][month]
        ) / keep''', None)
M("C01", "R-eliminate-start-variable", OPT,
  '''        conditions["Stored_Food_Eaten"] = (
            variables["stored_food_end"][month]
            == variables["stored_food_start"][month]
            - variables["stored_food_to_humans"][month]
            * 1
            / (
                1 - self.consts_for_optimizer["STORED_FOOD_WASTE_RETAIL"] / 100
            )  # increase calories, fat, and protein humans consumed by retail waste coefficient
            - variables["stored_food_feed"][month]
            - variables["stored_food_biofuel"][month]
        )

        return conditions''',
  '''        prev = (
            self.consts_for_optimizer["stored_food"].initial_available.kcals
            if month == 0
            else variables["stored_food_end"][month - 1]
        )
        conditions["Stored_Food_Eaten"] = (
            variables["stored_food_end"][month]
            + variables["stored_food_to_humans"][month]
            / (1 - self.consts_for_optimizer["STORED_FOOD_WASTE_RETAIL"] / 100)
            + variables["stored_food_feed"][month]
            + variables["stored_food_biofuel"][month]
            == prev
        )

        return conditions''', None)
M("C01", "R-rename-locals-seaweed", OPT,
  '''            prev_seaweed = variables["seaweed_wet_on_farm"][month - 1]''',
  '''            prev_seaweed = variables["seaweed_wet_on_farm"][month - 1]
            last_month_biomass = prev_seaweed
            prev_seaweed = last_month_biomass''', None)


# ---------------------------------------------------------------------------- C02
M("C02", "objective-loop-skips-month0", OPT,
  """        if optimization_type == "to_humans":
            for month in range(0, self.NMONTHS):
                (
                    model,
                    variables,
                    maximize_constraints,
                ) = self.add_maximize_min_month_objective_to_model(""",
  """        if optimization_type == "to_humans":
            for month in range(1, self.NMONTHS):
                (
                    model,
                    variables,
                    maximize_constraints,
                ) = self.add_maximize_min_month_objective_to_model(""", "C02.OBJ")
M("C02", "sum-drops-fish", OPT,
  """                + self.time_consts["greenhouse_crops"][month].kcals
                + self.time_consts["fish"].to_humans.kcals[month]
            )""",
  """                + self.time_consts["greenhouse_crops"][month].kcals
            )""", "C02.SUM")
M("C02", "sum-milk-previous-month", OPT,
  """                + self.time_consts["milk_kcals"][month]
                + variables["meat_eaten"][month]""",
  """                + self.time_consts["milk_kcals"][month - 1]
                + variables["meat_eaten"][month]""", "C02.SUM")
M("C02", "sum-seaweed-kcals-forgotten", OPT,
  """                + variables["seaweed_to_humans"][month]
                * self.consts_for_optimizer["SEAWEED_KCALS"]
                + self.time_consts["milk_kcals"][month]""",
  """                + variables["seaweed_to_humans"][month]
                + self.time_consts["milk_kcals"][month]""", "C02.SUM")
M("C02", "weights-swapped", OPT,
  """            variables["objective_function"] <= 2 / 3 * feed_sum + biofuel_sum / 3,""",
  """            variables["objective_function"] <= 1 / 3 * feed_sum + biofuel_sum / 3,""", "C02.ANIMAL")
M("C02", "cap-divisor", OPT,
  """                        self.consts_for_optimizer["inputs"][limit_key] / 100
                    )""",
  """                        self.consts_for_optimizer["inputs"][limit_key] / 10
                    )""", "C02.CAPS")
M("C02", "cap-feed-uses-biofuel-charge", OPT,
  """                        kcals_feed_or_biofuel_used = self.time_consts[
                            variable_tag.lower()
                        ].kcals[month]""",
  """                        kcals_feed_or_biofuel_used = self.time_consts[
                            "biofuel"
                        ].kcals[month]""", "C02.CAPS")
M("C02", "pin-seaweed-without-kcals", OPT,
  """                variables["seaweed_to_humans"][month] * seaweed_kcals >= lower_bound""",
  """                variables["seaweed_to_humans"][month] >= lower_bound""", "C02.ANIMAL")
M("C02", "pin-upper-loose", OPT,
  """            upper_bound = 1.00001 * min_consumption""",
  """            upper_bound = 1.01 * min_consumption""", "C02.ANIMAL")
M("C02", "pin-meat-constrains-stored-food", OPT,
  """            condition["Meat_Max_Requirement"] = (
                variables["meat_eaten"][month] <= upper_bound""",
  """            condition["Meat_Max_Requirement"] = (
                variables["stored_food_to_humans"][month] <= upper_bound""", "C02.ANIMAL")
M("C02", "percent-read-after-reoptimisation", OPT,
  """        percent_fed_from_first_optimization = model.objective.value()
        # To determine the allocation of""",
  """        # To determine the allocation of""", "C02.READ",
  more=[(OPT, """        return percent_fed_from_first_optimization
""", """        percent_fed_from_first_optimization = model.objective.value()
        return percent_fed_from_first_optimization
""")])
M("C02", "objective-constraint-reversed", OPT,
  """            variables["objective_function"] <= variables["consumed_kcals"][month],
            maximizer_string,
        )

        if self.consts_for_optimizer["inputs"]["INCLUDE_FAT"]:
            maximizer_string = "Fat_Fed_Month_""" + '"',
  """            variables["objective_function"] >= variables["consumed_kcals"][month],
            maximizer_string,
        )

        if self.consts_for_optimizer["inputs"]["INCLUDE_FAT"]:
            maximizer_string = "Fat_Fed_Month_""" + '"', "C02.OBJ")
M("C02", "R-reorder-sum", OPT,
  """                + self.time_consts["greenhouse_crops"][month].kcals
                + self.time_consts["fish"].to_humans.kcals[month]
            )""",
  """                + self.time_consts["fish"].to_humans.kcals[month]
                + self.time_consts["greenhouse_crops"][month].kcals
            )""", None)
M("C02", "R-weights-rewritten", OPT,
  """            variables["objective_function"] <= 2 / 3 * feed_sum + biofuel_sum / 3,""",
  """            3 * variables["objective_function"] <= 2 * feed_sum + biofuel_sum,""", None)
M("C02", "R-cap-rearranged", OPT,
  """                        condition = (
                            max_fraction_of_consumption
                            * initial_population_minimum_needs
                            >= food_consumption_to_limit * kcal_to_nutrient_ratio
                        )""",
  """                        condition = (
                            food_consumption_to_limit * kcal_to_nutrient_ratio
                            - max_fraction_of_consumption
                            * initial_population_minimum_needs
                            <= 0
                        )""", None)

# ---------------------------------------------------------------------------- C12
M("C12", "absolute-cap", OPT,
  """        conditions = {
            "Methane_SCP": (
                total_methane_scp <= self.time_consts["methane_scp"].kcals[month]
            )
        }""",
  """        conditions = {
            "Methane_SCP": (
                total_methane_scp <= self.time_consts["methane_scp"].kcals[month]
            ),
            "Methane_SCP_Plant_Limit": variables["methane_scp_to_humans"][month] <= 1000,
        }""", "C12.SCALE")
M("C12", "hard-coded-population", OPT,
  """            self.consts_for_optimizer["POP"]
            * self.consts_for_optimizer["KCALS_MONTHLY"]
            / 1e9""",
  """            7.8e9
            * self.consts_for_optimizer["KCALS_MONTHLY"]
            / 1e9""", "C12.SCALE")
M("C12", "production-sign-flipped", OPT,
  """                variables["crops_food_storage"][month]
                == self.time_consts["outdoor_crops"].production.kcals[month]
                - variables["crops_food_consumed"][month]
            )
        }
        # Return the dictionary with the condition and its value""",
  """                variables["crops_food_storage"][month]
                == -self.time_consts["outdoor_crops"].production.kcals[month]
                + variables["crops_food_consumed"][month]
            )
        }
        # Return the dictionary with the condition and its value""", "C12.SIGN")
M("C12", "supply-as-lower-bound", OPT,
  """                total_cellulosic_sugar
                <= self.time_consts["cellulosic_sugar"].kcals[month]""",
  """                total_cellulosic_sugar
                >= self.time_consts["cellulosic_sugar"].kcals[month]""", "C12.SIGN")
M("C12", "fish-subtracted", OPT,
  """                + self.time_consts["fish"].to_humans.kcals[month]
            )
            / self.consts_for_optimizer["BILLION_KCALS_NEEDED"]""",
  """                - self.time_consts["fish"].to_humans.kcals[month]
            )
            / self.consts_for_optimizer["BILLION_KCALS_NEEDED"]""", "C12.SIGN")
M("C12", "R-percent-scaling-rewritten", OPT,
  """            / self.consts_for_optimizer["BILLION_KCALS_NEEDED"]
            * 100,
            "Kcals_Fed_Month_""" + '"',
  """            * 100
            / self.consts_for_optimizer["BILLION_KCALS_NEEDED"],
            "Kcals_Fed_Month_""" + '"', None)

# ---------------------------------------------------------------------------- C10
UCF = "src/food_system/unit_conversions.py"
M("C10", "table-wrong-sibling", UCF,
  '''            "percent people fed per month": billion_kcal_to_percent_fed,''',
  '''            "percent people fed per month": billion_kcal_to_billion_people,''', "C10.TABLE")
M("C10", "table-missing-form", UCF,
  '''            "million dry caloric tons per month": billion_kcal_to_million_dry_caloric_tons,
''', "", "C10.TABLE")
M("C10", "conversion-lane-crossed", UCF,
  '''        fat_conversion = 1 / from_unit_multiplier[1] * to_unit_multiplier[1]''',
  '''        fat_conversion = 1 / from_unit_multiplier[0] * to_unit_multiplier[1]''', "C10.CONV")
M("C10", "conversion-inverted", UCF,
  '''        kcals_conversion = 1 / from_unit_multiplier[0] * to_unit_multiplier[0]''',
  '''        kcals_conversion = from_unit_multiplier[0] / to_unit_multiplier[0]''', "C10.CONV")
M("C10", "form-suffix-swapped", UCF,
  '''            new_units_kcals = to_units_kcals + " each month"''',
  '''            new_units_kcals = to_units_kcals + " per month"''', "C10.FORM")
M("C10", "in-units-lane-crossed", UCF,
  '''            fat=fat_conversion * self.fat,
            protein=protein_conversion * self.protein,
            kcals_units=new_units_kcals,''',
  '''            fat=kcals_conversion * self.fat,
            protein=protein_conversion * self.protein,
            kcals_units=new_units_kcals,''', "C10.FORM")
M("C10", "wrapper-unknown-triple", UCF,
  '''            "kcals per person per day",
            "effective kcals per person per day",
            "effective kcals per person per day",
        )''',
  '''            "effective kcals per person per day",
            "effective kcals per person per day",
            "effective kcals per person per day",
        )''', "C10.FORM")
M("C10", "anchor-needs-scale", UCF,
  '''        self.billion_kcals_needed = self.kcals_monthly * population / 1e9''',
  '''        self.billion_kcals_needed = self.kcals_monthly * population / 1e6''', "C10.ANCHOR")
M("C10", "anchor-fat-needs-without-population", UCF,
  '''        self.thou_tons_fat_needed = self.fat_monthly * population''',
  '''        self.thou_tons_fat_needed = self.fat_monthly''', "C10.ANCHOR")
M("C10", "effective-kcals-uses-fat-daily", UCF,
  '''        billion_people_fat_to_kcals_equivalent = (
            1e9 / conversions.population * conversions.kcals_daily
        )''',
  '''        billion_people_fat_to_kcals_equivalent = (
            1e9 / conversions.population * conversions.fat_daily
        )''', "C10.ANCHOR")
M("C10", "R-sibling-rewritten", UCF,
  '''            "kcals per person per day per month": billion_kcal_to_percent_fed
            * percent_kcal_to_kcals_per_day,''',
  '''            "kcals per person per day per month": billion_kcal_to_billion_people
            * billion_people_to_kcals_equivalent,''', None)
M("C10", "R-conversion-rewritten", UCF,
  '''        kcals_conversion = 1 / from_unit_multiplier[0] * to_unit_multiplier[0]''',
  '''        kcals_conversion = to_unit_multiplier[0] / from_unit_multiplier[0]''', None)
M("C10", "R-days-in-month-changed", UCF,
  '''        self.days_in_month = 30''', '''        self.days_in_month = 30.4375''', None)

# ---------------------------------------------------------------------------- C11
FOODF = "src/food_system/food.py"
M("C11", "revert-F4-units-list", UCF,
  '''        ] = self.get_units_from_list_to_element()

        self.units = [self.kcals_units, self.fat_units, self.protein_units]
''', '''        ] = self.get_units_from_list_to_element()
''', "C11.TS")
M("C11", "revert-F5-mul-labels", FOODF,
  '''                    self.protein * other.protein,
                    kcals_units,
                    fat_units,
                    protein_units,
                )''', '''                    self.protein * other.protein,
                    self.kcals_units,
                    self.fat_units,
                    self.protein_units,
                )''', "C11.MUL")
M("C11", "revert-F6-any-greater", FOODF,
  '''                    (np.array(self.fat - other.fat) > 0).any()
                    and self.conversions.include_fat''', '''                    (np.array(self.fat - other.fat) > 0).any()
                    and self.conversions.exclude_fat''', "C11.PRED")
M("C11", "revert-F6-threshold", FOODF,
  '''            self.kcals >= -threshold
            and (self.fat >= -threshold or self.conversions.exclude_fat)''', '''            self.kcals >= 0
            and (self.fat >= -threshold or self.conversions.exclude_fat)''', "C11.PRED")
M("C11", "revert-F7-guard", FOODF,
  '''        # the units must be the same for the comparison to mean anything
        assert self.units == other.units

''', '', "C11.GUARD")
M("C11", "shift-in-place", FOODF,
  '''        kcals_shifted = np.roll(self.kcals, months)''', '''        kcals_shifted = self.kcals''', "C11.PURE")
M("C11", "div-label-not-ratio", FOODF,
  '''                self.protein / other.protein,
                "ratio",
                "ratio",
                "ratio",''', '''                self.protein / other.protein,
                self.kcals_units,
                self.fat_units,
                self.protein_units,''', "C11.LBL")
M("C11", "get-month-not-relabelled", FOODF,
  '''        food_at_month.set_units_from_list_to_element()
''', '', "C11.LBL")
M("C11", "neg-takes-other-lane-label", FOODF,
  '''            protein=-self.protein,
            kcals_units=self.kcals_units,
            fat_units=self.fat_units,''', '''            protein=-self.protein,
            kcals_units=self.kcals_units,
            fat_units=self.kcals_units,''', "C11.LANE")
M("C11", "running-total-mutates-self", FOODF,
  '''        kcals_copy = copy.deepcopy(self.kcals)''', '''        kcals_copy = self.kcals''', "C11.PURE")
M("C11", "eq-list-arm-uses-any", FOODF,
  '''                (self.kcals == other.kcals).all()
                and (self.fat == other.fat).all()''', '''                (self.kcals == other.kcals).all()
                or (self.fat == other.fat).all()''', "C11.PRED")
M("C11", "mul-ratio-side-swapped", FOODF,
  '''                this_is_the_ratio = self.is_a_ratio()
                other_is_the_ratio = other.is_a_ratio()

                assert (
                    this_is_the_ratio or other_is_the_ratio
                ), "list multiplication only works if one or both is a ratios right now"

                if this_is_the_ratio:
                    kcals_units = other.kcals_units
                    fat_units = other.fat_units
                    protein_units = other.protein_units

                if other_is_the_ratio:
                    kcals_units = self.kcals_units
                    fat_units = self.fat_units
                    protein_units = self.protein_units

                return Food(
                    self.kcals * other.kcals,''', '''                this_is_the_ratio = self.is_a_ratio()
                other_is_the_ratio = other.is_a_ratio()

                assert (
                    this_is_the_ratio or other_is_the_ratio
                ), "list multiplication only works if one or both is a ratios right now"

                if this_is_the_ratio:
                    kcals_units = self.kcals_units
                    fat_units = self.fat_units
                    protein_units = self.protein_units

                if other_is_the_ratio:
                    kcals_units = other.kcals_units
                    fat_units = other.fat_units
                    protein_units = other.protein_units

                return Food(
                    self.kcals * other.kcals,''', "C11.MUL")
M("C11", "R-predicate-rewritten", FOODF,
  '''        return (
            self.kcals > 0
            and (self.fat > 0 or self.conversions.exclude_fat)
            and (self.protein > 0 or self.conversions.exclude_protein)
        )''', '''        fat_ok = self.fat > 0 or not self.conversions.include_fat
        protein_ok = not self.conversions.include_protein or self.protein > 0
        return protein_ok and fat_ok and self.kcals > 0''', None)

M("C11", "sub-lanes-swapped", FOODF,
  '''        return Food(
            kcals, fat, protein, self.kcals_units, self.fat_units, self.protein_units
        )

    @staticmethod
    def get_remaining_food_needed_and_amount_used(''', '''        return Food(
            kcals, protein, fat, self.kcals_units, self.fat_units, self.protein_units
        )

    @staticmethod
    def get_remaining_food_needed_and_amount_used(''', "C11.LANE")
M("C11", "add-assert-dropped", FOODF,
  '''        assert (
            self.units == other.units
        ), "ERROR: adding foods with different units!"  # Check that the units of the two foods are the same
''', '', "C11.GUARD")
M("C11", "R-sub-locals-renamed", FOODF,
  '''        kcals = self.kcals - other.kcals
        fat = self.fat - other.fat
        protein = self.protein - other.protein

        # Create a new Food object with the subtracted nutrient quantities
        return Food(
            kcals, fat, protein, self.kcals_units, self.fat_units, self.protein_units
        )''', '''        k = self.kcals - other.kcals
        f = self.fat - other.fat
        p = self.protein - other.protein

        # Create a new Food object with the subtracted nutrient quantities
        return Food(k, f, p, self.kcals_units, self.fat_units, self.protein_units)''', None)

# ---------------------------------------------------------------------------- C13
SCENF = "src/scenarios/scenarios.py"
RUNF = "src/scenarios/run_scenario.py"
ANIMF = "src/food_system/animal_populations.py"
M("C13", "assert-not-set-removed", SCENF,
  '''        self.scenario_description += "\\nno waste"
        assert not self.WASTE_SET
''', '''        self.scenario_description += "\\nno waste"
''', "C13.ONCE")
M("C13", "flag-never-set", SCENF,
  '''            [0] * constants_for_params["NMONTHS"]
        )

        self.FISH_SET = True
        return time_consts''', '''            [0] * constants_for_params["NMONTHS"]
        )

        return time_consts''', "C13.ONCE")
M("C13", "write-before-assert", SCENF,
  '''        assert not self.MEAT_STRATEGY_SET

        constants_for_params["BREEDING_STRATEGY"] = "reduced"
''', '''        constants_for_params["BREEDING_STRATEGY"] = "reduced"
        assert not self.MEAT_STRATEGY_SET
''', "C13.ONCE")
M("C13", "check-all-set-forgets-flag", SCENF,
  '''        assert self.CULLING_PARAM_SET
        assert self.MEAT_STRATEGY_SET
''', '''        assert self.CULLING_PARAM_SET
''', "C13.ONCE")
M("C13", "unknown-value-accepted", RUNF,
  '''        else:
            scenario_is_correct = False

            assert (
                scenario_is_correct
            ), "You must specify 'fish' key as either zero, nuclear_winter,or baseline"
''', '''        else:
            time_consts_for_params = scenario_loader.set_fish_baseline(
                constants_for_params, time_consts_for_params
            )
''', "C13.DISPATCH")
M("C13", "arm-calls-wrong-family", RUNF,
  '''        elif scenario_option_copy["nutrition"] == "catastrophe":
            constants_for_params = scenario_loader.set_catastrophe_nutrition_profile(
                constants_for_params
            )''', '''        elif scenario_option_copy["nutrition"] == "catastrophe":
            constants_for_params = scenario_loader.set_intake_constraints_to_enabled(
                constants_for_params
            )''', "C13.DISPATCH")
M("C13", "presence-assert-dropped", RUNF,
  '''        assert "cull" in scenario_option.keys(), "You must specify 'cull'"
''', '', "C13.DISPATCH")
M("C13", "caller-dict-mutated", RUNF,
  '''        time_consts_for_params = {}

        # SCALE''', '''        time_consts_for_params = {}
        scenario_option["NMONTHS"] = int(scenario_option["NMONTHS"])

        # SCALE''', "C13.NOMUT")
M("C13", "shallow-copy", RUNF,
  '''        altered_scenario_option = copy.deepcopy(scenario_option)''',
  '''        altered_scenario_option = scenario_option''', "C13.NOMUT")
M("C13", "revert-F8-strip", ANIMF,
  '''key[: -len("_start")]''', '''key.strip("_start")''', "C13.OVERRIDE")
# rstrip("_start") is correct for every *_head column (they end in 'd'): behaviour-preserving on this table
M("C13", "R-override-rstrip", ANIMF,
  '''key[: -len("_start")]''', '''key.rstrip("_start")''', None)
M("C13", "multiplier-misses-a-year", RUNF,
  '''            constants_for_params["RATIO_CROPS_YEAR6"] *= multiplier
''', '', "C13.OVERRIDE")
M("C13", "multiplier-also-scales-grass", RUNF,
  '''            constants_for_params["RATIO_CROPS_YEAR10"] *= multiplier
            try:''', '''            constants_for_params["RATIO_CROPS_YEAR10"] *= multiplier
            constants_for_params["RATIO_GRASSES_YEAR1"] *= multiplier
            try:''', "C13.OVERRIDE")
M("C13", "threshold-override-no-range-check", RUNF,
  '''            assert 0 <= constants_for_params["RATIO_STOCKS_UNTOUCHED"] <= 1
''', '', "C13.OVERRIDE")
M("C13", "shutoff-forgets-biofuel-key", SCENF,
  '''        constants_for_params["DELAY"]["FEED_SHUTOFF_MONTHS"] = 2
        constants_for_params["DELAY"]["BIOFUEL_SHUTOFF_MONTHS"] = 1
''', '''        constants_for_params["DELAY"]["FEED_SHUTOFF_MONTHS"] = 2
''', "C13.EFFECT")
M("C13", "stated-number-changed", SCENF,
  '''        constants_for_params["DELAY"]["FEED_SHUTOFF_MONTHS"] = 3
        constants_for_params["DELAY"]["BIOFUEL_SHUTOFF_MONTHS"] = 2
''', '''        constants_for_params["DELAY"]["FEED_SHUTOFF_MONTHS"] = 3
        constants_for_params["DELAY"]["BIOFUEL_SHUTOFF_MONTHS"] = 3
''', "C13.EFFECT")
M("C13", "ten-percent-becomes-hundred", SCENF,
  '''        constants_for_params["DELAY"]["FEED_SHUTOFF_MONTHS"] = 12
        constants_for_params["DELAY"]["BIOFUEL_SHUTOFF_MONTHS"] = 6
        constants_for_params[
            "MINIMUM_PERCENT_FED_BEFORE_NONHUMAN_CONSUMPTION_ALLOWED"
        ] = 10''', '''        constants_for_params["DELAY"]["FEED_SHUTOFF_MONTHS"] = 12
        constants_for_params["DELAY"]["BIOFUEL_SHUTOFF_MONTHS"] = 6
        constants_for_params[
            "MINIMUM_PERCENT_FED_BEFORE_NONHUMAN_CONSUMPTION_ALLOWED"
        ] = 100''', "C13.EFFECT")
M("C13", "scenario-setter-leaves-flag-undefined", SCENF,
  '''        constants_for_params["OG_USE_BETTER_ROTATION"] = False
        constants_for_params["ADD_CELLULOSIC_SUGAR"] = False
        constants_for_params["ADD_GREENHOUSES"] = False
        constants_for_params["ADD_SEAWEED"] = False
        constants_for_params["RATIO_INCREASED_CROP_AREA"] = 1

        constants_for_params = self.methane_scp(constants_for_params)''', '''        constants_for_params["OG_USE_BETTER_ROTATION"] = False
        constants_for_params["ADD_CELLULOSIC_SUGAR"] = False
        constants_for_params["ADD_SEAWEED"] = False
        constants_for_params["RATIO_INCREASED_CROP_AREA"] = 1

        constants_for_params = self.methane_scp(constants_for_params)''', "C13.EFFECT")
M("C13", "doc-value-renamed", "scenarios/README.md",
  '''    - `dont_eat_culled` - Discards meat''', '''    - `do_not_eat_culled` - Discards meat''', "C13.DOC")
M("C13", "preset-uses-unknown-value", "scenarios/baseline_USA.yaml",
  '''intake_constraints: enabled''', '''intake_constraints: on''', "C13.KEYS", nth=1)
M("C13", "R-setter-order-swapped", SCENF,
  '''    def cull_animals(self, constants_for_params):
        assert not self.CULLING_PARAM_SET
        self.scenario_description += "\\nallow meat and milk consumption"
        constants_for_params["ADD_MEAT"] = True
        constants_for_params["ADD_MILK"] = True''', '''    def cull_animals(self, constants_for_params):
        self.scenario_description += "\\nallow meat and milk consumption"
        assert not self.CULLING_PARAM_SET
        constants_for_params["ADD_MILK"] = True
        constants_for_params["ADD_MEAT"] = True''', None)
M("C13", "R-override-removesuffix", ANIMF,
  '''key[: -len("_start")]''', '''key.removesuffix("_start")''', None)

# ---------------------------------------------------------------------------- C15
RMNTF = "src/scenarios/run_model_no_trade.py"
M("C15", "denominator-before-nan-skip", RMNTF,
  '''            # skip countries with no
            if np.isnan(population):
                continue
''', '''            net_pop += population
            # skip countries with no
            if np.isnan(population):
                continue
''', "C15.ACC", more=[(RMNTF, '''            net_pop_fed += capped_ratio * population
            net_pop += population
''', '''            net_pop_fed += capped_ratio * population
''')])
M("C15", "cap-removed", RMNTF,
  '''            if needs_ratio >= 1:
                capped_ratio = 1
            else:
                capped_ratio = needs_ratio
''', '''            capped_ratio = needs_ratio
''', "C15.ACC")
M("C15", "cap-inverted", RMNTF,
  '''            if needs_ratio >= 1:
                capped_ratio = 1
            else:
                capped_ratio = needs_ratio
''', '''            if needs_ratio >= 1:
                capped_ratio = needs_ratio
            else:
                capped_ratio = 1
''', "C15.ACC")
M("C15", "unweighted-numerator", RMNTF,
  '''            net_pop_fed += capped_ratio * population''', '''            net_pop_fed += capped_ratio''', "C15.ACC")
M("C15", "return-slots-swapped", RMNTF,
  '''        return [world, net_pop, net_pop_fed, results]''', '''        return [world, net_pop_fed, net_pop, results]''', "C15.ACC")
M("C15", "bang-test-inverted", RMNTF,
  '''            for c in countries_list:
                if "!" not in c:
                    exclusive_countries_to_run.append(c)''', '''            for c in countries_list:
                if "!" in c:
                    exclusive_countries_to_run.append(c)''', "C15.SEL")
M("C15", "exclusion-needs-any-not-all", RMNTF,
  '''        if np.array([("!" in c) for c in countries_list]).all():''',
  '''        if np.array([("!" in c) for c in countries_list]).any():''', "C15.SEL")
M("C15", "prefix-not-removed", RMNTF,
  '''                    countries_to_skip.append(c.replace("!", ""))''', '''                    countries_to_skip.append(c)''', "C15.SEL")
M("C15", "returned-lists-swapped", RMNTF,
  '''        return exclusive_countries_to_run, countries_to_skip''', '''        return countries_to_skip, exclusive_countries_to_run''', "C15.SEL")
M("C15", "skip-test-dropped", RMNTF,
  '''            if country_code in countries_to_skip:
                continue
''', '', "C15.SEL")
M("C15", "results-keyed-by-scenario", RMNTF,
  '''                results[country_name] = interpreted_results''', '''                results[title] = interpreted_results''', "C15.ACC")
M("C15", "table-duplicate-row", "data/no_food_trade/computer_readable_combined.csv",
  '''ZWE,''', '''ZMB,''', "C15.ONCE", copy_data=True)
M("C15", "R-cap-as-min", RMNTF,
  '''            if needs_ratio >= 1:
                capped_ratio = 1
            else:
                capped_ratio = needs_ratio
''', '''            capped_ratio = min(1, needs_ratio)
''', None)
M("C15", "R-selection-rewritten", RMNTF,
  '''            for c in countries_list:
                if "!" not in c:
                    exclusive_countries_to_run.append(c)''', '''            exclusive_countries_to_run = [c for c in countries_list if not ("!" in c)]''', None)

# ---------------------------------------------------------------------------- C17
IUF = "src/utilities/import_utilities.py"
TBL = "data/no_food_trade/computer_readable_combined.csv"
M("C17", "row-deleted", TBL, '''\nZWE,''', '''\nXXX_REMOVED,''', "C17.TABLE", copy_data=True)
M("C17", "avg-boundary-inclusive", IUF, '''percentage > 1e5 or percentage < -100:''', '''percentage > 1e5 or percentage <= -100:''', "C17.AVG")
M("C17", "avg-upper-threshold", IUF, '''percentage > 1e5 or percentage < -100:''', '''percentage > 1e4 or percentage < -100:''', "C17.AVG")
M("C17", "avg-unweighted", IUF, '''                mean_value += percentage * weight''', '''                mean_value += percentage''', "C17.AVG")
M("C17", "avg-rejected-weight-lost", IUF, '''                rejected_weighting_sum += weight''', '''                rejected_weighting_sum += 0''', "C17.AVG")
M("C17", "avg-rejected-leaks", IUF, '''            if percentage > 1e5 or percentage < -100:
                # If this is a nonsensical percentage reduction, add the weight to the rejected_weighting_sum
                rejected_weighting_sum += weight''', '''            if percentage > 1e5 or percentage < -100:
                # If this is a nonsensical percentage reduction, add the weight to the rejected_weighting_sum
                rejected_weighting_sum += weight
                mean_value += percentage * weight''', "C17.AVG")
M("C17", "avg-no-renormalisation", IUF, '''        return mean_value / renormalization''', '''        return mean_value''', "C17.AVG")
M("C17", "pipeline-skips-script", "scripts/run_all_imports.sh", '''python create_pulp_csv.py
''', '', "C17.WIRE")
M("C17", "merge-not-last", "scripts/run_all_imports.sh", '''python create_meat_per_animal_csv.py
python import_food_data.py
''', '''python import_food_data.py
python create_meat_per_animal_csv.py
''', "C17.WIRE")
M("C17", "outer-join", "src/import_scripts_no_food_trade/import_food_data.py", '''how="inner"''', '''how="outer"''', "C17.WIRE")
M("C17", "null-assert-dropped", "src/import_scripts_no_food_trade/import_food_data.py", '''assert (
    not df_merged.isnull().values.any()
), "Error: there were null values in computer_readable_combined dataframe"
''', '', "C17.WIRE")
M("C17", "model-reads-unknown-column", "src/scenarios/scenarios.py",
  '''country_data["retail_waste_price_triple"]''', '''country_data["retail_waste_price_tripled"]''', "C17.WIRE")
M("C17", "R-avg-predicate-rewritten", IUF, '''            if percentage > 1e5 or percentage < -100:''',
  '''            if not (-100 <= percentage <= 1e5):''', None)
M("C17", "R-avg-accumulate-reordered", IUF, '''                N_valid_percentages += 1
                mean_value += percentage * weight
                non_rejected_weighting_sum += weight''', '''                non_rejected_weighting_sum += weight
                mean_value += weight * percentage
                N_valid_percentages += 1''', None)

# ---------------------------------------------------------------------------- C14
PARF = "src/optimizer/parameters.py"
M("C14", "seafood-writes-shared-population", "src/food_system/seafood.py",
  '''        self.NMONTHS = constants_for_params["NMONTHS"]''',
  '''        self.NMONTHS = constants_for_params["NMONTHS"]
        Food.conversions.population = constants_for_params["POP"]''', "C14.STATE")
M("C14", "memoised-multipliers", UCF,
  '''        conversions = self.get_conversions()

        billion_kcal_to_billion_people = 1 / conversions.kcals_monthly''',
  '''        conversions = self.get_conversions()
        if hasattr(conversions, "_kcal_multiplier_cache"):
            return conversions._kcal_multiplier_cache
        conversions._kcal_multiplier_cache = None

        billion_kcal_to_billion_people = 1 / conversions.kcals_monthly''', "C14.STATE")
M("C14", "settings-after-scp", PARF,
  '''        constants_out = self.set_nutrition_per_month(constants_out, constants_inputs)
''', '', "C14.RESET", more=[(PARF, '''        constants_out, time_consts, cellulosic_sugar = self.init_cs_params(''',
  '''        constants_out = self.set_nutrition_per_month(constants_out, constants_inputs)
        constants_out, time_consts, cellulosic_sugar = self.init_cs_params(''')])
M("C14", "conditional-reset", UCF,
  '''        self.population = population

        self.NUTRITION_PROPERTIES_ASSIGNED = True''',
  '''        if population is not None:
            self.population = population

        self.NUTRITION_PROPERTIES_ASSIGNED = True''', "C14.RESET")
M("C14", "setting-depends-on-previous", UCF,
  '''        self.kcals_monthly = kcals_daily * self.days_in_month''',
  '''        self.kcals_monthly = max(kcals_daily * self.days_in_month, getattr(self, "kcals_monthly", 0))''', "C14.RESET")
M("C14", "round2-shares-dict", PARF,
  '''        time_consts_round2 = copy.deepcopy(time_consts_round1)''', '''        time_consts_round2 = time_consts_round1''', "C14.FRESH")
M("C14", "module-level-cache", PARF,
  '''class Parameters:''', '''_SEAWEED_CACHE = {}


class Parameters:''', "C14.STATE", more=[(PARF, '''        constants_out = self.init_scenario(constants_out, constants_inputs)
''', '''        constants_out = self.init_scenario(constants_out, constants_inputs)
        _SEAWEED_CACHE[constants_inputs["COUNTRY_CODE"]] = constants_inputs["POP"]
''')])
M("C14", "randomised-tiebreak", OPT,
  '''import sys
import pulp''', '''import sys
import random
import pulp''', "C14.DET", more=[(OPT, '''        PENALTY_COST = 100  # Adjust as needed, this is the weight of the penalty''',
  '''        PENALTY_COST = 100 + random.random()  # Adjust as needed, this is the weight of the penalty''')])
M("C14", "cached-parameters-object", RUNF,
  '''        meat_dictionary_round2 = None
        constants_loader = Parameters()''', '''        meat_dictionary_round2 = None
        constants_loader = self._shared_parameters''', "C14.FRESH",
  more=[(RUNF, '''    def __init__(self):
        pass''', '''    _shared_parameters = Parameters()

    def __init__(self):
        pass''')])
M("C14", "default-arg-written", RMNTF,
  '''        assert len(scenario_option) > 0, "ERROR: a scenario must be specified"''',
  '''        assert len(scenario_option) > 0, "ERROR: a scenario must be specified"
        countries_list.append("!ATA")''', "C14.STATE")
M("C14", "partial-settings-call", "src/optimizer/interpret_results.py",
  '''include_fat=''', '''include_fat_=''', "C14.STATE", nth=1)
M("C14", "R-days-in-month-to-init", UCF,
  '''        self.days_in_month = 30

        self.include_fat = include_fat''', '''        self.include_fat = include_fat''', None,
  more=[(UCF, '''        self.NUTRITION_PROPERTIES_ASSIGNED = False
''', '''        self.NUTRITION_PROPERTIES_ASSIGNED = False
        self.days_in_month = 30
''')])

# ---------------------------------------------------------------------------- C18
M("C18", "remaining-initialised-before-loop", PARF,
  '''        for month_index in range(0, constants_inputs["NMONTHS"]):
            remaining_kcals = food_daily_maximum.kcals
''', '''        remaining_kcals = food_daily_maximum.kcals
        for month_index in range(0, constants_inputs["NMONTHS"]):
''', "C18.GREEDY")
M("C18", "consume-calls-swapped", PARF,
  '''            fish_consumption.append(
                consume(
                    interpreted_results_round1.fish_kcals_equivalent[month_index].kcals
                )
            )
            meat_consumption.append(
                consume(
                    interpreted_results_round1.meat_kcals_equivalent[month_index].kcals
                )
            )''', '''            meat_consumption.append(
                consume(
                    interpreted_results_round1.meat_kcals_equivalent[month_index].kcals
                )
            )
            fish_consumption.append(
                consume(
                    interpreted_results_round1.fish_kcals_equivalent[month_index].kcals
                )
            )''', "C18.ORDER")
M("C18", "fill-donor-not-debited", PARF,
  '''                arr[neg_idx] += adjustment
                arr[i] -= adjustment''', '''                arr[neg_idx] += adjustment''', "C18.RETIME")
M("C18", "fill-amount-not-capped-by-donor", PARF,
  '''                adjustment = min(-arr[neg_idx], arr[i])''', '''                adjustment = -arr[neg_idx]''', "C18.RETIME")
M("C18", "cap-uses-max", PARF,
  '''        if (
            interpreted_results_round1.percent_people_fed
            > MINIMUM_PERCENT_FED_BEFORE_NONHUMAN_CONSUMPTION_ALLOWED
        ):''', '''        if (
            interpreted_results_round1.percent_people_fed
            < MINIMUM_PERCENT_FED_BEFORE_NONHUMAN_CONSUMPTION_ALLOWED
        ):''', "C18.CAP")
M("C18", "cap-fraction-not-divided", PARF,
  '''            kcals_daily_maximum = constants_inputs["NUTRITION"]["KCALS_DAILY"] * (
                interpreted_results_round1.percent_people_fed / 100
            )''', '''            kcals_daily_maximum = constants_inputs["NUTRITION"]["KCALS_DAILY"] * (
                interpreted_results_round1.percent_people_fed
            )''', "C18.CAP")
M("C18", "consume-does-not-reduce", PARF,
  '''                consumed = min(food_kcals, remaining_kcals)
                remaining_kcals -= consumed''', '''                consumed = min(food_kcals, remaining_kcals)
                remaining_kcals -= 0''', "C18.GREEDY")
M("C18", "stored-food-reads-previous-month", PARF,
  '''                    interpreted_results_round1.stored_food_kcals_equivalent[
                        month_index
                    ].kcals''', '''                    interpreted_results_round1.stored_food_kcals_equivalent[
                        month_index - 1
                    ].kcals''', "C18.ORDER")
M("C18", "scp-series-keyed-as-sugar", PARF,
  '''            "methane_scp": Food(
                kcals=scp_consumption,''', '''            "methane_scp": Food(
                kcals=cs_consumption,''', "C18.ORDER")
M("C18", "retime-adjustment-sign", PARF,
  '''        new_round_2_meat_kcals = round_2_meat_kcals + adjustment_to_round2''',
  '''        new_round_2_meat_kcals = round_2_meat_kcals - adjustment_to_round2''', "C18.RETIME")
M("C18", "retime-dominance-assert-dropped", PARF,
  '''        assert np.all(
            strictly_positive_difference >= -0.001
        )  # make sure it's indeed positive within a rounding error
''', '', "C18.RETIME")
M("C18", "bump-can-lower", PARF,
  '''        adjusted_feed_increase = np.maximum(
            np.zeros(len(adjusted_feed_increase)), adjusted_feed_increase
        )
''', '', "C18.BUMP")
M("C18", "R-cap-as-min", PARF,
  '''        if (
            interpreted_results_round1.percent_people_fed
            > MINIMUM_PERCENT_FED_BEFORE_NONHUMAN_CONSUMPTION_ALLOWED
        ):
            kcals_daily_maximum = (
                constants_inputs["NUTRITION"]["KCALS_DAILY"]
                * fraction_to_feed_people_first
            )

        else:
            kcals_daily_maximum = constants_inputs["NUTRITION"]["KCALS_DAILY"] * (
                interpreted_results_round1.percent_people_fed / 100
            )''', '''        if (
            MINIMUM_PERCENT_FED_BEFORE_NONHUMAN_CONSUMPTION_ALLOWED
            >= interpreted_results_round1.percent_people_fed
        ):
            kcals_daily_maximum = (
                interpreted_results_round1.percent_people_fed
                * constants_inputs["NUTRITION"]["KCALS_DAILY"]
                / 100
            )
        else:
            kcals_daily_maximum = (
                fraction_to_feed_people_first
                * constants_inputs["NUTRITION"]["KCALS_DAILY"]
            )''', None)
M("C18", "R-retime-rewritten", PARF,
  '''        new_round_2_meat_kcals = round_2_meat_kcals + adjustment_to_round2''',
  '''        new_round_2_meat_kcals = round_1_meat_kcals + strictly_positive_difference''', None)

# ---------------------------------------------------------------------------- C04
EXTF = "src/optimizer/extract_results.py"
INTF = "src/optimizer/interpret_results.py"
M("C04", "feed-reported-as-eaten", EXTF,
  '''        ) = self.extract_to_humans_feed_and_biofuel(
            variables["stored_food_to_humans"],
            variables["stored_food_feed"],''', '''        ) = self.extract_to_humans_feed_and_biofuel(
            variables["stored_food_feed"],
            variables["stored_food_to_humans"],''', "C04.CHAIN")
M("C04", "seaweed-kcals-ratio-forgotten", EXTF,
  '''            variables["seaweed_biofuel"],
            self.constants["SEAWEED_KCALS"],''', '''            variables["seaweed_biofuel"],
            1,''', "C04.COEF")
M("C04", "floor-loosened", OPT,
  '''        min_value = (
            model.objective.value() * 0.99995
        )  # reach almost the same as objective, but allow for small rounding error if needed

        # Add the constraint for consumed_kcals each month
        for month in range(0, self.NMONTHS):''', '''        min_value = (
            model.objective.value() * 0.995
        )  # reach almost the same as objective, but allow for small rounding error if needed

        # Add the constraint for consumed_kcals each month
        for month in range(0, self.NMONTHS):''', "C04.FLOOR")
M("C04", "floor-skips-first-month", OPT,
  '''        # Add the constraint for consumed_kcals each month
        for month in range(0, self.NMONTHS):
            maximizer_string = (
                "Old_Objective_Month_"''', '''        # Add the constraint for consumed_kcals each month
        for month in range(1, self.NMONTHS):
            maximizer_string = (
                "Old_Objective_Month_"''', "C04.FLOOR")
M("C04", "smoothing-on-unfloored-model", OPT,
  '''        model_smoothing = model.copy()''', '''        model_smoothing = LpProblem(name="smoothing", sense=LpMinimize)''', "C04.FLOOR")
M("C04", "csv-rounded", INTF,
  '''                "fish": np.array(self.fish_kcals_equivalent.kcals),''',
  '''                "fish": np.round(np.array(self.fish_kcals_equivalent.kcals), 1),''', "C04.CSV")
M("C04", "csv-column-swapped", INTF,
  '''                "scp": np.array(self.scp_kcals_equivalent.kcals),''',
  '''                "scp": np.array(self.cell_sugar_kcals_equivalent.kcals),''', "C04.CSV")
M("C04", "split-first-arm-double-counts", EXTF,
  '''                immediately_eaten = cf_produced
                new_stored_crops_eaten = cf_eaten - cf_produced''', '''                immediately_eaten = cf_produced
                new_stored_crops_eaten = cf_eaten''', "C04.SPLIT")
M("C04", "split-unscaled-part", EXTF,
  '''            new_stored_eaten_output.append(new_stored_crops_eaten * conversion)''',
  '''            new_stored_eaten_output.append(new_stored_crops_eaten)''', "C04.SPLIT")
M("C04", "sum-adds-split-series", INTF,
  '''            + self.meat
            + self.milk
        )''', '''            + self.meat
            + self.milk
            + self.new_stored_outdoor_crops
        )''', "C04.SUMSET")
M("C04", "sum-drops-milk", INTF,
  '''            + self.meat
            + self.milk
        )''', '''            + self.meat
        )''', "C04.SUMSET")
M("C04", "percent-from-wrong-extractor-field", INTF,
  '''        self.scp = extracted_results.scp_to_humans.in_units_percent_fed()''',
  '''        self.scp = extracted_results.scp_feed.in_units_percent_fed()''', "C04.CHAIN")
M("C04", "kcals-equivalent-wrong-unit", INTF,
  '''        self.meat_kcals_equivalent = extracted_results.meat.in_units_kcals_equivalent()''',
  '''        self.meat_kcals_equivalent = extracted_results.meat.in_units_percent_fed()''', "C04.CHAIN")
M("C04", "generic-conversion-uses-fat-monthly", EXTF,
  '''            production_kcals,
            ratio_kcals / self.constants["KCALS_MONTHLY"],''', '''            production_kcals,
            ratio_kcals / self.constants["FAT_MONTHLY"],''', "C04.COEF")
M("C04", "headline-from-rounded", INTF,
  '''        humans_fed_sum = self.get_sum_by_adding_to_humans()

        # Get the percentage of people fed and the constraining nutrient.
        (
            self.percent_people_fed,
            self.constraining_nutrient,
        ) = self.get_percent_people_fed(humans_fed_sum)
''', '''''', "C04.SUMSET", more=[(INTF, '''        ) = self.correct_and_validate_rounding_errors()
''', '''        ) = self.correct_and_validate_rounding_errors()
        humans_fed_sum = self.get_sum_by_adding_to_humans()
        (
            self.percent_people_fed,
            self.constraining_nutrient,
        ) = self.get_percent_people_fed(humans_fed_sum)
''')])
M("C04", "R-sum-reordered", INTF,
  '''            self.stored_food
            + self.outdoor_crops
            + self.seaweed''', '''            self.seaweed
            + self.outdoor_crops
            + self.stored_food''', None)
M("C04", "R-split-rewritten", EXTF,
  '''            if cf_produced <= cf_eaten:
                immediately_eaten = cf_produced
                new_stored_crops_eaten = cf_eaten - cf_produced
            else:
                immediately_eaten = cf_eaten
                new_stored_crops_eaten = 0''', '''            if cf_eaten < cf_produced:
                new_stored_crops_eaten = 0
                immediately_eaten = cf_eaten
            else:
                new_stored_crops_eaten = cf_eaten - cf_produced
                immediately_eaten = cf_eaten - new_stored_crops_eaten''', None)

M("C04", "split-vectorised-drops-small-draws", EXTF,
  '        immediately_eaten_output = []\n        new_stored_eaten_output = []\n        cf_produced_output = []\n        for month in range(0, self.constants["NMONTHS"]):\n            cf_produced = crops_kcals_produced[month]\n            cf_produced_output.append(cf_produced)\n            # print("")\n            # print("cf_produced")\n            # print(cf_produced)\n            cf_eaten = crops_food_eaten[month].varValue\n            # print("cf_eaten")\n            # print(cf_eaten)\n\n            if cf_produced <= cf_eaten:\n                immediately_eaten = cf_produced\n                new_stored_crops_eaten = cf_eaten - cf_produced\n            else:\n                immediately_eaten = cf_eaten\n                new_stored_crops_eaten = 0\n            # print("immediately_eaten")\n            # print(immediately_eaten)\n            # print("new_stored_crops_eaten")\n            # print(new_stored_crops_eaten)\n            immediately_eaten_output.append(immediately_eaten * conversion)\n            new_stored_eaten_output.append(new_stored_crops_eaten * conversion)\n',
  '        NMONTHS = self.constants["NMONTHS"]\n        cf_produced = np.array(crops_kcals_produced[:NMONTHS], dtype=float)\n        cf_eaten = np.array(\n            [crops_food_eaten[month].varValue for month in range(0, NMONTHS)]\n        )\n        immediately_eaten = np.minimum(cf_produced, cf_eaten)\n        new_stored_crops_eaten = np.where(cf_eaten - cf_produced > 0.5, cf_eaten - cf_produced, 0)\n        immediately_eaten_output = list(immediately_eaten * conversion)\n        new_stored_eaten_output = list(new_stored_crops_eaten * conversion)\n', "C04.SPLIT")
M("C04", "R-split-vectorised", EXTF,
  '        immediately_eaten_output = []\n        new_stored_eaten_output = []\n        cf_produced_output = []\n        for month in range(0, self.constants["NMONTHS"]):\n            cf_produced = crops_kcals_produced[month]\n            cf_produced_output.append(cf_produced)\n            # print("")\n            # print("cf_produced")\n            # print(cf_produced)\n            cf_eaten = crops_food_eaten[month].varValue\n            # print("cf_eaten")\n            # print(cf_eaten)\n\n            if cf_produced <= cf_eaten:\n                immediately_eaten = cf_produced\n                new_stored_crops_eaten = cf_eaten - cf_produced\n            else:\n                immediately_eaten = cf_eaten\n                new_stored_crops_eaten = 0\n            # print("immediately_eaten")\n            # print(immediately_eaten)\n            # print("new_stored_crops_eaten")\n            # print(new_stored_crops_eaten)\n            immediately_eaten_output.append(immediately_eaten * conversion)\n            new_stored_eaten_output.append(new_stored_crops_eaten * conversion)\n',
  '        NMONTHS = self.constants["NMONTHS"]\n        cf_produced = np.array(crops_kcals_produced[:NMONTHS], dtype=float)\n        cf_eaten = np.array(\n            [crops_food_eaten[month].varValue for month in range(0, NMONTHS)]\n        )\n        immediately_eaten = np.minimum(cf_produced, cf_eaten)\n        new_stored_crops_eaten = np.maximum(cf_eaten - cf_produced, 0)\n        immediately_eaten_output = list(immediately_eaten * conversion)\n        new_stored_eaten_output = list(new_stored_crops_eaten * conversion)\n', None)
M("C04", "table-kept-when-file-exists", INTF,
  '''            file_location = str(Path(repo_root) / "results" / filename)
            df.to_csv(file_location)''', '''            file_location = str(Path(repo_root) / "results" / filename)
            if not os.path.exists(file_location):
                df.to_csv(file_location)''', "C04.CSV")
# ---------------------------------------------------------------------------- C03
FABF = "src/food_system/feed_and_biofuels.py"
VALF = "src/optimizer/validate_results.py"
M("C03", "return-tuple-names-swapped", FABF,
  '''        return (
            biofuels,
            feed,
        )''', '''        return (
            feed,
            biofuels,
        )''', "C03.SHUT")
M("C03", "tail-not-zero", FABF,
  '''        feed_kcals = np.array(
            [self.feed_monthly_usage.kcals] * feed_duration
            + [0] * (self.NMONTHS - feed_duration)
        )''', '''        feed_kcals = np.array(
            [self.feed_monthly_usage.kcals] * feed_duration
            + [self.feed_monthly_usage.kcals] * (self.NMONTHS - feed_duration)
        )''', "C03.SHUT")
M("C03", "biofuel-one-month-longer", FABF,
  '''        biofuels_kcals = [self.biofuel_monthly_usage.kcals] * biofuel_duration + [0] * (
            self.NMONTHS - biofuel_duration
        )''', '''        biofuels_kcals = [self.biofuel_monthly_usage.kcals] * (biofuel_duration + 1) + [0] * (
            self.NMONTHS - biofuel_duration - 1
        )''', "C03.SHUT")
M("C03", "feed-uses-biofuel-delay", FABF,
  '''        feed_duration = constants_for_params["DELAY"]["FEED_SHUTOFF_MONTHS"]''',
  '''        feed_duration = constants_for_params["DELAY"]["BIOFUEL_SHUTOFF_MONTHS"]''', "C03.SHUT")
M("C03", "first-round-hand-off-crossed", PARF,
  '''            meat_dictionary_round1,
            feed_demand,  # the actual demand asked for by the user
            biofuels_demand,  # the actual demand asked for by the user
            feed_meat_object_round1,
        )''', '''            meat_dictionary_round1,
            biofuels_demand,  # the actual demand asked for by the user
            feed_demand,  # the actual demand asked for by the user
            feed_meat_object_round1,
        )''', "C03.WIRE")
M("C03", "validator-call-removed-round2", RUNF,
  '''                Validator.assert_feed_used_below_feed_demand(
                    feed_demand, interpreted_results_round2, round=2
                )
''', '', "C03.WIRE")
M("C03", "validator-only-prints", VALF,
  '''        assert np.all((feed_demand - reduced_feed_correct_units).kcals > -1e-6), (''',
  '''        if not np.all((feed_demand - reduced_feed_correct_units).kcals > -1e-6): print(''', "C03.WIRE")
M("C03", "validator-compares-wrong-way", VALF,
  '''        assert np.all(
            (biofuels_demand - reduced_biofuels_correct_units).kcals > -1e-6
        ), (''', '''        assert np.all(
            (reduced_biofuels_correct_units - biofuels_demand).kcals > -1e-6
        ), (''', "C03.WIRE")
M("C03", "feed-sum-forgets-stored-food", VALF,
  '''            "outdoor_crops_feed",
            "stored_food_feed",
        ]''', '''            "outdoor_crops_feed",
        ]''', "C03.WIRE")
M("C03", "round3-validated-on-round2-results", RUNF,
  '''        Validator.assert_feed_used_below_feed_demand(
            feed_demand, interpreted_results_round3, round=3
        )''', '''        Validator.assert_feed_used_below_feed_demand(
            feed_demand, interpreted_results_for_round3, round=3
        )''', "C03.WIRE")
M("C03", "round2-biofuel-ceiling-is-feed", PARF,
  '''        time_consts_round2["max_biofuel_that_could_be_used"] = biofuels_demand''',
  '''        time_consts_round2["max_biofuel_that_could_be_used"] = feed_demand''', "C03.CEIL")
M("C03", "round2-pins-nothing", RUNF,
  '''            optimization_type="to_animals",
            min_human_food_consumption=min_human_food_consumption,''', '''            optimization_type="to_animals",
            min_human_food_consumption=interpreted_results_round1.min_human_food_consumption,''', "C03.PIN")
M("C03", "bump-ceilings-crossed", PARF,
  '''                biofuels_demand.in_units_bil_kcals_thou_tons_thou_tons_per_month().kcals,
                feed_demand.in_units_bil_kcals_thou_tons_thou_tons_per_month().kcals,''',
  '''                feed_demand.in_units_bil_kcals_thou_tons_thou_tons_per_month().kcals,
                biofuels_demand.in_units_bil_kcals_thou_tons_thou_tons_per_month().kcals,''', "C03.R3")
M("C03", "round3-feed-scaled-up", PARF,
  '''            feed_sum_billion_kcals = feed_sum_billion_kcals * 0.999999999''',
  '''            feed_sum_billion_kcals = feed_sum_billion_kcals * 1.05''', "C03.R3")
M("C03", "interpreter-feed-biofuel-crossed", INTF,
  '''        self.scp_feed = methane_scp_used_for_feed.in_units_percent_fed()''',
  '''        self.scp_feed = methane_scp_used_for_biofuel.in_units_percent_fed()''', "C03.WIRE")
M("C03", "R-first-round-names-fixed", PARF,
  '''            feed_biofuels_class,  # zero feed, zero biofuel
            biofuels_demand,  # biofuels requested by the user
            feed_demand,  # feed requested by the user
            meat_dictionary_round1,  # meat if no feed were available
            feed_meat_object_round1,
        ) = self.init_meat_and_dairy_and_feed_from_breeding_and_subtract_feed_biofuels_round1(''',
  '''            feed_biofuels_class,  # zero feed, zero biofuel
            meat_dictionary_round1,  # meat if no feed were available
            feed_demand,  # feed requested by the user
            biofuels_demand,  # biofuels requested by the user
            feed_meat_object_round1,
        ) = self.init_meat_and_dairy_and_feed_from_breeding_and_subtract_feed_biofuels_round1(''', None,
  more=[(PARF, '''            feed_biofuels_class,  # zero feed, zero biofuel
            biofuels_demand,  # biofuels requested by the user
            feed_demand,  # feed requested by the user
            meat_dictionary_round1,
            feed_meat_object_round1,
        )

    def get_second_round_kcals_with_redistributed_meat(''', '''            feed_biofuels_class,  # zero feed, zero biofuel
            meat_dictionary_round1,
            feed_demand,  # feed requested by the user
            biofuels_demand,  # biofuels requested by the user
            feed_meat_object_round1,
        )

    def get_second_round_kcals_with_redistributed_meat(''')])
M("C03", "R-demand-built-with-helper-local", FABF,
  '''        biofuels_fat = [self.biofuel_monthly_usage.fat] * biofuel_duration + [0] * (
            self.NMONTHS - biofuel_duration
        )''', '''        months_off = self.NMONTHS - biofuel_duration
        biofuels_fat = [self.biofuel_monthly_usage.fat] * biofuel_duration + [0] * months_off''', None)

# ---------------------------------------------------------------------------- C05
MDF = "src/food_system/meat_and_dairy.py"
M("C05", "pigs-use-chicken-yield", MDF,
  '''            + init_pigs_culled * self.KCALS_PER_PIG
            + init_small_animals_nonchicken_culled * self.KCALS_PER_SMALL_ANIMAL''',
  '''            + init_pigs_culled * self.KCALS_PER_CHICKEN
            + init_small_animals_nonchicken_culled * self.KCALS_PER_SMALL_ANIMAL''', "C05.MEAT")
M("C05", "distribution-waste-dropped", MDF,
  '''            initial_meat_prewaste * (1 - self.MEAT_WASTE_DISTRIBUTION / 100),''', '''            initial_meat_prewaste,''', "C05.MEAT")
M("C05", "retail-waste-applied-twice", MDF,
  '''            initial_meat_prewaste * (1 - self.MEAT_WASTE_DISTRIBUTION / 100),''',
  '''            initial_meat_prewaste * (1 - self.MEAT_WASTE_DISTRIBUTION / 100) * (1 - self.MEAT_WASTE_RETAIL / 100),''', "C05.MEAT")
M("C05", "pig-yield-uses-small-kcal", MDF,
  '''            self.MEDIUM_ANIMAL_KCALS_PER_KG * constants_inputs["KG_MEAT_PER_PIG"] / 1e9''',
  '''            self.SMALL_ANIMAL_KCALS_PER_KG * constants_inputs["KG_MEAT_PER_PIG"] / 1e9''', "C05.MEAT")
M("C05", "monthly-series-off-by-one", MDF,
  '''                init_pigs_culled=pigs_culled[m],''', '''                init_pigs_culled=pigs_culled[m - 1],''', "C05.MEAT")
M("C05", "milk-retail-waste-dropped", MDF,
  '''            * self.MILK_KCALS
            / 1e9
            * (1 - self.MILK_WASTE_DISTRIBUTION / 100)
            * (1 - self.MILK_WASTE_RETAIL / 100)''', '''            * self.MILK_KCALS
            / 1e9
            * (1 - self.MILK_WASTE_DISTRIBUTION / 100)''', "C05.MILK")
M("C05", "milk-annual-not-monthly", PARF,
  '''            * constants_inputs["MILK_YIELD_KG_PER_MILK_BEARING_ANIMAL_PER_YEAR"]
            / 12
            / 1000''', '''            * constants_inputs["MILK_YIELD_KG_PER_MILK_BEARING_ANIMAL_PER_YEAR"]
            / 1000''', "C05.MILK")
M("C05", "milk-herd-is-dairy-cows-only", PARF,
  '''        dairy_population = feed_meat_object.get_total_milk_bearing_animals()''',
  '''        dairy_population = feed_meat_object.get_total_dairy_cows()''', "C05.MILK")
M("C05", "medium-arm-feeds-large-lane", ANIMF,
  '''                animals_killed_for_meat_medium_nonpig += np.array(
                    animal.slaughter
                )''', '''                animals_killed_for_meat_large += np.array(
                    animal.slaughter
                )''', "C05.CLASS")
M("C05", "return-order-swapped", ANIMF,
  '''            animals_killed_for_meat_small_nonchicken,
            animals_killed_for_meat_medium_nonpig,
            animals_killed_for_meat_large,
        )''', '''            animals_killed_for_meat_medium_nonpig,
            animals_killed_for_meat_small_nonchicken,
            animals_killed_for_meat_large,
        )''', "C05.CLASS")
M("C05", "R-priority-chain-redundant-conjunct-dropped", ANIMF,
  '''            elif animal.animal_size == "medium" and animal.animal_type != "pig":
                kcals_per_head_meat = kcals_per_head_meat_dict[''', '''            elif animal.animal_size == "medium":
                kcals_per_head_meat = kcals_per_head_meat_dict[''', None)
M("C05", "priority-chain-pig-test-after-size", ANIMF,
  '''            elif animal.animal_type == "pig":
                kcals_per_head_meat = kcals_per_head_meat_dict["KCALS_PER_PIG"]
            elif animal.animal_size == "small" and animal.animal_type != "chicken":
                kcals_per_head_meat = kcals_per_head_meat_dict["KCALS_PER_SMALL_ANIMAL"]
            elif animal.animal_size == "medium" and animal.animal_type != "pig":''',
  '''            elif animal.animal_size == "small" and animal.animal_type != "chicken":
                kcals_per_head_meat = kcals_per_head_meat_dict["KCALS_PER_SMALL_ANIMAL"]
            elif animal.animal_size == "medium":
                kcals_per_head_meat = kcals_per_head_meat_dict["KCALS_PER_MEDIUM_ANIMAL"]
            elif animal.animal_type == "pig":
                kcals_per_head_meat = kcals_per_head_meat_dict["KCALS_PER_PIG"]
            elif animal.animal_size == "medium" and animal.animal_type != "pig":''', "C05.CLASS")
M("C05", "running-total-of-other-series", PARF,
  '''        time_consts["max_consumed_culled_kcals_each_month"] = (
            each_month_meat_slaughtered.get_running_total_nutrients_sum().kcals
        )''', '''        time_consts["max_consumed_culled_kcals_each_month"] = (
            each_month_meat_slaughtered.kcals
        )''', "C05.CLASS")
M("C05", "round3-charges-round2-feed-sum", PARF,
  '''        time_consts_round3["feed"] = feed_used_round3''', '''        time_consts_round3["feed"] = feed_sum_billion_kcals''', "C05.FEEDGE")
M("C05", "round3-feed-capped-after-bump", PARF,
  '''            assert (feed_used_round3_copy <= feed_used_round3.kcals).all()''',
  '''            feed_used_round3.kcals = np.minimum(feed_used_round3.kcals, feed_used_round3_copy)''', "C05.FEEDGE")
M("C05", "round1-herd-offered-demand", PARF,
  '''            available_feed=zero_feed,''', '''            available_feed=feed_demand,''', "C05.ZERO")
M("C05", "R-meat-sum-reordered", MDF,
  '''            init_chickens_culled * self.KCALS_PER_CHICKEN
            + init_pigs_culled * self.KCALS_PER_PIG
            + init_small_animals_nonchicken_culled * self.KCALS_PER_SMALL_ANIMAL''',
  '''            init_pigs_culled * self.KCALS_PER_PIG
            + self.KCALS_PER_CHICKEN * init_chickens_culled
            + init_small_animals_nonchicken_culled * self.KCALS_PER_SMALL_ANIMAL''', None)

# ---------------------------------------------------------------------------- C07
M("C07", "revert-F1-fraction", ANIMF,
  '''                fraction_fed = NE_provided / self.NE_balance.kcals
                self.NE_balance.kcals -= NE_provided''', '''                self.NE_balance.kcals -= NE_provided
                fraction_fed = NE_provided / self.NE_balance.kcals''', "C07.FRAC")
M("C07", "non-ruminant-grass-zeroed", ANIMF,
  '''            if NE_from_grass > 0:
                NE_required -= NE_from_grass
                grass_input.kcals = 0''', '''            if NE_from_grass >= 0:
                NE_required -= NE_from_grass
                grass_input.kcals = 0''', "C07.GRASS")
M("C07", "feed-efficiency-dropped", ANIMF,
  '''                consumed_feed = NE_required / self.digestion_efficiency["feed"]''', '''                consumed_feed = NE_required''', "C07.NE")
M("C07", "grass-consumed-with-feed-efficiency", ANIMF,
  '''            consumed_grass = NE_required / self.digestion_efficiency["grass"]''',
  '''            consumed_grass = NE_required / self.digestion_efficiency["feed"]''', "C07.NE")
M("C07", "feed-test-ignores-grass-already-used", ANIMF,
  '''            if NE_from_feed >= NE_required:
                consumed_feed = NE_required / self.digestion_efficiency["feed"]''',
  '''            if NE_from_feed >= NE_required - NE_from_grass:
                consumed_feed = NE_required / self.digestion_efficiency["feed"]''', "C07.RES")
M("C07", "fully-fed-sets-fed-to-zero", ANIMF,
  '''                feed_input.kcals -= consumed_feed
                self.NE_balance.kcals = 0
                self.population_fed = self.current_population''', '''                feed_input.kcals -= consumed_feed
                self.NE_balance.kcals = 0
                self.population_fed = 0''', "C07.FRAC")
M("C07", "starving-counts-fed", ANIMF,
  '''                animal.current_population - animal.population_fed''', '''                animal.population_fed''', "C07.STARVE")
M("C07", "feeding-order-reversed", ANIMF,
  '''                key=lambda item: item[1].net_kcals_gained_per_hour_slaughter_this_month,
                reverse=True,''', '''                key=lambda item: item[1].net_kcals_gained_per_hour_slaughter_this_month,
                reverse=False,''', "C07.PRIO")
M("C07", "leftovers-crossed", ANIMF,
  '''            (available_grass, available_feed) = animal.feed_the_species(''', '''            (available_feed, available_grass) = animal.feed_the_species(''', "C07.PRIO")
M("C07", "balance-not-reset", ANIMF,
  '''        for animal in animal_list:
            animal.reset_NE_balance()

''', '', "C07.PRIO")
M("C07", "usage-recorded-from-next-month", ANIMF,
  '''        feed_used.kcals[month] = (
            available_feed.kcals[month] - feed_available_this_month.kcals
        )''', '''        feed_used.kcals[month] = (
            available_feed.kcals[month - 1] - feed_available_this_month.kcals
        )''', "C07.PRIO")
M("C07", "R-fraction-inlined-before-update", ANIMF,
  '''                fraction_fed = NE_provided / self.NE_balance.kcals
                self.NE_balance.kcals -= NE_provided
                self.population_fed = round(fraction_fed * self.current_population)''',
  '''                self.population_fed = round(
                    self.current_population * NE_provided / self.NE_balance.kcals
                )
                self.NE_balance.kcals = self.NE_balance.kcals - NE_provided''', None)

# ---------------------------------------------------------------------------- C06
M("C06", "additive-subtracted", ANIMF,
  '''            animal.current_population
            - new_other_animal_death
            + new_additive_animals_month''', '''            animal.current_population
            - new_other_animal_death
            - new_additive_animals_month''', "C06.LEDGER")
M("C06", "records-allocated-not-applied", ANIMF,
  '''        current_slaughter_rate = AnimalPopulation.calculate_animal_population(
            animal,''', '''        applied_slaughter_rate = AnimalPopulation.calculate_animal_population(
            animal,''', "C06.RECORD")
M("C06", "target-floor-ignored", ANIMF,
  '''            actual_slaughter_rate = (
                new_animal_population_pre_slaughter - animal.target_population_head
            )''', '''            actual_slaughter_rate = new_slaughter_rate''', "C06.LEDGER")
M("C06", "final-step-forgets-starving-homekill", ANIMF,
  '''            + animal.homekill_healthy_this_month[-1]
            + animal.homekill_starving_this_month[-1]
        )''', '''            + animal.homekill_healthy_this_month[-1]
        )''', "C06.LEDGER")
M("C06", "final-step-no-clamp", ANIMF,
  '''        if animal.current_population < 0:
            animal.current_population = 0
            # and BUG might exist''', '''        if animal.current_population < 0:
            pass
            # and BUG might exist''', "C06.LEDGER")
M("C06", "rate-ignores-remaining-hours", ANIMF,
  '''                allocated_hours = min(
                    hours_to_slaughter_this_type, remaining_hours_this_size
                )''', '''                allocated_hours = hours_to_slaughter_this_type''', "C06.SLAUGHTER")
M("C06", "hours-budget-not-reduced", ANIMF,
  '''        remaining_hours_this_size -= allocated_hours
''', '', "C06.SLAUGHTER")
M("C06", "budget-computed-once", ANIMF,
  '''        hours_by_size_dict = calculate_net_slaughter_hours_by_size(all_animals)

        for animal in all_animals:
            assert animal.animal_size in [''', '''        for animal in all_animals:
            assert animal.animal_size in [''', "C06.SLAUGHTER",
  more=[(ANIMF, '''    for month in range(0, months_to_run):
        country_object.month = month''', '''    hours_by_size_dict = calculate_net_slaughter_hours_by_size(all_animals)
    for month in range(0, months_to_run):
        country_object.month = month''')])
M("C06", "transfer-without-retirements", ANIMF,
  '''                    transfer_populations[animal.animal_species] = (
                        animal.retiring_milk_head_monthly() + new_transfer_births
                    )''', '''                    transfer_populations[animal.animal_species] = (
                        new_transfer_births
                    )''', "C06.XFER")
M("C06", "meat-herd-misses-transfer", ANIMF,
  '''                new_additive_animals_month = (
                    births[animal.animal_type]
                    + transfer_populations[animal.animal_species]
                )''', '''                new_additive_animals_month = (
                    births[animal.animal_type]
                )''', "C06.XFER")
M("C06", "retirements-not-subtracted", ANIMF,
  '''            new_other_animal_death + retiring_animals,
            current_slaughter_rate,''', '''            new_other_animal_death,
            current_slaughter_rate,''', "C06.RECORD")
M("C06", "calf-culling-ignored", ANIMF,
  '''        return new_births_animals_month, new_export_births_animals_month * (
            1 - animal.transfer_culling_fraction
        )''', '''        return new_births_animals_month, new_export_births_animals_month''', "C06.XFER")
M("C06", "final-before-starvation-recorded", ANIMF,
  '''            # FINALLY WE CAN Calculate THE NEW POPULATION
            AnimalPopulation.calculate_final_population(animal)''', '''            # FINALLY WE CAN Calculate THE NEW POPULATION''', "C06.RECORD",
  more=[(ANIMF, '''            AnimalPopulation.calculate_other_death_homekill_head(
                animal, country_object
            )''', '''            AnimalPopulation.calculate_final_population(animal)
            AnimalPopulation.calculate_other_death_homekill_head(
                animal, country_object
            )''')])
M("C06", "R-ledger-rearranged", ANIMF,
  '''        new_animal_population_pre_slaughter = (
            animal.current_population
            - new_other_animal_death
            + new_additive_animals_month
        )''', '''        new_animal_population_pre_slaughter = (
            new_additive_animals_month
            + animal.current_population
            - new_other_animal_death
        )''', None)
M("C06", "R-target-arm-rewritten", ANIMF,
  '''        elif (
            new_animal_population_pre_slaughter - new_slaughter_rate
            < animal.target_population_head
        ):''', '''        elif (
            new_animal_population_pre_slaughter - animal.target_population_head
            < new_slaughter_rate
        ):''', None)

# ---------------------------------------------------------------------------- C08
OCF = "src/food_system/outdoor_crops.py"
SEAF = "src/food_system/seafood.py"
SFF = "src/food_system/stored_food.py"
CSF = "src/food_system/cellulosic_sugar.py"
SCPF = "src/food_system/methane_scp.py"
SWF = "src/food_system/seaweed.py"
GHF = "src/food_system/greenhouses.py"
M("C08", "first-crop-year-12-months", OCF,
  '''            MAY_UNTIL_DECEMBER_FIRST_YEAR_REDUCTION,
            8,
        )''', '''            MAY_UNTIL_DECEMBER_FIRST_YEAR_REDUCTION,
            12,
        )''', "C08.CAL")
M("C08", "crop-cycle-off-by-one", OCF,
  '''        month_index = self.STARTING_MONTH_NUM - 1''', '''        month_index = self.STARTING_MONTH_NUM''', "C08.CAL")
M("C08", "crop-year3-block-13-months", OCF,
  '''            RATIO_KCALS_POSTDISASTER_3Y, RATIO_KCALS_POSTDISASTER_3Y, 13
        )[:-1]''', '''            RATIO_KCALS_POSTDISASTER_3Y, RATIO_KCALS_POSTDISASTER_3Y, 13
        )''', "C08.CAL")
M("C08", "crop-year4-uses-year3-ratio", OCF,
  '''            RATIO_KCALS_POSTDISASTER_4Y, RATIO_KCALS_POSTDISASTER_4Y, 13
        )[:-1]''', '''            RATIO_KCALS_POSTDISASTER_3Y, RATIO_KCALS_POSTDISASTER_3Y, 13
        )[:-1]''', "C08.CAL")
M("C08", "crop-loop-cycle-index-shift", OCF,
  '''            cycle_index = i % 12''', '''            cycle_index = (i + 1) % 12''', "C08.LOOP")
M("C08", "crop-loop-reduction-index-lag", OCF,
  '''            baseline_reduction = self.all_months_reductions[i]''',
  '''            baseline_reduction = self.all_months_reductions[max(i - 1, 0)]''', "C08.LOOP")
M("C08", "grass-first-year-12-months", MDF,
  '''                            ratio_human_inedible_feed
                            * constants_for_params[
                                "HUMAN_INEDIBLE_FEED_BASELINE_MONTHLY"
                            ]
                        ]
                        * 8,''', '''                            ratio_human_inedible_feed
                            * constants_for_params[
                                "HUMAN_INEDIBLE_FEED_BASELINE_MONTHLY"
                            ]
                        ]
                        * 12,''', "C08.CAL")
M("C08", "grass-year-index-shift", MDF,
  '''                ratio_human_inedible_feed = constants_for_params[
                    "RATIO_GRASSES_YEAR" + str(i)
                ]''', '''                ratio_human_inedible_feed = constants_for_params[
                    "RATIO_GRASSES_YEAR" + str(min(i + 1, 10))
                ]''', "C08.CAL")
M("C08", "fish-distribution-waste-dropped", SEAF,
  '''        FISH_WASTE_COEFFICIENT = (
            1 - constants_for_params["WASTE_DISTRIBUTION"]["SEAFOOD"] / 100
        ) * (1 - constants_for_params["WASTE_RETAIL"] / 100)''', '''        FISH_WASTE_COEFFICIENT = (
            1 - constants_for_params["WASTE_RETAIL"] / 100)''', "C08.FORM")
M("C08", "fish-annual-not-monthly", SEAF,
  '''            * FISH_WASTE_COEFFICIENT
            * 4e6
            / 1e9
            / 12
        )''', '''            * FISH_WASTE_COEFFICIENT
            * 4e6
            / 1e9
        )''', "C08.FORM")
M("C08", "fish-percent-as-fraction", SEAF,
  '''production_kcals_fish_per_month.append(x / 100 * self.FISH_KCALS)''',
  '''production_kcals_fish_per_month.append(x * self.FISH_KCALS)''', "C08.FORM")
M("C08", "stock-month-not-before", SFF,
  '''        month_before_index = starting_month_index - 1''', '''        month_before_index = starting_month_index''', "C08.STOCK")
M("C08", "stock-floor-uses-max", SFF,
  '''        lowest_stocks = min(end_of_month_stocks)''', '''        lowest_stocks = max(end_of_month_stocks)''', "C08.STOCK")
M("C08", "stock-waste-dropped", SFF,
  '''            kcals=self.INITIAL_SF_KCALS * (1 - self.CROP_WASTE_DISTRIBUTION / 100),''',
  '''            kcals=self.INITIAL_SF_KCALS,''', "C08.STOCK")
M("C08", "cs-leadin-shortened", CSF,
  '''np.array([0.0] * 5 + [4.7] * 3 + [9.5] * 1000),''', '''np.array([0.0] * 4 + [4.7] * 3 + [9.5] * 1000),''', "C08.DELAY")
M("C08", "cs-delay-ignored", CSF,
  '''                np.append(
                    industrial_delay_months,
                    np.array(''', '''                np.append(
                    [],
                    np.array(''', "C08.DELAY")
M("C08", "cs-ramp-dips", CSF,
  '''np.array([0.0] * 5 + [4.7] * 3 + [9.5] * 1000),''', '''np.array([0.0] * 5 + [4.7] * 3 + [3.5] * 1 + [9.5] * 1000),''', "C08.DELAY")
M("C08", "scp-leadin-shortened", SCPF,
  '''                + [0] * 12
                + [2] * 5''', '''                + [0] * 10
                + [2] * 5''', "C08.DELAY")
M("C08", "gh-delay-ignored", GHF,
  '''                            np.linspace(0, 0, self.greenhouse_delay),''', '''                            np.linspace(0, 0, 0),''', "C08.DELAY")
M("C08", "seaweed-delay-ignored", SWF,
  '''            sd = [self.INITIAL_BUILT_SEAWEED_AREA] * constants_for_params["DELAY"][
                "SEAWEED_MONTHS"
            ]
        else:''', '''            sd = []
        else:''', "C08.DELAY")
M("C08", "seaweed-area-cap-removed", SWF,
  '''        built_area_long[built_area_long > self.MAXIMUM_SEAWEED_AREA] = (
            self.MAXIMUM_SEAWEED_AREA
        )
''', '', "C08.DELAY")
M("C08", "revert-F16-ledger-adds-one", OPT,
  '''prev_seaweed * growth_factor''', '''prev_seaweed * (1 + growth_factor)''', "C08.GROWTH")
M("C08", "growth-compounds-31-days", SWF,
  '''sorted_monthly_percents = 100 * (((sorted_daily_percents / 100) + 1) ** 30)''',
  '''sorted_monthly_percents = 100 * (((sorted_daily_percents / 100) + 1) ** 31)''', "C08.GROWTH")
M("C08", "growth-linear-not-compound", SWF,
  '''sorted_monthly_percents = 100 * (((sorted_daily_percents / 100) + 1) ** 30)''',
  '''sorted_monthly_percents = 100 * (1 + 30 * sorted_daily_percents / 100)''', "C08.GROWTH")
M("C08", "revert-F17-world-grass-annual", SCENF,
  '''constants_for_params["HUMAN_INEDIBLE_FEED_BASELINE_MONTHLY"] = 4206 / 12''',
  '''constants_for_params["HUMAN_INEDIBLE_FEED_BASELINE_MONTHLY"] = 4206''', "C08.UNITLIT")
M("C08", "start-month-june", PARF,
  '''            "MAY"  # Default starting month for the simulation''', '''            "JUN"  # Default starting month for the simulation''', "C08.CAL")
M("C08", "month-table-shifted", PARF,
  '''            "MAY": 5,
            "JUN": 6,''', '''            "MAY": 6,
            "JUN": 5,''', "C08.CAL")
M("C08", "R-crop-first-block-repeat", OCF,
  '''        y1_to_y2 = np.linspace(
            MAY_UNTIL_DECEMBER_FIRST_YEAR_REDUCTION,
            MAY_UNTIL_DECEMBER_FIRST_YEAR_REDUCTION,
            8,
        )''', '''        y1_to_y2 = np.array([MAY_UNTIL_DECEMBER_FIRST_YEAR_REDUCTION] * 8)''', None)
M("C08", "R-fish-coefficient-reordered", SEAF,
  '''        FISH_WASTE_COEFFICIENT = (
            1 - constants_for_params["WASTE_DISTRIBUTION"]["SEAFOOD"] / 100
        ) * (1 - constants_for_params["WASTE_RETAIL"] / 100)''', '''        FISH_WASTE_COEFFICIENT = (1 - constants_for_params["WASTE_RETAIL"] / 100) * (
            1 - constants_for_params["WASTE_DISTRIBUTION"]["SEAFOOD"] / 100
        )''', None)
M("C08", "R-stock-index-inlined", SFF,
  '''        month_before_index = starting_month_index - 1

        stocks_at_start_of_month = end_of_month_stocks[month_before_index]''',
  '''        stocks_at_start_of_month = end_of_month_stocks[starting_month_index - 1]''', None)

M("C08", "greenhouse-yield-uses-previous-month-ratio", GHF,
  '''            baseline_reduction = all_months_reductions[i]

            # Check if baseline''', '''            baseline_reduction = all_months_reductions[max(i - 1, 0)]

            # Check if baseline''', "C08.FORM")
M("C08", "greenhouse-yield-not-per-hectare", GHF,
  '''        MONTHLY_KCALS = np.mean(months_cycle) / self.TOTAL_CROP_AREA''', '''        MONTHLY_KCALS = np.mean(months_cycle)''', "C08.FORM")
M("C08", "greenhouse-retail-waste-dropped", GHF,
  '''            CROP_WASTE_COEFFICIENT = (
                1 - constants_for_params["WASTE_DISTRIBUTION"]["CROPS"] / 100
            ) * (1 - constants_for_params["WASTE_RETAIL"] / 100)''', '''            CROP_WASTE_COEFFICIENT = (
                1 - constants_for_params["WASTE_DISTRIBUTION"]["CROPS"] / 100
            )''', "C08.FORM")
M("C08", "greenhouse-gain-as-fraction", GHF,
  '''                * (1 + constants_for_params["GREENHOUSE_GAIN_PCT"] / 100)''', '''                * (1 + constants_for_params["GREENHOUSE_GAIN_PCT"])''', "C08.FORM")
M("C08", "greenhouse-fat-times-area-of-kcals-lane", PARF,
  '''            fat=np.multiply(greenhouse_fat_per_ha, greenhouse_area),''', '''            fat=np.multiply(greenhouse_kcals_per_ha, greenhouse_area),''', "C08.FORM")
M("C08", "R-greenhouse-monthly-kcals-renamed", GHF,
  '''        MONTHLY_KCALS = np.mean(months_cycle) / self.TOTAL_CROP_AREA''', '''        per_ha = np.mean(months_cycle)
        MONTHLY_KCALS = per_ha / self.TOTAL_CROP_AREA''', None)
M("C08", "year1-before-may-counts-five-months", OCF, '        if country_iso3 == "ZAF":\n            harvest_before_may_this_country = 1\n        elif country_iso3 == "JPN":\n            harvest_before_may_this_country = 0\n        elif country_iso3 == "PRK":\n            harvest_before_may_this_country = 0\n        elif country_iso3 == "KOR":\n            harvest_before_may_this_country = 0\n        else:\n            harvest_before_may_this_country = sum(seasonality_values[:4])\n', '        exceptions = {"ZAF": 1, "JPN": 0, "PRK": 0, "KOR": 0}\n        harvest_before_may_this_country = exceptions.get(\n            country_iso3, sum(seasonality_values[:5])\n        )\n', "C08.Y1")
M("C08", "R-year1-exceptions-as-dict-with-default", OCF, '        if country_iso3 == "ZAF":\n            harvest_before_may_this_country = 1\n        elif country_iso3 == "JPN":\n            harvest_before_may_this_country = 0\n        elif country_iso3 == "PRK":\n            harvest_before_may_this_country = 0\n        elif country_iso3 == "KOR":\n            harvest_before_may_this_country = 0\n        else:\n            harvest_before_may_this_country = sum(seasonality_values[:4])\n', '        exceptions = {"ZAF": 1, "JPN": 0, "PRK": 0, "KOR": 0}\n        harvest_before_may_this_country = exceptions.get(\n            country_iso3, sum(seasonality_values[:4])\n        )\n', None)
M("C08", "year1-ratio-not-normalised", OCF,
  '''                fraction_continued_yields = ratio_yields_nw / fraction_harvest_after_may''',
  '''                fraction_continued_yields = ratio_yields_nw''', "C08.Y1")
# ---------------------------------------------------------------------------- C09
M("C09", "revert-F3-no-relocation-arm-forgets-greenhouses", OCF,
  '''                crops_produced = np.multiply(
                    np.array(self.NO_RELOCATION_KCALS_GROWN),
                    (1 - greenhouse_fraction_area),
                )''', '''                crops_produced = np.array(self.NO_RELOCATION_KCALS_GROWN)''', "C09.GH")
M("C09", "revert-F2-int-array", OCF,
  '''                crops_produced = np.zeros(self.NMONTHS)

                hd = (''', '''                crops_produced = np.array([0] * self.NMONTHS)

                hd = (''', "C09.QUANT")
M("C09", "early-months-forget-greenhouses", OCF,
  '''                crops_produced[:hd] = np.multiply(
                    np.array(self.NO_RELOCATION_KCALS_GROWN[:hd]),
                    (1 - greenhouse_fraction_area[:hd]),
                )''', '''                crops_produced[:hd] = np.array(self.NO_RELOCATION_KCALS_GROWN[:hd])''', "C09.GH")
M("C09", "late-months-share-misaligned", OCF,
  '''                    np.array(self.KCALS_GROWN[hd:]), (1 - greenhouse_fraction_area[hd:])''',
  '''                    np.array(self.KCALS_GROWN[hd:]), (1 - greenhouse_fraction_area[:-hd])''', "C09.GH")
M("C09", "share-added-not-subtracted", OCF,
  '''                    np.array(self.KCALS_GROWN[hd:]), (1 - greenhouse_fraction_area[hd:])''',
  '''                    np.array(self.KCALS_GROWN[hd:]), (1 + greenhouse_fraction_area[hd:])''', "C09.GH")
M("C09", "share-is-area-not-fraction", PARF,
  '''greenhouses.greenhouse_fraction_area''', '''greenhouse_area''', "C09.GH")
M("C09", "share-divided-by-wrong-area", GHF,
  '''        self.greenhouse_fraction_area = greenhouse_area / self.TOTAL_CROP_AREA''',
  '''        self.greenhouse_fraction_area = greenhouse_area / GREENHOUSE_LIMIT_AREA''', "C09.AREA")
M("C09", "greenhouse-ramp-overshoots", GHF,
  '''                        np.linspace(0, GREENHOUSE_LIMIT_AREA, 37),''', '''                        np.linspace(0, GREENHOUSE_LIMIT_AREA * 1.5, 37),''', "C09.AREA")
M("C09", "greenhouse-area-without-leadin", GHF,
  '''                            np.linspace(0, 0, 5),''', '''                            np.linspace(0, 0, 0),''', "C09.AREA")
M("C09", "no-greenhouses-nonzero-area", GHF,
  '''            greenhouse_area = np.array([0] * self.NMONTHS)''', '''            greenhouse_area = np.array([self.TOTAL_CROP_AREA] * self.NMONTHS)''', "C09.AREA")
M("C09", "relocation-assert-removed", OCF,
  '''            assert (
                self.KCALS_GROWN[-1] >= month_kcals * baseline_reduction
            ), "ERROR: Relocation has somehow decreased crop production!"''', '''            pass''', "C09.RELOC")
M("C09", "relocation-arms-swapped", OCF,
  '''            if baseline_reduction > 1:
                self.KCALS_GROWN.append(month_kcals * baseline_reduction)''', '''            if baseline_reduction <= 1:
                self.KCALS_GROWN.append(month_kcals * baseline_reduction)''', "C09.RELOC")
M("C09", "expanded-area-applied-always", OCF,
  '''        if constants_for_params["RATIO_INCREASED_CROP_AREA"] > 1:
            self.assign_increase''', '''        if constants_for_params["RATIO_INCREASED_CROP_AREA"] > 0:
            self.assign_increase''', "C09.RELOC")
M("C09", "production-rounded", OCF,
  '''            kcals=np.array(crops_produced) * (1 - self.CROP_WASTE_DISTRIBUTION / 100),''',
  '''            kcals=np.round(np.array(crops_produced) * (1 - self.CROP_WASTE_DISTRIBUTION / 100)),''', "C09.QUANT")
M("C09", "grown-truncated-to-int", OCF,
  '''            self.NO_RELOCATION_KCALS_GROWN.append(month_kcals * baseline_reduction)''',
  '''            self.NO_RELOCATION_KCALS_GROWN.append(int(month_kcals * baseline_reduction))''', "C09.QUANT")
M("C09", "R-no-relocation-arm-operator-form", OCF,
  '''                crops_produced = np.multiply(
                    np.array(self.NO_RELOCATION_KCALS_GROWN),
                    (1 - greenhouse_fraction_area),
                )''', '''                crops_produced = np.array(self.NO_RELOCATION_KCALS_GROWN) * (1 - greenhouse_fraction_area)''', None)
M("C09", "R-else-arm-float-zeros", OCF,
  '''        else:
            crops_produced = np.array([0] * self.NMONTHS)

        self.production = Food(''', '''        else:
            crops_produced = np.zeros(self.NMONTHS)

        self.production = Food(''', None)


M("C09", "expanded-area-ramp-starts-below-one", OCF,
  '''            linspace[i] = 1 + (i - N) * increment''', '''            linspace[i] = (i - N) * increment''', "C09.RELOC")
M("C09", "expanded-area-divides", OCF,
  '''            self.KCALS_GROWN[i] = self.KCALS_GROWN[i] * linspace[i]''', '''            self.KCALS_GROWN[i] = self.KCALS_GROWN[i] / linspace[i]''', "C09.RELOC")
M("C09", "R-expanded-area-names", OCF,
  '''        increment = (max_value - 1) / (total_months - N)''', '''        span = total_months - N
        increment = (max_value - 1) / span''', None)
M("C09", "R-production-factor-first", OCF,
  '''            kcals=np.array(crops_produced) * (1 - self.CROP_WASTE_DISTRIBUTION / 100),''',
  '''            kcals=(1 - self.CROP_WASTE_DISTRIBUTION / 100) * np.array(crops_produced),''', None)
# ---------------------------------------------------------------------------- added after the sub-agent seeded defects
M("C18", "cap-uses-max", PARF, '        if (\n            interpreted_results_round1.percent_people_fed\n            > MINIMUM_PERCENT_FED_BEFORE_NONHUMAN_CONSUMPTION_ALLOWED\n        ):\n            kcals_daily_maximum = (\n                constants_inputs["NUTRITION"]["KCALS_DAILY"]\n                * fraction_to_feed_people_first\n            )\n\n        else:\n            kcals_daily_maximum = constants_inputs["NUTRITION"]["KCALS_DAILY"] * (\n                interpreted_results_round1.percent_people_fed / 100\n            )\n', '        kcals_daily_maximum = constants_inputs["NUTRITION"]["KCALS_DAILY"] * max(\n            fraction_to_feed_people_first,\n            interpreted_results_round1.percent_people_fed / 100,\n        )\n', "C18.CAP")
M("C18", "R-cap-written-with-min", PARF, '        if (\n            interpreted_results_round1.percent_people_fed\n            > MINIMUM_PERCENT_FED_BEFORE_NONHUMAN_CONSUMPTION_ALLOWED\n        ):\n            kcals_daily_maximum = (\n                constants_inputs["NUTRITION"]["KCALS_DAILY"]\n                * fraction_to_feed_people_first\n            )\n\n        else:\n            kcals_daily_maximum = constants_inputs["NUTRITION"]["KCALS_DAILY"] * (\n                interpreted_results_round1.percent_people_fed / 100\n            )\n', '        kcals_daily_maximum = constants_inputs["NUTRITION"]["KCALS_DAILY"] * min(\n            fraction_to_feed_people_first,\n            interpreted_results_round1.percent_people_fed / 100,\n        )\n', None)
M("C11", "predicate-early-return-skips-protein", FOODF, '        return (\n            (self.kcals <= other.kcals).all()\n            and ((self.fat <= other.fat).all() or self.conversions.exclude_fat)\n            and (\n                (self.protein <= other.protein).all()\n                or self.conversions.exclude_protein\n            )\n        )\n\n    def any_greater_than_or_equal_to(self, other):', '        if not (self.kcals <= other.kcals).all():\n            return False\n        if not self.conversions.exclude_fat:\n            if not (self.fat <= other.fat).all():\n                return False\n            return True\n        return (self.protein <= other.protein).all() or self.conversions.exclude_protein\n\n    def any_greater_than_or_equal_to(self, other):', "C11.PRED")
M("C11", "R-predicate-early-returns", FOODF, '        return (\n            (self.kcals <= other.kcals).all()\n            and ((self.fat <= other.fat).all() or self.conversions.exclude_fat)\n            and (\n                (self.protein <= other.protein).all()\n                or self.conversions.exclude_protein\n            )\n        )\n\n    def any_greater_than_or_equal_to(self, other):', '        if not (self.kcals <= other.kcals).all():\n            return False\n        if not self.conversions.exclude_fat:\n            if not (self.fat <= other.fat).all():\n                return False\n        return (self.protein <= other.protein).all() or self.conversions.exclude_protein\n\n    def any_greater_than_or_equal_to(self, other):', None)
M("C11", "clip-writes-through-asarray-view", FOODF,
  '''                kcals=np.where(self.kcals < 0, 0, self.kcals),''',
  '''                kcals=_clip0(np.asarray(self.kcals, dtype=float)),''', "C11.PURE",
  more=[(FOODF, '''            # Validate the food object
            self.validate_if_list()
            # Create a new food object with negative values replaced with zero''', '''            # Validate the food object
            self.validate_if_list()
            view = np.asarray(self.fat, dtype=float)
            view[view < 0] = 0
            # Create a new food object with negative values replaced with zero''')])
M("C14", "population-table-memoised", ANIMF,
  '''class AnimalDataReader:
    def read_animal_population_data(filename):''', '''class AnimalDataReader:
    @functools.lru_cache(maxsize=None)
    def read_animal_population_data(filename):''', "C14.STATE",
  more=[(ANIMF, '''from pathlib import Path
import pandas as pd''', '''from pathlib import Path
import functools
import pandas as pd''')])
M("C14", "R-options-table-memoised", ANIMF,
  '''    def read_animal_options(filename):''', '''    @functools.lru_cache(maxsize=None)
    def read_animal_options(filename):''', None,
  more=[(ANIMF, '''from pathlib import Path
import pandas as pd''', '''from pathlib import Path
import functools
import pandas as pd''')])
M("C13", "override-lands-in-memoised-table", ANIMF,
  '''class AnimalDataReader:
    def read_animal_population_data(filename):''', '''class AnimalDataReader:
    @functools.cache
    def read_animal_population_data(filename):''', "C13.OVERRIDE",
  more=[(ANIMF, '''from pathlib import Path
import pandas as pd''', '''from pathlib import Path
import functools
import pandas as pd''')])

M("C15", "R-cap-with-min-and-renamed-locals", RMNTF, '            if needs_ratio >= 1:\n                capped_ratio = 1\n            else:\n                capped_ratio = needs_ratio\n\n            net_pop_fed += capped_ratio * population\n            net_pop += population\n', '            people = population\n            share = min(1, needs_ratio)\n            net_pop += people\n            net_pop_fed += people * share\n', None)
M("C15", "cap-at-one-and-a-half", RMNTF, '            if needs_ratio >= 1:\n                capped_ratio = 1\n            else:\n                capped_ratio = needs_ratio\n\n            net_pop_fed += capped_ratio * population\n            net_pop += population\n', '            if needs_ratio >= 1.5:\n                capped_ratio = 1.5\n            else:\n                capped_ratio = needs_ratio\n\n            net_pop_fed += capped_ratio * population\n            net_pop += population\n', "C15.ACC")
M("C15", "outlier-countries-silently-dropped", RMNTF, '            if needs_ratio >= 1:\n                capped_ratio = 1\n            else:\n                capped_ratio = needs_ratio\n\n            net_pop_fed += capped_ratio * population\n            net_pop += population\n', '            if needs_ratio > 20:\n                continue\n            if needs_ratio >= 1:\n                capped_ratio = 1\n            else:\n                capped_ratio = needs_ratio\n\n            net_pop_fed += capped_ratio * population\n            net_pop += population\n', "C15.ACC")
M("C15", "failed-country-still-in-denominator", RMNTF,
  '''            if np.isnan(needs_ratio):
                n_errors += 1''', '''            if np.isnan(needs_ratio):
                net_pop += population
                n_errors += 1''', "C15.ACC")
M("C18", "R-fill-explicit-copy", PARF,
  '''        arr = np.array(arr, dtype=float)''', '''        arr = np.array(arr, dtype=float).copy()''', None)
NWF = "src/import_scripts_no_food_trade/create_nuclear_winter_csv.py"
IFDF = "src/import_scripts_no_food_trade/import_food_data.py"
M("C17", "R-nw-columns-through-a-helper", NWF, '    # Loop through the crop and grass reduction columns for each year\n    for i in range(1, 11):\n        # Convert the crop reduction column to float and divide by 100\n        nw_csv["crop_reduction_year" + str(i)] = nw_csv[\n            "crop_reduction_year" + str(i)\n        ].astype(float)\n        nw_csv["crop_reduction_year" + str(i)] = nw_csv[\n            "crop_reduction_year" + str(i)\n        ].div(100)\n        # Replace values greater than 9.36e34 with -1\n        nw_csv["crop_reduction_year" + str(i)] = np.where(\n            nw_csv["crop_reduction_year" + str(i)] > 9.36e34,\n            -1,\n            nw_csv["crop_reduction_year" + str(i)],\n        )\n\n        # Convert the grass reduction column to float and divide by 100\n        nw_csv["grasses_reduction_year" + str(i)] = nw_csv[\n            "grasses_reduction_year" + str(i)\n        ].astype(float)\n        nw_csv["grasses_reduction_year" + str(i)] = nw_csv[\n            "grasses_reduction_year" + str(i)\n        ].div(100)\n        # Replace values greater than 9.36e34 with -1\n        nw_csv["grasses_reduction_year" + str(i)] = np.where(\n            nw_csv["grasses_reduction_year" + str(i)] > 9.36e34,\n            -1,\n            nw_csv["grasses_reduction_year" + str(i)],\n        )\n\n', '    def percent_to_fraction(column):\n        column = column.astype(float) / 100\n        return np.where(column > 9.36e34, -1, column)\n\n    for i in range(1, 11):\n        for reduction_type in ["crop_reduction_year", "grasses_reduction_year"]:\n            col_name = reduction_type + str(i)\n            nw_csv[col_name] = percent_to_fraction(nw_csv[col_name])\n\n', None)
M("C17", "nw-no-data-becomes-minus-100", NWF, '    # Loop through the crop and grass reduction columns for each year\n    for i in range(1, 11):\n        # Convert the crop reduction column to float and divide by 100\n        nw_csv["crop_reduction_year" + str(i)] = nw_csv[\n            "crop_reduction_year" + str(i)\n        ].astype(float)\n        nw_csv["crop_reduction_year" + str(i)] = nw_csv[\n            "crop_reduction_year" + str(i)\n        ].div(100)\n        # Replace values greater than 9.36e34 with -1\n        nw_csv["crop_reduction_year" + str(i)] = np.where(\n            nw_csv["crop_reduction_year" + str(i)] > 9.36e34,\n            -1,\n            nw_csv["crop_reduction_year" + str(i)],\n        )\n\n        # Convert the grass reduction column to float and divide by 100\n        nw_csv["grasses_reduction_year" + str(i)] = nw_csv[\n            "grasses_reduction_year" + str(i)\n        ].astype(float)\n        nw_csv["grasses_reduction_year" + str(i)] = nw_csv[\n            "grasses_reduction_year" + str(i)\n        ].div(100)\n        # Replace values greater than 9.36e34 with -1\n        nw_csv["grasses_reduction_year" + str(i)] = np.where(\n            nw_csv["grasses_reduction_year" + str(i)] > 9.36e34,\n            -1,\n            nw_csv["grasses_reduction_year" + str(i)],\n        )\n\n', '    def percent_to_fraction(column):\n        column = column.astype(float) / 100\n        return np.where(column > 9.36e34, -100, column)\n\n    for i in range(1, 11):\n        for reduction_type in ["crop_reduction_year", "grasses_reduction_year"]:\n            col_name = reduction_type + str(i)\n            nw_csv[col_name] = percent_to_fraction(nw_csv[col_name])\n\n', "C17.NODATA")
M("C17", "korea-fix-result-dropped", IFDF,
  '''        dataframes[df_id] = df.replace({"KOR": "PRK", "PRK": "KOR"})''',
  '''        fixed = df.replace({"KOR": "PRK", "PRK": "KOR"})''', "C17.WIRE")
M("C03", "demand-tuple-returned-swapped-and-lane-crossed", FABF,
  '''        feed = self.get_feed_usage(feed_duration)''', '''        feed = self.get_feed_usage(biofuel_duration)''', "C03.ARGLANE")
M("C11", "get-conversion-fat-protein-crossed", UCF,
  '''                to_units_fat + " per month",
                to_units_protein + " per month",''', '''                to_units_protein + " per month",
                to_units_fat + " per month",''', "C11.ARGLANE")
YAMLF = "src/scenarios/run_scenarios_from_yaml.py"
M("C15", "R-yaml-country-codes-stripped", YAMLF,
  '''    simulations = config_data["simulations"]''', '''    countries = [c.strip() for c in countries]
    simulations = config_data["simulations"]''', None)
M("C15", "yaml-country-list-deduplicated-through-a-set", YAMLF,
  '''    simulations = config_data["simulations"]''', '''    countries = [c for c in countries if not c.startswith("!")]
    simulations = config_data["simulations"]''', "C15.SEL")
# --- rules added with the second round of seeded changes
M("C13", "country-crop-ratio-floored-at-zero-and-capped", SCENF,
  '''        constants_for_params["RATIO_CROPS_YEAR3"] = (
            1 + country_data["crop_reduction_year3"]
        )''', '''        constants_for_params["RATIO_CROPS_YEAR3"] = min(
            1 + country_data["crop_reduction_year3"], 1
        )''', "C13.DATA")
M("C13", "country-grass-ratio-uses-previous-year", SCENF,
  '''                1 + country_data["grasses_reduction_year" + str(i)]''',
  '''                1 + country_data["grasses_reduction_year" + str(max(i - 1, 1))]''', "C13.DATA")
M("C13", "R-country-crop-ratios-in-a-loop", SCENF,
  '''        constants_for_params["RATIO_CROPS_YEAR1"] = (
            1 + country_data["crop_reduction_year1"]
        )
        constants_for_params["RATIO_CROPS_YEAR2"] = (
            1 + country_data["crop_reduction_year2"]
        )''', '''        for first_years in (1, 2):
            constants_for_params["RATIO_CROPS_YEAR" + str(first_years)] = (
                country_data["crop_reduction_year" + str(first_years)] + 1
            )''', None)
M("C06", "depopulation-fast-path-relies-on-the-clamp", ANIMF,
  '''        if new_animal_population_pre_slaughter < animal.target_population_head:
            # already below target, do no slaughtering
            actual_slaughter_rate = 0''', '''        if animal.target_population_head == 0:
            actual_slaughter_rate = new_slaughter_rate
        elif new_animal_population_pre_slaughter < animal.target_population_head:
            # already below target, do no slaughtering
            actual_slaughter_rate = 0''', "C06.LEDGER")
M("C04", "csv-appended-to-existing-file", INTF,
  '''            df.to_csv(file_location)''', '''            df.to_csv(file_location, mode="a")''', "C04.CSV")
M("C04", "R-csv-explicit-write-mode", INTF,
  '''            df.to_csv(file_location)''', '''            df.to_csv(file_location, mode="w", header=True)''', None)
M("C04", "floor-value-passed-in-with-absolute-margin", OPT,
  '''            ) = self.constrain_next_optimization_to_have_same_minimum_starvation(
                model, variables
            )''', '''            ) = self.constrain_next_optimization_to_have_same_minimum_starvation(
                model, variables, percent_fed_from_first_optimization - 0.005
            )''', "C04.FLOOR", more=((OPT, '''    def constrain_next_optimization_to_have_same_minimum_starvation(
        self, model, variables
    ):''', '''    def constrain_next_optimization_to_have_same_minimum_starvation(
        self, model, variables, min_value
    ):'''), (OPT, '''        """

        # Set min_value to the previous optimization value and make sure consumed_kcals meets this value each month
        min_value = (
            model.objective.value() * 0.99995
        )  # reach almost the same as objective, but allow for small rounding error if needed
''', '''        """

''')))
M("C04", "R-floor-value-passed-in-relative", OPT,
  '''            ) = self.constrain_next_optimization_to_have_same_minimum_starvation(
                model, variables
            )''', '''            ) = self.constrain_next_optimization_to_have_same_minimum_starvation(
                model, variables, percent_fed_from_first_optimization * 0.99995
            )''', None, more=((OPT, '''    def constrain_next_optimization_to_have_same_minimum_starvation(
        self, model, variables
    ):''', '''    def constrain_next_optimization_to_have_same_minimum_starvation(
        self, model, variables, min_value
    ):'''), (OPT, '''        """

        # Set min_value to the previous optimization value and make sure consumed_kcals meets this value each month
        min_value = (
            model.objective.value() * 0.99995
        )  # reach almost the same as objective, but allow for small rounding error if needed
''', '''        """

''')))
M("C05", "no-storage-meat-bounded-by-running-total", OPT,
  '''            <= self.time_consts["each_month_meat_slaughtered"][month].kcals''',
  '''            <= self.time_consts["max_consumed_culled_kcals_each_month"][month]''', "C05.LP")
M("C14", "conversion-object-keeps-a-factor-table", UCF,
  '''        self.NUTRITION_PROPERTIES_ASSIGNED = False
''', '''        self.NUTRITION_PROPERTIES_ASSIGNED = False
        self.known_factors = {}

    def remember_factor(self, label, value):
        if label not in self.known_factors:
            self.known_factors[label] = value
        return self.known_factors[label]
''', "C14.STATE", nth=0)
# ---------------------------------------------------------------------------- runner

COPY = ["src", "scenarios", "scripts", "plot_manuscript_figures.py", "tests"]


def _make_scratch(base):
    for item in COPY:
        src = os.path.join(REPO, item)
        dst = os.path.join(base, item)
        if os.path.isdir(src):
            shutil.copytree(src, dst, ignore=shutil.ignore_patterns("__pycache__", "*.pyc"))
        elif os.path.exists(src):
            shutil.copy2(src, dst)
    os.symlink(os.path.join(REPO, "data"), os.path.join(base, "data"))


def _baseline_known(pid, env):
    p = subprocess.run([sys.executable, "-m", "allfedsa.cli", pid, "--tier", "quick"], cwd=VERIF, env=env,
                       capture_output=True, text=True)
    return p.returncode, sorted(l for l in p.stdout.splitlines() if l.startswith("KNOWN-FINDING"))


def _run_one(m, base_known):
    tmp = tempfile.mkdtemp(prefix="allfedsa_mut_")
    try:
        _make_scratch(tmp)
        path = os.path.join(tmp, m["file"])
        if m.get("copy_data"):
            os.unlink(os.path.join(tmp, "data"))
            shutil.copytree(os.path.join(REPO, "data"), os.path.join(tmp, "data"))
        with open(path, encoding="utf-8") as f:
            src = f.read()
        cnt = src.count(m["old"])
        if cnt == 0:
            return m["name"], "stale", "text to replace not found"
        if cnt > 1 and not m.get("nth"):
            return m["name"], "stale", f"text to replace is ambiguous ({cnt} matches)"
        if m.get("nth"):
            parts = src.split(m["old"])
            n = m["nth"]
            src2 = m["old"].join(parts[:n]) + m["new"] + m["old"].join(parts[n:])
        else:
            src2 = src.replace(m["old"], m["new"])
        if m["file"].endswith(".py"):
            try:
                compile(src2, path, "exec")
            except SyntaxError as e:
                return m["name"], "stale", f"mutant does not compile: {e}"
        with open(path, "w", encoding="utf-8") as f:
            f.write(src2)
        for f2, o2, n2 in m.get("more", []):
            p2 = os.path.join(tmp, f2)
            with open(p2, encoding="utf-8") as f:
                s2 = f.read()
            if s2.count(o2) != 1:
                return m["name"], "stale", "secondary edit text not found exactly once"
            s2 = s2.replace(o2, n2)
            if f2.endswith(".py"):
                try:
                    compile(s2, p2, "exec")
                except SyntaxError as e:
                    return m["name"], "stale", f"mutant does not compile: {e}"
            with open(p2, "w", encoding="utf-8") as f:
                f.write(s2)
        env = dict(os.environ)
        env["ALLFEDSA_REPO"] = tmp
        env["ALLFEDSA_EVIDENCE_DIR"] = os.path.join(tmp, "_evidence")
        p = subprocess.run([sys.executable, "-m", "allfedsa.cli", m["pid"], "--tier", "quick"], cwd=VERIF, env=env,
                           capture_output=True, text=True)
        out = p.stdout
        if m["expect"] is None:
            known = sorted(l for l in out.splitlines() if l.startswith("KNOWN-FINDING"))
            if p.returncode == 0 and known == base_known:
                return m["name"], "silent", ""
            return m["name"], "noisy", f"rc={p.returncode} " + " | ".join(
                l.strip() for l in out.splitlines() if "VIOLATION" in l or "ANALYSIS-ERROR" in l or l.startswith("  C"))[:600]
        hit = p.returncode == 1 and any(l.strip().startswith(m["expect"] + " ") or l.strip().startswith(m["expect"] + ".")
                                         for l in out.splitlines()) and "VIOLATION property=" in out
        if hit:
            return m["name"], "killed", ""
        return m["name"], "survived", f"rc={p.returncode} " + " | ".join(
            l.strip() for l in out.splitlines() if "VIOLATION" in l or "ANALYSIS-ERROR" in l or l.startswith("  C"))[:600]
    finally:
        shutil.rmtree(tmp, ignore_errors=True)


SEEDED_DIR = os.path.join(VERIF, "seeded")


# ---------------------------------------------------------------------------- rules added with the fourth round of seeded changes
M("C12", "optimizer-reads-process-wide-population", OPT,
  '            / self.consts_for_optimizer["BILLION_KCALS_NEEDED"]\n            * 100,\n            "Kcals_Fed_Month_" + str(month) + "_Constraint",',
  '            / Food.conversions.billion_kcals_needed\n            * 100,\n            "Kcals_Fed_Month_" + str(month) + "_Constraint",', "C12.SCALE")
M("C07", "reset-skipped-for-empty-herd", "src/food_system/animal_populations.py",
  '        self.NE_balance = Food(\n            self.net_energy_required_per_species(), 0, 0\n        )  # this is the feed required per month for the species',
  '        if self.current_population < 1:\n            return\n        self.NE_balance = Food(\n            self.net_energy_required_per_species(), 0, 0\n        )  # this is the feed required per month for the species',
  "C07.NE")
M("C05", "extra-meat-through-alias", "src/optimizer/parameters.py",
  '        extra_meat_round2 = (\n            time_consts_round2["each_month_meat_slaughtered"]\n            - time_consts_round1["each_month_meat_slaughtered"]\n        )',
  '        extra_meat_round2 = (\n            time_consts_round2["each_month_meat_slaughtered"]\n            - time_consts_round1["each_month_meat_slaughtered"]\n        )\n'
  '        shown_kcals = time_consts_round2["each_month_meat_slaughtered"].kcals\n        shown_kcals -= time_consts_round1["each_month_meat_slaughtered"].kcals',
  "C05.STATE")
M("C11", "label-list-stripped-in-place-by-a-callee", "src/food_system/unit_conversions.py",
  '        # the unit_multiplier refers to the fraction that the ratio this unit takes relative to the units billion',
  '        for index_, unit_ in enumerate(units):\n            if unit_.endswith(" per month"):\n                units[index_] = unit_[: -len(" per month")] + " per month"\n'
  '        # the unit_multiplier refers to the fraction that the ratio this unit takes relative to the units billion',
  "C11.PURE")
M("C17", "korea-labels-restyled", "src/utilities/import_utilities.py",
  '        "Republic of Korea",', '        "Korea (Republic of)",', "C17.WIRE")

# --- rules added with the tenth round of seeded changes
M("C13", "stock-ratio-rewritten-after-its-override", RUNF,
  '            assert 0 <= constants_for_params["RATIO_STOCKS_UNTOUCHED"] <= 1\n\n        # apply fix multiplier to crop production\n',
  '            assert 0 <= constants_for_params["RATIO_STOCKS_UNTOUCHED"] <= 1\n\n        if scenario_option_copy["stored_food"] == "zero":\n'
  '            constants_for_params["RATIO_STOCKS_UNTOUCHED"] = 0\n\n        # apply fix multiplier to crop production\n',
  "C13.OVERRIDE")
M("C13", "threshold-reset-by-a-setter-after-its-override", RUNF,
  '            assert 0 <= constants_for_params["RATIO_STOCKS_UNTOUCHED"] <= 1\n\n        # apply fix multiplier to crop production\n',
  '            assert 0 <= constants_for_params["RATIO_STOCKS_UNTOUCHED"] <= 1\n\n        if scenario_option_copy["scale"] == "global":\n'
  '            constants_for_params = scenario_loader.set_immediate_shutoff(\n                constants_for_params\n            )\n\n'
  '        # apply fix multiplier to crop production\n',
  "C13.OVERRIDE")
M("C13", "crop-ratio-rewritten-after-the-multiplier", RUNF,
  '            except BaseException:\n                pass\n\n        return constants_for_params, time_consts_for_params, scenario_loader',
  '            except BaseException:\n                pass\n\n        if scenario_option_copy["NMONTHS"] <= 12:\n'
  '            constants_for_params["RATIO_CROPS_YEAR2"] = 1\n\n        return constants_for_params, time_consts_for_params, scenario_loader',
  "C13.OVERRIDE")


def seeded_for(pid):
    """sub-agent-written defects kept under /verif/seeded/<id>/ (patch.diff + meta.json); an entry is replayed for every
    property listed in its meta.json `caught_by`"""
    out = []
    if not os.path.isdir(SEEDED_DIR):
        return out
    for d in sorted(os.listdir(SEEDED_DIR)):
        mp = os.path.join(SEEDED_DIR, d, "meta.json")
        if not os.path.exists(mp):
            continue
        with open(mp) as f:
            meta = json.load(f)
        for c in meta.get("caught_by", []):
            if c["property"] == pid:
                out.append({"pid": pid, "name": "seeded:" + d, "patch": os.path.join(SEEDED_DIR, d, "patch.diff"), "expect": c["rule"]})
    return out


def _run_seeded(m, base_known=None):
    tmp = tempfile.mkdtemp(prefix="allfedsa_seed_")
    try:
        _make_scratch(tmp)
        with open(m["patch"], encoding="utf-8", errors="replace") as pf:
            touches_data = any(l.startswith(("+++ b/data/", "--- a/data/")) for l in pf)
        if touches_data:
            os.unlink(os.path.join(tmp, "data"))
            shutil.copytree(os.path.join(REPO, "data"), os.path.join(tmp, "data"))
        p = subprocess.run(["git", "apply", "--unsafe-paths", "--directory", tmp, m["patch"]], cwd=tmp, capture_output=True, text=True)
        if p.returncode != 0:
            p = subprocess.run(["patch", "-p1", "-s", "-i", m["patch"]], cwd=tmp, capture_output=True, text=True)
            if p.returncode != 0:
                return m["name"], "stale", "patch no longer applies: " + (p.stderr or p.stdout)[:200]
        env = dict(os.environ)
        env["ALLFEDSA_REPO"] = tmp
        env["ALLFEDSA_EVIDENCE_DIR"] = os.path.join(tmp, "_evidence")
        p = subprocess.run([sys.executable, "-m", "allfedsa.cli", m["pid"], "--tier", "quick"], cwd=VERIF, env=env,
                           capture_output=True, text=True)
        out = p.stdout
        if m["expect"] is None:
            known = sorted(l for l in out.splitlines() if l.startswith("KNOWN-FINDING"))
            if p.returncode == 0 and (base_known is None or known == base_known):
                return m["name"], "silent", ""
            return m["name"], "noisy", f"rc={p.returncode} " + " | ".join(
                l.strip() for l in out.splitlines() if "VIOLATION" in l or "ANALYSIS-ERROR" in l or l.startswith("  C"))[:600]
        hit = p.returncode == 1 and any(l.strip().startswith(m["expect"] + " ") for l in out.splitlines()) and "VIOLATION property=" in out
        if hit:
            return m["name"], "killed", ""
        return m["name"], "survived", f"rc={p.returncode} " + " | ".join(
            l.strip() for l in out.splitlines() if "VIOLATION" in l or "ANALYSIS-ERROR" in l or l.startswith("  C"))[:600]
    finally:
        shutil.rmtree(tmp, ignore_errors=True)


REFACTOR_DIR = os.path.join(VERIF, "refactors")


def refactors_for(pid):
    """behaviour-preserving refactorings written by sub-agents (/verif/refactors/<id>/patch.diff, each verified bit-identical by a
    differential run): every one must leave every check silent"""
    out = []
    if not os.path.isdir(REFACTOR_DIR):
        return out
    for d in sorted(os.listdir(REFACTOR_DIR)):
        pp = os.path.join(REFACTOR_DIR, d, "patch.diff")
        if os.path.exists(pp):
            out.append({"pid": pid, "name": "refactor:" + d, "patch": pp, "expect": None})
    return out


def probes_for(pid):
    """whole-tree behaviour-preserving transformations (allfedsa/probes.py): re-emit every file; rename every local of one file"""
    from . import probes
    out = [{"pid": pid, "name": "probe:reformat", "probe": ("reformat", None), "expect": None}]
    # whole-tree syntactic rewrites (if/else arms swapped under a negated test, range(0, n) -> range(n), comparisons turned round,
    # positional <-> keyword arguments at calls whose callee is known)
    for kind in ("swap-else", "range0", "flip-compare", "keywordise", "positionalise"):
        out.append({"pid": pid, "name": "probe:" + kind, "probe": ("rewrite", kind), "expect": None})
    # statement-level rewrites: the call evaluated first kept in a temporary, `a, b = f()` via a kept tuple, conjunctive asserts split
    for kind in ("hoist-call", "split-unpack", "split-assert", "inline-local", "swap-independent", "dedent-else", "nest-after-return", "extract-tail"):
        out.append({"pid": pid, "name": "probe:" + kind, "probe": ("statements", kind), "expect": None})
    # signature rewrites: the parameters of every internal method (unique name, only ever called) rotated / renamed with all call sites
    for kind in ("reorder-params", "rename-params", "rename-methods"):
        out.append({"pid": pid, "name": "probe:" + kind, "probe": ("signatures", kind), "expect": None})
    for p in probes.source_files(REPO):
        rel = os.path.relpath(p, REPO)
        if rel.endswith("__init__.py") or "plot" in rel:
            continue
        src = open(p, encoding="utf-8").read()
        if "def " not in src:
            continue
        out.append({"pid": pid, "name": "probe:rename-locals:" + rel, "probe": ("rename", rel), "expect": None})
    return out


def _run_probe(m, base_known):
    from . import probes
    tmp = tempfile.mkdtemp(prefix="allfedsa_probe_")
    try:
        _make_scratch(tmp)
        kind, rel = m["probe"]
        if kind == "reformat":
            probes.reformat_tree(tmp)
        elif kind == "rewrite":
            if probes.rewrite_tree(tmp, rel) == 0:
                return m["name"], "silent", "nothing to rewrite"
        elif kind == "statements":
            if probes.rewrite_statements(tmp, rel) == 0:
                return m["name"], "silent", "nothing to rewrite"
        elif kind == "signatures":
            if probes.rewrite_signatures(tmp, rel) == 0:
                return m["name"], "silent", "nothing to rewrite"
        else:
            if probes.rename_file(tmp, rel) == 0:
                return m["name"], "silent", "nothing to rename"
        env = dict(os.environ)
        env["ALLFEDSA_REPO"] = tmp
        env["ALLFEDSA_EVIDENCE_DIR"] = os.path.join(tmp, "_evidence")
        p = subprocess.run([sys.executable, "-m", "allfedsa.cli", m["pid"], "--tier", "quick"], cwd=VERIF, env=env, capture_output=True, text=True)
        known = sorted(l for l in p.stdout.splitlines() if l.startswith("KNOWN-FINDING"))
        if p.returncode == 0 and known == base_known:
            return m["name"], "silent", ""
        return m["name"], "noisy", f"rc={p.returncode} " + " | ".join(
            l.strip() for l in p.stdout.splitlines() if "VIOLATION" in l or "ANALYSIS-ERROR" in l or l.startswith("  C"))[:600]
    finally:
        shutil.rmtree(tmp, ignore_errors=True)


def run(pid, jobs=None, only=None, with_probes=True):
    ms = [m for m in CORPUS if m["pid"] == pid and (only is None or m["name"] in only)]
    if with_probes:
        ms += [m for m in probes_for(pid) if only is None or m["name"] in only]
    ms += [m for m in seeded_for(pid) if only is None or m["name"] in only]
    ms += [m for m in refactors_for(pid) if only is None or m["name"] in only]
    res = {"mutants": 0, "killed": 0, "refactors": 0, "silent": 0, "survived": [], "noisy": [], "stale": []}
    if not ms:
        return res
    env = dict(os.environ)
    tmpev = tempfile.mkdtemp(prefix="allfedsa_base_")
    env["ALLFEDSA_EVIDENCE_DIR"] = tmpev
    try:
        _, base_known = _baseline_known(pid, env)
    finally:
        shutil.rmtree(tmpev, ignore_errors=True)
    jobs = jobs or min(16, os.cpu_count() or 4)
    with cf.ThreadPoolExecutor(max_workers=jobs) as ex:
        futs = [ex.submit(_run_probe, m, base_known) if "probe" in m else ex.submit(_run_seeded, m, base_known) if "patch" in m
                else ex.submit(_run_one, m, base_known) for m in ms]
        for m, fu in zip(ms, futs):
            name, status, info = fu.result()
            if m["expect"] is None:
                res["refactors"] += 1
            else:
                res["mutants"] += 1
            if status == "killed":
                res["killed"] += 1
            elif status == "silent":
                res["silent"] += 1
            elif status == "survived":
                res["survived"].append(f"{name}: {info}")
            elif status == "noisy":
                res["noisy"].append(f"{name}: {info}")
            else:
                res["stale"].append(f"{name}: {info}")
    return res


if __name__ == "__main__":
    import json

    pids = sys.argv[1:] or sorted({m["pid"] for m in CORPUS})
    bad = 0
    for pid in pids:
        r = run(pid)
        print(pid, json.dumps(r, indent=1))
        bad += len(r["survived"]) + len(r["noisy"])
    sys.exit(1 if bad else 0)
