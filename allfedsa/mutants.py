"""Mutation / refactoring corpus and runner for the thorough tier.

Each entry edits a scratch copy of /repo (under mktemp, removed afterwards) by exact text
replacement and runs the property's quick check against it (ALLFEDSA_REPO).  A mutant must be
reported by the named rule; a refactor (expect=None) must leave the verdict unchanged.
If the text to replace is no longer present (the repository changed), the entry is `stale`
and skipped - the corpus tests the checker, it is not itself a check of the repository."""
from __future__ import annotations

import concurrent.futures as cf
import os
import shutil
import subprocess
import sys
import tempfile

from .core import REPO, VERIF

OPT = "src/optimizer/optimizer.py"

CORPUS = []


def M(pid, name, file, old, new, expect, nth=0):
    CORPUS.append(dict(pid=pid, name=name, file=file, old=old, new=new, expect=expect, nth=nth))


# ---------------------------------------------------------------------------- C01
M("C01", "sf-prev-month-index", OPT,
  'variables["stored_food_start"][month]\n                == variables["stored_food_end"][month - 1]\n            )\n\n        conditions["Stored_Food_Eaten"]',
  'variables["stored_food_start"][month]\n                == variables["stored_food_end"][month]\n            )\n\n        conditions["Stored_Food_Eaten"]',
  "C01.SF")
M("C01", "sf-drop-biofuel-term", OPT,
  '            - variables["stored_food_feed"][month]\n            - variables["stored_food_biofuel"][month]\n        )\n\n        return conditions',
  '            - variables["stored_food_feed"][month]\n        )\n\n        return conditions',
  "C01.SF")
M("C01", "cs-wrong-waste-key", OPT,
  '/ (1 - self.consts_for_optimizer["CELL_SUGAR_RETAIL_WASTE"] / 100)',
  '/ (1 - self.consts_for_optimizer["SCP_RETAIL_WASTE"] / 100)', "C01.CS")
M("C01", "scp-sense-flipped", OPT,
  'total_methane_scp <= self.time_consts["methane_scp"].kcals[month]',
  'total_methane_scp >= self.time_consts["methane_scp"].kcals[month]', "C01.SCP")
M("C01", "lowbound-removed", OPT,
  'return LpVariable(variable_name, lowBound=0)', 'return LpVariable(variable_name)', "C01.NONNEG")
M("C01", "crops-none-left-deleted", OPT,
  '            conditions["Crops_Food_None_Left"] = (\n                variables["crops_food_storage"][month] == 0\n            )',
  '            pass', "C01.TERM")
M("C01", "last-month-off-by-one", OPT,
  '        elif month == self.NMONTHS - 1:  # last month\n            # be sure to eat all the stored food',
  '        elif month == self.NMONTHS:  # last month\n            # be sure to eat all the stored food', "C01.TERM")
M("C01", "monotone-flipped", OPT,
  'conditions["Feed_Decreases"] = feed_sum_previous_month >= feed_sum',
  'conditions["Feed_Decreases"] = feed_sum_previous_month <= feed_sum', "C01.MONO")
M("C01", "intake-before-consumption", OPT,
  '''            if optimization_type == "to_humans":
                (
                    model,
                    variables,
                ) = self.add_total_human_consumption_to_model(
                    model, variables, month, optimization_type
                )

            # Add percentage intake constraints to the model (HAS TO HAPPEN AFTER ADDING TOTAL HUMAN CONSUMPTION)
            model = self.add_percentage_intake_constraints(
                model, variables, month, optimization_type
            )
''',
  '''            # Add percentage intake constraints to the model (HAS TO HAPPEN AFTER ADDING TOTAL HUMAN CONSUMPTION)
            model = self.add_percentage_intake_constraints(
                model, variables, month, optimization_type
            )
            if optimization_type == "to_humans":
                (
                    model,
                    variables,
                ) = self.add_total_human_consumption_to_model(
                    model, variables, month, optimization_type
                )
''', "C01.ORDER")
M("C01", "crop-production-previous-month", OPT,
  '''                == self.time_consts["outdoor_crops"].production.kcals[month]
                + variables["crops_food_storage"][month - 1]
                - variables["crops_food_consumed"][month]
            )
        }
        # Return the conditions''',
  '''                == self.time_consts["outdoor_crops"].production.kcals[month - 1]
                + variables["crops_food_storage"][month - 1]
                - variables["crops_food_consumed"][month]
            )
        }
        # Return the conditions''', "C01.CROP")
M("C01", "meat-ledger-no-waste", OPT,
  '''        ][month] - variables["meat_eaten"][month] * 1 / (
            1 - self.consts_for_optimizer["MEAT_WASTE_RETAIL"] / 100
        )''',
  '''        ][month] - variables["meat_eaten"][month]''', "C01.MEAT")
M("C01", "seaweed-density-bound-dropped", OPT,
  '''        conditions["Seaweed_Wet_On_Farm_Upperbound"] = (
            variables["seaweed_wet_on_farm"][month] <= max_density * built_area
        )''', '', "C01.SW")
M("C01", "seaweed-feed-not-subtracted", OPT,
  '''                - feed_consumed
                - biofuel_consumed
                - (curr_used_area''', '''                - biofuel_consumed
                - (curr_used_area''', "C01.SW")
M("C01", "feed-equality-to-inequality", OPT,
  '''                conditions["Feed_Used"] = (
                    feed_sum == self.time_consts["feed"].kcals[month]
                )''',
  '''                conditions["Feed_Used"] = (
                    feed_sum <= self.time_consts["feed"].kcals[month]
                )''', "C01.FB_EQ")
M("C01", "biofuel-ceiling-uses-feed-ceiling", OPT,
  '''                    <= self.time_consts["max_biofuel_that_could_be_used"].kcals[month]''',
  '''                    <= self.time_consts["max_feed_that_could_be_used"].kcals[month]''', "C01.FB_LE")
M("C01", "feed-sum-forgets-seaweed-kcals", OPT,
  '''            + variables["seaweed_feed"][month]
            * self.consts_for_optimizer["SEAWEED_KCALS"]''',
  '''            + variables["seaweed_feed"][month]''', "C01.FB_EQ")
# refactors that must stay silent
M("C01", "R-reorder-ledger-terms", OPT,
  '''            - variables["stored_food_feed"][month]
            - variables["stored_food_biofuel"][month]
        )

        return conditions''',
  '''            - variables["stored_food_biofuel"][month]
            - variables["stored_food_feed"][month]
        )

        return conditions''', None)
M("C01", "R-scale-scp-constraint", OPT,
  'total_methane_scp <= self.time_consts["methane_scp"].kcals[month]',
  '2 * total_methane_scp <= 2 * self.time_consts["methane_scp"].kcals[month]', None)
M("C01", "R-gross-up-on-other-side", OPT,
  '''        total_cellulosic_sugar = (
            variables["cellulosic_sugar_to_humans"][month]
            * 1
            / (1 - self.consts_for_optimizer["CELL_SUGAR_RETAIL_WASTE"] / 100)
            + variables["cellulosic_sugar_feed"][month]
            + variables["cellulosic_sugar_biofuel"][month]
        )''',
  '''        keep = 1 - self.consts_for_optimizer["CELL_SUGAR_RETAIL_WASTE"] / 100
        total_cellulosic_sugar = (
            variables["cellulosic_sugar_to_humans"][month]
            + keep * variables["cellulosic_sugar_feed"][month]
            + keep * variables["cellulosic_sugar_biofuel"][month]
        ) / keep''', None)
M("C01", "R-eliminate-start-variable", OPT,
  '''        conditions["Stored_Food_Eaten"] = (
            variables["stored_food_end"][month]
            == variables["stored_food_start"][month]
            - variables["stored_food_to_humans"][month]
            * 1
            / (
                1 - self.consts_for_optimizer["STORED_FOOD_WASTE_RETAIL"] / 100
            )  # increase calories, fat, and protein humans consumed by retail waste coefficient
            - variables["stored_food_feed"][month]
            - variables["stored_food_biofuel"][month]
        )

        return conditions''',
  '''        prev = (
            self.consts_for_optimizer["stored_food"].initial_available.kcals
            if month == 0
            else variables["stored_food_end"][month - 1]
        )
        conditions["Stored_Food_Eaten"] = (
            variables["stored_food_end"][month]
            + variables["stored_food_to_humans"][month]
            / (1 - self.consts_for_optimizer["STORED_FOOD_WASTE_RETAIL"] / 100)
            + variables["stored_food_feed"][month]
            + variables["stored_food_biofuel"][month]
            == prev
        )

        return conditions''', None)
M("C01", "R-rename-locals-seaweed", OPT,
  '''            prev_seaweed = variables["seaweed_wet_on_farm"][month - 1]''',
  '''            prev_seaweed = variables["seaweed_wet_on_farm"][month - 1]
            last_month_biomass = prev_seaweed
            prev_seaweed = last_month_biomass''', None)


# ---------------------------------------------------------------------------- runner

COPY = ["src", "scenarios", "scripts", "plot_manuscript_figures.py", "tests"]


def _make_scratch(base):
    for item in COPY:
        src = os.path.join(REPO, item)
        dst = os.path.join(base, item)
        if os.path.isdir(src):
            shutil.copytree(src, dst, ignore=shutil.ignore_patterns("__pycache__", "*.pyc"))
        elif os.path.exists(src):
            shutil.copy2(src, dst)
    os.symlink(os.path.join(REPO, "data"), os.path.join(base, "data"))


def _baseline_known(pid, env):
    p = subprocess.run([sys.executable, "-m", "allfedsa.cli", pid, "--tier", "quick"], cwd=VERIF, env=env,
                       capture_output=True, text=True)
    return p.returncode, sorted(l for l in p.stdout.splitlines() if l.startswith("KNOWN-FINDING"))


def _run_one(m, base_known):
    tmp = tempfile.mkdtemp(prefix="allfedsa_mut_")
    try:
        _make_scratch(tmp)
        path = os.path.join(tmp, m["file"])
        if m.get("copy_data"):
            os.unlink(os.path.join(tmp, "data"))
            shutil.copytree(os.path.join(REPO, "data"), os.path.join(tmp, "data"))
        with open(path, encoding="utf-8") as f:
            src = f.read()
        cnt = src.count(m["old"])
        if cnt == 0:
            return m["name"], "stale", "text to replace not found"
        if cnt > 1 and not m.get("nth"):
            return m["name"], "stale", f"text to replace is ambiguous ({cnt} matches)"
        if m.get("nth"):
            parts = src.split(m["old"])
            n = m["nth"]
            src2 = m["old"].join(parts[:n]) + m["new"] + m["old"].join(parts[n:])
        else:
            src2 = src.replace(m["old"], m["new"])
        if m["file"].endswith(".py"):
            try:
                compile(src2, path, "exec")
            except SyntaxError as e:
                return m["name"], "stale", f"mutant does not compile: {e}"
        with open(path, "w", encoding="utf-8") as f:
            f.write(src2)
        env = dict(os.environ)
        env["ALLFEDSA_REPO"] = tmp
        env["ALLFEDSA_EVIDENCE_DIR"] = os.path.join(tmp, "_evidence")
        p = subprocess.run([sys.executable, "-m", "allfedsa.cli", m["pid"], "--tier", "quick"], cwd=VERIF, env=env,
                           capture_output=True, text=True)
        out = p.stdout
        if m["expect"] is None:
            known = sorted(l for l in out.splitlines() if l.startswith("KNOWN-FINDING"))
            if p.returncode == 0 and known == base_known:
                return m["name"], "silent", ""
            return m["name"], "noisy", f"rc={p.returncode} " + " | ".join(
                l.strip() for l in out.splitlines() if "VIOLATION" in l or "ANALYSIS-ERROR" in l or l.startswith("  C"))[:600]
        hit = p.returncode == 1 and any(l.strip().startswith(m["expect"] + " ") or l.strip().startswith(m["expect"] + ".")
                                         for l in out.splitlines()) and "VIOLATION property=" in out
        if hit:
            return m["name"], "killed", ""
        return m["name"], "survived", f"rc={p.returncode} " + " | ".join(
            l.strip() for l in out.splitlines() if "VIOLATION" in l or "ANALYSIS-ERROR" in l or l.startswith("  C"))[:600]
    finally:
        shutil.rmtree(tmp, ignore_errors=True)


def run(pid, jobs=None, only=None):
    ms = [m for m in CORPUS if m["pid"] == pid and (only is None or m["name"] in only)]
    res = {"mutants": 0, "killed": 0, "refactors": 0, "silent": 0, "survived": [], "noisy": [], "stale": []}
    if not ms:
        return res
    env = dict(os.environ)
    tmpev = tempfile.mkdtemp(prefix="allfedsa_base_")
    env["ALLFEDSA_EVIDENCE_DIR"] = tmpev
    try:
        _, base_known = _baseline_known(pid, env)
    finally:
        shutil.rmtree(tmpev, ignore_errors=True)
    jobs = jobs or min(16, os.cpu_count() or 4)
    with cf.ThreadPoolExecutor(max_workers=jobs) as ex:
        futs = [ex.submit(_run_one, m, base_known) for m in ms]
        for m, fu in zip(ms, futs):
            name, status, info = fu.result()
            if m["expect"] is None:
                res["refactors"] += 1
            else:
                res["mutants"] += 1
            if status == "killed":
                res["killed"] += 1
            elif status == "silent":
                res["silent"] += 1
            elif status == "survived":
                res["survived"].append(f"{name}: {info}")
            elif status == "noisy":
                res["noisy"].append(f"{name}: {info}")
            else:
                res["stale"].append(f"{name}: {info}")
    return res


if __name__ == "__main__":
    import json

    pids = sys.argv[1:] or sorted({m["pid"] for m in CORPUS})
    bad = 0
    for pid in pids:
        r = run(pid)
        print(pid, json.dumps(r, indent=1))
        bad += len(r["survived"]) + len(r["noisy"])
    sys.exit(1 if bad else 0)
