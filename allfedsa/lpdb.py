"""Optimiser template database: the constraint templates of every LP-building function of
src/optimizer/optimizer.py for every (month class x round x option flag) environment,
extracted by abstract evaluation (E2) of the current source."""
from __future__ import annotations

import ast

from .core import AnalysisError, Index
from .rat import Rat, V, K, Idx
from . import symx
from .symx import (Interp, Obj, Path, PDict, PList, RLE, NewVar, VarsDict, Model, Cmp, MonthClass,
                   Unsupported, explore, Abort, BoundMethod, MONTH, NSYM)

OPT = "src/optimizer/optimizer.py"

HUMANS_ONLY_FAMILIES = ("consumed_kcals", "consumed_fat", "consumed_protein")


class Template:
    def __init__(self, entry, opt_type, mc, decisions, constraints, interp, model=None, result=None, aborted=None):
        self.entry = entry
        self.opt_type = opt_type
        self.mc = mc
        self.decisions = decisions
        self.constraints = constraints  # list of (name, Cmp|bool)
        self.interp = interp
        self.model = model
        self.result = result
        self.aborted = aborted

    def env_key(self):
        d = ",".join(f"{k}={'T' if v else 'F'}" for k, v in sorted(self.decisions.items()))
        return f"{self.entry}|{self.opt_type}|{self.mc}|{d}"

    def equalities(self):
        return [c.expr for _, c in self.constraints if isinstance(c, Cmp) and c.sense == "=="]

    def inequalities(self):
        return [c.expr for _, c in self.constraints if isinstance(c, Cmp) and c.sense == "<="]

    def named(self, name):
        return [c for n, c in self.constraints if n == name]


class LPDB:
    def __init__(self, index: Index):
        self.index = index
        self.cls = index.cls(OPT, "Optimizer")
        self.classes = {"Optimizer": self.cls}
        self.templates = []
        self.n_envs = 0
        self._setup()

    # -------------------------------------------------------------- object model
    def new_self(self, it, opt_type):
        it.classes = self.classes
        it.path_alias = {("consts", "NMONTHS"): Rat.atom(NSYM)}
        it.path_keys = {("consts",): self._const_keys()}
        obj = Obj(self.cls, {}, "self")
        init = self.index.func(OPT, "Optimizer.__init__")
        from .core import bind_named
        a_, k_ = bind_named(init, [("consts_for_optimizer", Path(("consts",))), ("time_consts", Path(("tc",)))])
        it.call_function(init, a_, k_, obj)
        obj.attrs["optimization_type"] = opt_type
        return obj

    def _setup(self):
        it = Interp()
        try:
            obj = self.new_self(it, "to_humans")
        except (Unsupported, symx.Fork, symx.MonthSplit) as e:
            raise AnalysisError(f"Optimizer.__init__ outside the analysed fragment: {e!r}")
        rc = obj.attrs.get("resource_constants")
        iv = obj.attrs.get("initial_variables")
        if not isinstance(rc, PDict) or not isinstance(iv, PDict):
            raise AnalysisError("Optimizer.__init__ no longer builds resource_constants / initial_variables as tables")
        self.resources = {}
        self.family_flag = {}
        for flag, row in rc.d.items():
            if isinstance(row, (tuple, PList)) and len(row if isinstance(row, tuple) else row.items) == 3:
                # a record (named tuple) of the same three things: told apart by what they are
                items = list(row) if isinstance(row, tuple) else list(row.items)
                names = [x for x in items if isinstance(x, str)]
                lists = [x for x in items if isinstance(x, PList)]
                funcs = [x for x in items if isinstance(x, BoundMethod)]
                if len(names) == len(lists) == len(funcs) == 1:
                    row = PDict({"food_name": names[0], "prefixes": lists[0], "function": funcs[0]})
            if not isinstance(row, PDict) or set(row.d) != {"food_name", "prefixes", "function"}:
                raise AnalysisError("resource_constants row shape changed: " + str(flag))
            prefixes = row.d["prefixes"]
            fn = row.d["function"]
            if not isinstance(prefixes, PList) or not isinstance(fn, BoundMethod):
                raise AnalysisError("resource_constants row not (list, bound method): " + str(flag))
            fams = [p.lower() for p in prefixes.items]
            self.resources[flag] = dict(food_name=row.d["food_name"], families=fams, function=fn.fn.name,
                                        prefixes=list(prefixes.items))
            for f in fams:
                if f in self.family_flag:
                    raise AnalysisError("family owned by two resources: " + f)
                self.family_flag[f] = flag
        self.initial_families = {}
        self.single_vars = {}
        for k, v in iv.d.items():
            if isinstance(v, RLE):
                self.initial_families[k] = v
            elif isinstance(v, NewVar):
                self.single_vars[k] = v
            else:
                raise AnalysisError(f"initial_variables[{k!r}] is neither a month list nor an LpVariable")

    def _const_keys(self):
        """the keys the parameter code stores into the constants table it hands to the optimiser (`constants_out["K"] = ...` anywhere in
        parameters.py, also under other names of that table)"""
        if getattr(self, "_ck", None) is None:
            ks = set()
            mod = self.index.module("src/optimizer/parameters.py")
            for n_ in ast.walk(mod):
                if isinstance(n_, ast.Subscript) and isinstance(n_.ctx, ast.Store) and isinstance(n_.slice, ast.Constant) and isinstance(n_.slice.value, str) \
                        and isinstance(n_.value, ast.Name) and "constants" in n_.value.id.lower():
                    ks.add(n_.slice.value)
            self._ck = ks
        return self._ck

    def make_vars(self, obj):
        db = self

        def enabled(family, interp):
            if family in db.family_flag:
                return interp.truth(Path(("consts", db.family_flag[family])))
            if family in HUMANS_ONLY_FAMILIES:
                return obj.attrs["optimization_type"] == "to_humans"
            raise Unsupported("read of unknown variable family " + family)

        vd = VarsDict(enabled)
        for k, nv in self.single_vars.items():
            nv2 = NewVar(nv.name, nv.low, nv.up, nv.node)
            nv2.atom = V(k, None)
            vd.extra[k] = nv2
        return vd

    # -------------------------------------------------------------- extraction
    def extract(self, entry, opt_type, call, preset=None, month_param=True):
        """call(interp, self_obj, model, variables, month) -> result"""
        outs = []

        def run(it):
            obj = self.new_self(it, opt_type)
            model = Model()
            vd = self.make_vars(obj)
            it._self = obj
            it._vars = vd
            it._model = model
            res = call(it, obj, model, vd, Rat.atom(MONTH))
            return res

        try:
            try:
                envs = explore(run, month_classes=month_param, preset=preset)
            except Unsupported as e:
                if "environment bound exceeded" not in str(e):
                    raise
                # many independent data-dependent tests (2^k combinations): explored with a larger budget rather than given up
                envs = explore(run, month_classes=month_param, preset=preset, max_envs=1 << 17)
        except Unsupported as e:
            raise AnalysisError(f"{entry} ({opt_type}) outside the analysed fragment: {e}")
        for mc, dec, res, it in envs:
            self.n_envs += 1
            used = {k: v for k, v in dec.items() if k in it.used_decisions or k in (preset or {})}
            if isinstance(res, Abort):
                t = Template(entry, opt_type, mc, used, [], it, aborted=res.why)
            else:
                t = Template(entry, opt_type, mc, used, list(it._model.constraints), it, model=it._model, result=res)
            outs.append(t)
        # merge environments that differ only in decisions never consulted on that path
        seen = {}
        for t in outs:
            seen.setdefault(t.env_key(), t)
        outs = list(seen.values())
        self.templates.extend(outs)
        return outs

    def method(self, name):
        return self.index.func(OPT, "Optimizer." + name)

    def extract_resource(self, flag, opt_type):
        row = self.resources[flag]
        fn = self.method("add_resource_specific_conditions_to_model")

        fn = _month_param_view(fn)

        def call(it, obj, model, vd, month):
            func = BoundMethod(obj, self.method(row["function"]))
            entry = PDict({"prefixes": PList(list(row["prefixes"])), "function": func, "food_name": row["food_name"]})
            kwargs = self.by_role(fn, dict(model=model, variables=vd, month=month, optimization_type=opt_type, function=func,
                                           food_name=row["food_name"], resource=entry))
            return it.call_function(fn, [], kwargs, obj)

        return self.extract("resource:" + flag, opt_type, call, preset={"consts." + flag: True})

    ROLE_WORDS = (("model", ("model", "problem", "lp")), ("variables", ("variables", "vars", "variable")),
                  ("month", ("month", "m", "t")), ("optimization_type", ("optimization_type", "opt_type", "type")),
                  ("function", ("func", "function", "fn", "callback")), ("food_name", ("food_name", "name", "food")),
                  ("maximize_constraints", ("maximize_constraints", "constraints", "objectives")),
                  ("nmonths", ("nmonths", "n_months", "n")), ("resource", ("resource", "resource_entry", "entry", "row")))

    def _from_call_site(self, fn, pname, roles, it, obj):
        """value of a parameter that has no role of its own: the one call of `fn` in the class says what is handed over for it (`limit[month]`
        with `limit` looked up before the month loop, ...) - that expression, with the caller's locals propagated, is evaluated with the
        caller's own parameters and loop variables standing for the values known by role"""
        from .core import Inliner, bind_args, walk_no_nested
        sites = []
        for m in [m for m in self.cls.body if isinstance(m, ast.FunctionDef) and m is not fn]:
            for st in walk_no_nested(m):
                if isinstance(st, (ast.Assign, ast.Expr, ast.AugAssign, ast.Return)):
                    for c in ast.walk(st):
                        if isinstance(c, ast.Call) and isinstance(c.func, ast.Attribute) and c.func.attr == fn.name \
                                and isinstance(c.func.value, ast.Name) and c.func.value.id == "self":
                            sites.append((m, st, c))
        if len(sites) != 1:
            raise AnalysisError(f"{fn.name}: parameter {pname!r} has no role the builder's call gives it (known: {sorted(roles)}) and the class "
                                f"calls {fn.name} {len(sites)} times")
        m, st, c = sites[0]
        bound = bind_args(c, fn)
        if pname not in bound:
            raise AnalysisError(f"{fn.name}: the call in {m.name} hands nothing over for {pname!r}")
        e = Inliner(m).at(st).expr(bound[pname])
        env = {"self": obj}
        names = {n.id for n in ast.walk(e) if isinstance(n, ast.Name)}
        for nme in names:
            low = nme.lower()
            for r, words in self.ROLE_WORDS:
                if r in roles and (low == r or low in words):
                    env[nme] = roles[r]
                    break
        missing = sorted(n_ for n_ in names if n_ not in env and n_ not in ("np", "self"))
        if missing:
            # locals the caller sets on alternative paths (an if/elif over the round, ...): the top-level statements of the caller that
            # bind them, before the one that holds the call, are executed with the values known by role
            top = None
            for s_ in m.body:
                if any(x is c for x in ast.walk(s_)):
                    top = s_
                    break
            pre = []
            for s_ in m.body:
                if s_ is top:
                    break
                if any(isinstance(x, ast.Name) and isinstance(x.ctx, ast.Store) and x.id in missing for x in ast.walk(s_)):
                    pre.append(s_)
            if pre:
                for s_ in pre:
                    for nme in {n.id for n in ast.walk(s_) if isinstance(n, ast.Name) and isinstance(n.ctx, ast.Load)}:
                        low = nme.lower()
                        for r, words in self.ROLE_WORDS:
                            if nme not in env and r in roles and (low == r or low in words):
                                env[nme] = roles[r]
                try:
                    it.exec_block(pre, env)
                except Unsupported as ex:
                    raise AnalysisError(f"{fn.name}: the statements of {m.name} that prepare {missing} are outside the analysed fragment: {ex}")
                missing = sorted(n_ for n_ in names if n_ not in env and n_ not in ("np", "self"))
        if missing:
            raise AnalysisError(f"{fn.name}: what {m.name} hands over for {pname!r} ({ast.unparse(e)[:80]}) reads {missing}, which the builder's "
                                "call does not know")
        try:
            return it.eval(e, env)
        except Unsupported as ex:
            raise AnalysisError(f"{fn.name}: what {m.name} hands over for {pname!r} is outside the analysed fragment: {ex}")

    def by_role(self, fn, roles, partial=False, site=None):
        """keyword arguments for `fn` from values known by role: a parameter takes the value whose role its name states (or, for the
        function role, the parameter the body calls); parameters of `fn` with no role here and a default are left to the default.  The
        order, number and spelling of the parameters are the callee's own business"""
        from .core import walk_no_nested
        params = [a.arg for a in fn.args.args][1:]
        n_default = len(fn.args.defaults)
        called = {c.func.id for c in walk_no_nested(fn) if isinstance(c, ast.Call) and isinstance(c.func, ast.Name)}
        # what the body does with a parameter says what it is, whatever it is called: the LP is added to (`p += ...`) or asked for its
        # objective; the variable table is subscripted with a family name
        as_model = {n.target.id for n in walk_no_nested(fn) if isinstance(n, ast.AugAssign) and isinstance(n.target, ast.Name)} | {
            n.value.id for n in walk_no_nested(fn) if isinstance(n, ast.Attribute) and n.attr == "objective" and isinstance(n.value, ast.Name)}
        as_vars = {n.value.id for n in walk_no_nested(fn) if isinstance(n, ast.Subscript) and isinstance(n.value, ast.Name)
                   and isinstance(n.slice, ast.Constant) and isinstance(n.slice.value, str)}
        out = {}
        direct = {}
        for i, p_ in enumerate(params):
            low = p_.lower()
            role = None
            if p_ in called and "function" in roles:
                role = "function"
            elif "model" in roles and p_ in as_model and p_ not in as_vars and len(as_model & set(params)) == 1:
                role = "model"
            elif "variables" in roles and p_ in as_vars and p_ not in as_model and len(as_vars & set(params) - as_model) == 1:
                role = "variables"
            else:
                for r, words in self.ROLE_WORDS:
                    if r in roles and (low == r or low in words):
                        role = r
                        break
                if role is None:
                    for r, words in self.ROLE_WORDS:
                        if r in roles and r not in out.values() and any(w in low.split("_") or (len(w) > 3 and w in low)
                                                                         for w in words):
                            role = r
                            break
            if role is None:
                if i >= len(params) - n_default or partial:
                    continue
                if site is not None:
                    direct[p_] = self._from_call_site(fn, p_, roles, site[0], site[1])
                    continue
                raise AnalysisError(f"{fn.name}: parameter {p_!r} has no role the builder's call gives it "
                                    f"(known: {sorted(roles)})")
            out[p_] = role
        res = {p_: roles[r] for p_, r in out.items()}
        res.update(direct)
        return res

    def extract_method(self, name, opt_type, argfn, preset=None, month_param=True):
        fn = self.method(name)

        def call(it, obj, model, vd, month):
            got = argfn(it, obj, model, vd, month)
            if isinstance(got, dict):
                return it.call_function(fn, [], self.by_role(fn, got, site=(it, obj)), obj)
            args, kwargs = got
            return it.call_function(fn, args, kwargs, obj)

        return self.extract(name, opt_type, call, preset=preset, month_param=month_param)

    # -------------------------------------------------------------- spec evaluation
    def spec(self, template, text, extra=None):
        """evaluate a specification expression in the environment (month class, decisions) of
        `template`; names: variables, consts, tc, month, N"""
        it = Interp(month_class=template.mc, decisions=dict(template.decisions))
        it.classes = self.classes
        it.path_alias = {("consts", "NMONTHS"): Rat.atom(NSYM)}
        obj = Obj(self.cls, {"optimization_type": template.opt_type}, "self")
        vd = self.make_vars(obj)
        env = {"variables": vd, "consts": Path(("consts",)), "tc": Path(("tc",)), "month": Rat.atom(MONTH),
               "N": Rat.atom(NSYM)}
        env.update(extra or {})
        node = ast.parse(text.strip(), mode="eval").body
        try:
            v = it.eval(node, env)
            if isinstance(v, (Path, NewVar)):
                v = it.to_rat(v)
            return v
        except symx.Fork as f:
            # a flag the template never consulted: the obligation does not depend on it in the code; take the
            # enabling value so that the spec's variables exist
            it.decisions[f.key] = True
            return self.spec(_with(template, f.key, True), text, extra)


def _with(t, key, val):
    d = dict(t.decisions)
    d[key] = val
    return Template(t.entry, t.opt_type, t.mc, d, t.constraints, t.interp, t.model, t.result, t.aborted)


# ------------------------------------------------------------------------------------------
# whole-database build and obligation helpers

from .rat import Interval, INF, rat_sign, in_span, solve_combination  # noqa: E402


def _month_param_view(fn):
    """a constraint builder that loops over the months itself (`for month in range(0, self.NMONTHS): ...` as a statement of its body, no
    month parameter) read as the builder of one month: the loop variable becomes a parameter, the loop its body.  The templates are per
    month class either way."""
    import copy
    params = [a.arg.lower() for a in fn.args.args]
    if any(p_ in ("month", "m", "t") for p_ in params):
        return fn
    body = [s_ for s_ in fn.body if not (isinstance(s_, ast.Expr) and isinstance(s_.value, ast.Constant))]
    loops = [s_ for s_ in body if isinstance(s_, ast.For) and isinstance(s_.target, ast.Name) and isinstance(s_.iter, ast.Call)
             and getattr(s_.iter.func, "id", None) == "range"
             and [ast.unparse(a_) for a_ in s_.iter.args] in (["0", "self.NMONTHS"], ["self.NMONTHS"]) and not s_.orelse]
    if len(loops) != 1:
        return fn
    lp = loops[0]
    i = body.index(lp)
    new = copy.copy(fn)
    new.args = copy.deepcopy(fn.args)
    new.args.args = list(new.args.args) + [ast.arg(arg=lp.target.id)]
    new.body = body[:i] + list(lp.body) + body[i + 1:]
    ast.copy_location(new.args.args[-1], fn)
    new._month_view_of = fn
    return new


def lp_model_param(fn):
    """the parameter of an Optimizer routine that is the LP: the one the body solves, adds constraints to (`p += ...`), copies or asks for
    its objective - whatever it is called and wherever it stands in the signature; None unless exactly one parameter is used so"""
    from .core import walk_no_nested
    params = [a.arg for a in fn.args.args]
    used = set()
    for n in walk_no_nested(fn):
        if isinstance(n, ast.AugAssign) and isinstance(n.target, ast.Name):
            used.add(n.target.id)
        if isinstance(n, ast.Attribute) and n.attr in ("solve", "copy", "objective") and isinstance(n.value, ast.Name):
            used.add(n.value.id)
    # a local that merely renames (or copies) a parameter and is then used as the LP makes that parameter the LP
    for _ in range(3):
        for n in walk_no_nested(fn):
            if isinstance(n, ast.Assign) and len(n.targets) == 1 and isinstance(n.targets[0], ast.Name) and n.targets[0].id in used:
                v = n.value
                if isinstance(v, ast.Call) and isinstance(v.func, ast.Attribute) and v.func.attr == "copy" and not v.args:
                    v = v.func.value
                if isinstance(v, ast.Name):
                    used.add(v.id)
    hits = [p_ for p_ in params if p_ in used]
    return hits[0] if len(hits) == 1 else None


def _floor_args(db, index, helper):
    """arguments of a floor helper as its one call site in run_optimizations_on_constraints gives them: (model, variables) plus whatever
    else the call passes (e.g. a floor value computed by the caller), each evaluated from the caller's own definitions with `model`
    standing for the model just solved"""
    from .core import Inliner, bind_args, walk_no_nested, dotted
    caller = db.method("run_optimizations_on_constraints")
    callee = db.method(helper)
    sites = [c for c in walk_no_nested(caller) if isinstance(c, ast.Call) and dotted(c.func) == "self." + helper]
    if len(sites) != 1:
        raise symx.Unsupported(f"run_optimizations_on_constraints: expected one call of {helper}", caller)
    inl = Inliner(caller).at(sites[0])
    bound = bind_args(sites[0], callee)
    params = [a.arg for a in callee.args.args][1:]

    def argfn(it, obj, model, vd, month):
        env = {"model": model, "variables": vd, "self": obj}
        for p_ in [a.arg for a in caller.args.args][1:]:
            env.setdefault(p_, Path((p_,)))
        kwargs = db.by_role(callee, dict(model=model, variables=vd), partial=True)
        for p_ in params:
            if p_ in bound and p_ not in kwargs:
                kwargs[p_] = it.eval(inl.expr(bound[p_]), env)
        return [], kwargs

    return argfn


def build_all(index):
    db = LPDB(index)
    for flag in db.resources:
        for opt in ("to_humans", "to_animals"):
            db.extract_resource(flag, opt)
    mv = lambda it, obj, model, vd, month: dict(model=model, variables=vd, month=month,
                                                optimization_type=obj.attrs["optimization_type"])
    for opt in ("to_humans", "to_animals"):
        db.extract_method("add_feed_biofuel_to_model", opt, mv)
        db.extract_method("add_percentage_intake_constraints", opt, mv)
    db.extract_method("add_total_human_consumption_to_model", "to_humans", mv)
    # the objective of one month, called per month by the builder - or, when the routine loops over the months itself, all of them at once
    mm = db.method("add_maximize_min_month_objective_to_model")
    mm_params = [a.arg.lower() for a in mm.args.args][1:]
    if any(p_ in ("month", "m", "t") for p_ in mm_params):
        db.extract_method(
            "add_maximize_min_month_objective_to_model", "to_humans",
            lambda it, obj, model, vd, month: dict(model=model, variables=vd, month=month, maximize_constraints=PList([])),
        )
    else:
        db.extract_method(
            "add_maximize_min_month_objective_to_model", "to_humans",
            lambda it, obj, model, vd, month: {k_: v_ for k_, v_ in dict(model=model, variables=vd, maximize_constraints=PList([])).items()
                                              if k_ != "maximize_constraints" or any("constraint" in p_ for p_ in mm_params)},
            month_param=False,
        )
    db.extract_method(
        "add_maximize_sum_total_feed_used_by_animals", "to_animals",
        lambda it, obj, model, vd, month: {k_: v_ for k_, v_ in dict(model=model, variables=vd, nmonths=Rat.atom(NSYM)).items()
                                          if k_ != "nmonths" or len(db.method("add_maximize_sum_total_feed_used_by_animals").args.args) > 3},
        month_param=False,
    )
    for floor_helper, opt in (("constrain_next_optimization_to_have_same_minimum_starvation", "to_humans"),
                              ("constrain_next_optimization_to_have_same_feed_biofuel", "to_animals")):
        db.extract_method(floor_helper, opt, _floor_args(db, index, floor_helper), month_param=False)
    return db


def ranges(atom):
    """declared value ranges used only to decide the sign of scaling factors"""
    if isinstance(atom, K):
        last = [p for p in atom.path if p not in ("[]",)]
        name = last[-1] if last else ""
        up = ".".join(atom.path).upper()
        if "WASTE" in up:
            return Interval(0, 100, False, True)  # a waste percentage is < 100
        if "PERCENT" in up:
            return Interval(0, 100)
        if name in ("SEAWEED_KCALS", "BILLION_KCALS_NEEDED", "POP", "KCALS_MONTHLY", "MAXIMUM_DENSITY",
                    "MINIMUM_DENSITY"):
            return Interval(0, INF, True, True)
        return Interval(0, INF, False, True)  # supplies, areas, rates: non-negative
    if atom == NSYM:
        return Interval(48, 120)
    return None


def positive(r):
    return rat_sign(r, ranges) == "+"


def implied_eq(t, target):
    """is `target == 0` a consequence of the template's equalities?"""
    ok, resid = in_span(t.equalities(), target)
    return ok, resid


def equivalent_ineq(t, target):
    """an inequality of the template that equals `target <= 0` up to a positive factor"""
    tv = target.vars()
    for name, c in t.constraints:
        if not isinstance(c, Cmp) or c.sense != "<=":
            continue
        if c.expr.vars() != tv:
            continue
        v = sorted(tv, key=repr)[0] if tv else None
        if v is None:
            continue
        a, b = c.expr.coeff(v), target.coeff(v)
        if a.is_zero() or b.is_zero():
            continue
        lam = a / b
        if (c.expr - lam * target).is_zero() and positive(lam):
            return name, lam
    return None


def implied_ineq(t, target):
    """target <= 0 follows from ONE template inequality (positive multiple) plus equalities"""
    eqs = t.equalities()
    for name, c in t.constraints:
        if not isinstance(c, Cmp) or c.sense != "<=":
            continue
        sol = solve_combination(eqs + [c.expr], target)
        if sol is not None:
            lam = sol[-1]
            if positive(lam):
                return name, lam
            if lam.is_zero():
                return name, lam  # follows from equalities alone
    sol = solve_combination(eqs, target) if eqs else None
    if sol is not None:
        return "(equalities)", Rat.const(0)
    return None
