"""python -m allfedsa.cli <PROPERTY> [--tier quick|thorough] [--replay path]

exit 0: every obligation discharged (or listed as a known finding)
exit 1: at least one unlisted violation (VIOLATION property=<id> replay=<path>)
exit 2: ANALYSIS-ERROR (anchor vanished, fragment exceeded, instance count too low, internal error)
"""
from __future__ import annotations

import argparse
import importlib
import json
import os
import sys
import traceback

from .core import AnalysisError, Index, Report

PROPS = ["C%02d" % i for i in range(1, 19)]
LEVEL = {"C10": "proof"}


def run_property(pid, tier):
    mod = importlib.import_module(f"allfedsa.{pid.lower()}")
    rep = Report(pid, tier, LEVEL.get(pid, "other"))
    index = Index()
    from .symx import Interp
    Interp.resolver = staticmethod(index.make_resolver())
    Interp.global_literals = index.make_global_literals()
    mod.run(index, rep)
    if hasattr(mod, "describe"):
        mod.describe(rep)
    rep.note_analysed("files_consulted", sorted(set(index.consulted)))
    rep.note_analysed("source_digest", index.digest())
    st_fail = None
    if tier == "thorough":
        st = importlib.import_module("allfedsa.selftest")
        res = st.run_for(pid)
        rep.extra["selftest"] = res
        if res.get("survived") or res.get("noisy"):
            st_fail = res
    rc = rep.finish()
    if st_fail:
        print(f"ANALYSIS-ERROR property={pid}: self-test failed: surviving mutants {st_fail.get('survived')} "
              f"noisy refactors {st_fail.get('noisy')}")
        return 2
    return rc


def main(argv=None):
    ap = argparse.ArgumentParser()
    ap.add_argument("property")
    ap.add_argument("--tier", default=os.environ.get("VERIF_TIER", "quick"))
    ap.add_argument("--replay")
    a = ap.parse_args(argv)
    pid = a.property.upper()
    tier = a.tier if a.tier in ("quick", "thorough") else "quick"
    if a.replay:
        with open(a.replay) as f:
            r = json.load(f)
        print("replaying", json.dumps(r, indent=1))
        pid = r["property"]
    try:
        rc = run_property(pid, tier)
    except AnalysisError as e:
        print(f"ANALYSIS-ERROR property={pid}: {e}")
        return 2
    except Exception as e:
        print(f"ANALYSIS-ERROR property={pid}: internal error ({type(e).__name__}: {str(e)[:160]}) - the code left the fragment a rule was written for")
        traceback.print_exc()
        return 2
    return rc


if __name__ == "__main__":
    sys.exit(main())
