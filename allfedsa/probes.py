"""Whole-tree behaviour-preserving transformations used by the self-test: every check must stay silent on them.

  reformat   every source file re-emitted by ast.unparse (comments dropped, layout and line numbers changed)
  rename     every local variable of every function of one source file renamed (scope-aware: parameters, globals/nonlocals,
             attributes, keyword names and builtins are left alone)"""
from __future__ import annotations

import ast
import os

BUILTINS = {"dict", "list", "type", "min", "max", "sum", "len", "str", "int", "float", "id", "input", "all", "any", "next", "iter", "map", "filter",
            "range", "print", "zip", "sorted", "reversed", "set", "tuple", "bool", "round", "abs", "object", "super", "open", "format"}


def source_files(root):
    out = []
    for r, _, fs in os.walk(os.path.join(root, "src")):
        for f in fs:
            if f.endswith(".py"):
                out.append(os.path.join(r, f))
    return sorted(out)


def reformat_tree(root):
    n = 0
    for p in source_files(root):
        src = open(p, encoding="utf-8").read()
        try:
            out = ast.unparse(ast.parse(src)) + "\n"
        except SyntaxError:
            continue
        with open(p, "w", encoding="utf-8") as f:
            f.write(out)
        n += 1
    return n


def rename_locals(src, suffix="_rn"):
    """-> (new source, number of renamed variables) or (None, 0)"""
    try:
        mod = ast.parse(src)
    except SyntaxError:
        return None, 0
    lines = src.splitlines(True)
    edits = set()
    total = 0

    def handle(fn):
        params, declared = set(), set()
        for sub in ast.walk(fn):
            if isinstance(sub, (ast.FunctionDef, ast.Lambda, ast.AsyncFunctionDef)):
                a = sub.args
                for x in a.args + a.kwonlyargs + a.posonlyargs:
                    params.add(x.arg)
                if a.vararg:
                    params.add(a.vararg.arg)
                if a.kwarg:
                    params.add(a.kwarg.arg)
            if isinstance(sub, (ast.Global, ast.Nonlocal)):
                declared |= set(sub.names)
        stores = {n.id for n in ast.walk(fn) if isinstance(n, ast.Name) and isinstance(n.ctx, ast.Store)}
        names = {n for n in stores if n not in params and n not in declared and not n.startswith("__") and n not in BUILTINS}
        for n in ast.walk(fn):
            if isinstance(n, ast.Name) and n.id in names:
                edits.add((n.lineno, n.col_offset, n.id))
        return len(names)

    def outer(node):
        for ch in ast.iter_child_nodes(node):
            if isinstance(ch, (ast.FunctionDef, ast.AsyncFunctionDef)):
                yield ch
            elif isinstance(ch, ast.ClassDef):
                yield from outer(ch)

    for fn in outer(mod):
        total += handle(fn)
    for ln, col, name in sorted(edits, reverse=True):
        b = lines[ln - 1].encode("utf8")
        if b[col:col + len(name)].decode("utf8", "ignore") != name:
            return None, 0
        lines[ln - 1] = (b[:col] + (name + suffix).encode() + b[col + len(name):]).decode("utf8")
    out = "".join(lines)
    try:
        compile(out, "<renamed>", "exec")
    except SyntaxError:
        return None, 0
    return out, total


def rename_file(root, rel):
    p = os.path.join(root, rel)
    out, n = rename_locals(open(p, encoding="utf-8").read())
    if out is None or n == 0:
        return 0
    with open(p, "w", encoding="utf-8") as f:
        f.write(out)
    return n
