"""Whole-tree behaviour-preserving transformations used by the self-test: every check must stay silent on them.

  reformat   every source file re-emitted by ast.unparse (comments dropped, layout and line numbers changed)
  rename     every local variable of every function of one source file renamed (scope-aware: parameters, globals/nonlocals,
             attributes, keyword names and builtins are left alone)"""
from __future__ import annotations

import ast
import os

BUILTINS = {"dict", "list", "type", "min", "max", "sum", "len", "str", "int", "float", "id", "input", "all", "any", "next", "iter", "map", "filter",
            "range", "print", "zip", "sorted", "reversed", "set", "tuple", "bool", "round", "abs", "object", "super", "open", "format"}


def source_files(root):
    out = []
    for r, _, fs in os.walk(os.path.join(root, "src")):
        for f in fs:
            if f.endswith(".py"):
                out.append(os.path.join(r, f))
    return sorted(out)


def reformat_tree(root):
    n = 0
    for p in source_files(root):
        src = open(p, encoding="utf-8").read()
        try:
            out = ast.unparse(ast.parse(src)) + "\n"
        except SyntaxError:
            continue
        with open(p, "w", encoding="utf-8") as f:
            f.write(out)
        n += 1
    return n


def rename_locals(src, suffix="_rn"):
    """-> (new source, number of renamed variables) or (None, 0)"""
    try:
        mod = ast.parse(src)
    except SyntaxError:
        return None, 0
    lines = src.splitlines(True)
    edits = set()
    total = 0

    def handle(fn):
        params, declared = set(), set()
        for sub in ast.walk(fn):
            if isinstance(sub, (ast.FunctionDef, ast.Lambda, ast.AsyncFunctionDef)):
                a = sub.args
                for x in a.args + a.kwonlyargs + a.posonlyargs:
                    params.add(x.arg)
                if a.vararg:
                    params.add(a.vararg.arg)
                if a.kwarg:
                    params.add(a.kwarg.arg)
            if isinstance(sub, (ast.Global, ast.Nonlocal)):
                declared |= set(sub.names)
        stores = {n.id for n in ast.walk(fn) if isinstance(n, ast.Name) and isinstance(n.ctx, ast.Store)}
        names = {n for n in stores if n not in params and n not in declared and not n.startswith("__") and n not in BUILTINS}
        for n in ast.walk(fn):
            if isinstance(n, ast.Name) and n.id in names:
                edits.add((n.lineno, n.col_offset, n.id))
        return len(names)

    def outer(node):
        for ch in ast.iter_child_nodes(node):
            if isinstance(ch, (ast.FunctionDef, ast.AsyncFunctionDef)):
                yield ch
            elif isinstance(ch, ast.ClassDef):
                yield from outer(ch)

    for fn in outer(mod):
        total += handle(fn)
    for ln, col, name in sorted(edits, reverse=True):
        b = lines[ln - 1].encode("utf8")
        if b[col:col + len(name)].decode("utf8", "ignore") != name:
            return None, 0
        lines[ln - 1] = (b[:col] + (name + suffix).encode() + b[col + len(name):]).decode("utf8")
    out = "".join(lines)
    try:
        compile(out, "<renamed>", "exec")
    except SyntaxError:
        return None, 0
    return out, total


def rename_file(root, rel):
    p = os.path.join(root, rel)
    out, n = rename_locals(open(p, encoding="utf-8").read())
    if out is None or n == 0:
        return 0
    with open(p, "w", encoding="utf-8") as f:
        f.write(out)
    return n


# ------------------------------------------------------------------------------------------------------------------
# whole-tree syntactic rewrites that cannot change behaviour (applied through the syntax tree and re-emitted)

def _simple(e):
    """an operand without side effects and without calls: names, attribute chains, constants, subscripts of those, unary minus"""
    if isinstance(e, (ast.Name, ast.Constant)):
        return True
    if isinstance(e, ast.Attribute):
        return _simple(e.value)
    if isinstance(e, ast.Subscript):
        return _simple(e.value) and _simple(e.slice)
    if isinstance(e, ast.UnaryOp) and isinstance(e.op, ast.USub):
        return _simple(e.operand)
    return False


class _SwapElse(ast.NodeTransformer):
    """`if c: A else: B`  ->  `if not c: B else: A`"""
    n = 0

    def visit_If(self, node):
        self.generic_visit(node)
        if node.orelse and not (isinstance(node.test, ast.Compare) and isinstance(node.test.left, ast.Name) and node.test.left.id == "__name__"):
            self.n += 1
            return ast.If(test=ast.UnaryOp(op=ast.Not(), operand=node.test), body=node.orelse, orelse=node.body)
        return node


class _Range0(ast.NodeTransformer):
    """range(0, n) -> range(n)"""
    n = 0

    def visit_Call(self, node):
        self.generic_visit(node)
        if isinstance(node.func, ast.Name) and node.func.id == "range" and len(node.args) == 2 and not node.keywords \
                and isinstance(node.args[0], ast.Constant) and node.args[0].value == 0 and not isinstance(node.args[0].value, bool):
            self.n += 1
            node.args = [node.args[1]]
        return node


class _FlipCompare(ast.NodeTransformer):
    """a < b -> b > a  (one comparison, side-effect-free operands)"""
    n = 0
    FLIP = {ast.Lt: ast.Gt, ast.LtE: ast.GtE, ast.Gt: ast.Lt, ast.GtE: ast.LtE, ast.Eq: ast.Eq, ast.NotEq: ast.NotEq}

    def visit_Compare(self, node):
        self.generic_visit(node)
        if len(node.ops) == 1 and type(node.ops[0]) in self.FLIP and _simple(node.left) and _simple(node.comparators[0]):
            self.n += 1
            return ast.Compare(left=node.comparators[0], ops=[self.FLIP[type(node.ops[0])]()], comparators=[node.left])
        return node


class _Keywordise(ast.NodeTransformer):
    """positional arguments of calls whose callee is known (self.<method>, <Class>.<function>, a module-level function of the same
    module, <Class>(...) constructors, <anything>.<method with a repository-wide unique name>) become keyword arguments, same order"""

    def __init__(self, classes, modfuncs):
        from . import canon
        self.canon = canon
        self.classes, self.modfuncs = classes, modfuncs
        self.by_name = canon.unique_methods(classes)
        self.cls = None
        self.n = 0

    def visit_ClassDef(self, node):
        prev, self.cls = self.cls, node.name
        self.generic_visit(node)
        self.cls = prev
        return node

    def visit_Call(self, node):
        self.generic_visit(node)
        if not node.args or any(isinstance(a, ast.Starred) for a in node.args) or any(k.arg is None for k in node.keywords):
            return node
        params = self.canon.constructor_params(node, self.classes)
        if params is None:
            params = self.canon.certain_callee_params(node, self.cls, self.classes, self.modfuncs, self.by_name)
        if params is None or len(node.args) > len(params):
            return node
        names = params[:len(node.args)]
        if {k.arg for k in node.keywords} & set(names):
            return node
        node.keywords = [ast.keyword(arg=p, value=a) for p, a in zip(names, node.args)] + node.keywords
        node.args = []
        self.n += 1
        return node


class _Positionalise(ast.NodeTransformer):
    """the reverse: keyword arguments that fill the callee's parameters from the left without gaps become positional"""

    def __init__(self, classes, modfuncs):
        from . import canon
        self.canon = canon
        self.classes, self.modfuncs = classes, modfuncs
        self.by_name = canon.unique_methods(classes)
        self.cls = None
        self.n = 0

    def visit_ClassDef(self, node):
        prev, self.cls = self.cls, node.name
        self.generic_visit(node)
        self.cls = prev
        return node

    def visit_Call(self, node):
        self.generic_visit(node)
        if not node.keywords or any(isinstance(a, ast.Starred) for a in node.args) or any(k.arg is None for k in node.keywords):
            return node
        params = self.canon.constructor_params(node, self.classes)
        if params is None:
            params = self.canon.certain_callee_params(node, self.cls, self.classes, self.modfuncs, self.by_name)
        if params is None:
            return node
        kw = {k.arg: k.value for k in node.keywords}
        n = len(node.args) + len(kw)
        # only when the keywords are already written in parameter order (evaluation order of the arguments stays the same)
        if len(kw) == len(node.keywords) and n <= len(params) and [k.arg for k in node.keywords] == params[len(node.args):n]:
            node.args = list(node.args) + [k.value for k in node.keywords]
            node.keywords = []
            self.n += 1
        return node


def rewrite_tree(root, kind):
    """apply one whole-tree rewrite (swap-else, range0, flip-compare, keywordise) to every source file; -> number of rewritten sites"""
    files = source_files(root)
    mods = {}
    for p in files:
        try:
            mods[p] = ast.parse(open(p, encoding="utf-8").read())
        except SyntaxError:
            continue
    from .canon import class_table
    classes = class_table(list(mods.values()))
    total = 0
    for p, mod in mods.items():
        if kind == "swap-else":
            t = _SwapElse()
        elif kind == "range0":
            t = _Range0()
        elif kind == "flip-compare":
            t = _FlipCompare()
        elif kind in ("keywordise", "positionalise"):
            names = [n.name for n in mod.body if isinstance(n, ast.FunctionDef)]
            mf = {n.name: n for n in mod.body if isinstance(n, ast.FunctionDef) and names.count(n.name) == 1}
            t = _Keywordise(classes, mf) if kind == "keywordise" else _Positionalise(classes, mf)
        else:
            raise ValueError(kind)
        new = t.visit(mod)
        if t.n:
            ast.fix_missing_locations(new)
            out = ast.unparse(new) + "\n"
            compile(out, p, "exec")
            with open(p, "w", encoding="utf-8") as f:
                f.write(out)
            total += t.n
    return total


# ------------------------------------------------------------------------------------------------------------------
# statement-level rewrites: temporaries introduced / compound statements split (evaluation order kept)

def _first_call(e):
    """the call evaluated first in `e` when everything evaluated before it is a plain name or literal; None otherwise"""
    if isinstance(e, ast.Call):
        inner = None
        f = e.func
        if isinstance(f, ast.Attribute):
            inner = _first_call(f.value) if not isinstance(f.value, (ast.Name, ast.Constant)) else None
            if inner is None and not isinstance(f.value, (ast.Name, ast.Constant, ast.Attribute)):
                return None
        for a in list(e.args) + [k.value for k in e.keywords]:
            if inner is not None:
                break
            if isinstance(a, (ast.Name, ast.Constant)):
                continue
            if isinstance(a, ast.Starred):
                return None
            inner = _first_call(a)
            if inner is None:
                return None if not _simple(a) else None
            break
        if inner is None and isinstance(e.func, ast.Name) and e.func.id == "super":
            return None        # `super()` is never kept in a temporary
        return inner if inner is not None else e
    if isinstance(e, ast.BinOp):
        if isinstance(e.left, (ast.Name, ast.Constant)):
            return _first_call(e.right)
        return _first_call(e.left)
    if isinstance(e, ast.Attribute):
        return _first_call(e.value)
    if isinstance(e, ast.Subscript):
        return _first_call(e.value)
    if isinstance(e, (ast.Tuple, ast.List)) and e.elts:
        for x in e.elts:
            if isinstance(x, (ast.Name, ast.Constant)):
                continue
            return _first_call(x)
    return None


class _Hoist(ast.NodeTransformer):
    """`x = f(a) + y`  ->  `_h1 = f(a); x = _h1 + y` (only the call evaluated first, and only when it is a proper sub-expression)"""

    def __init__(self):
        self.n = 0

    def generic_visit(self, node):
        node = super().generic_visit(node)
        if isinstance(node, ast.Module):
            return node
        for field in ("body", "orelse", "finalbody"):
            b = getattr(node, field, None)
            if isinstance(b, list) and b and isinstance(b[0], ast.stmt) and not isinstance(node, ast.ClassDef):
                setattr(node, field, self._block_noreenter(b))
        return node

    def _block_noreenter(self, stmts):
        out = []
        for st in stmts:
            v = st.value if isinstance(st, (ast.Assign, ast.Return, ast.Expr)) else None
            if v is not None:
                c = _first_call(v)
                if c is not None and c is not v and not any(isinstance(x, (ast.Lambda, ast.GeneratorExp, ast.ListComp, ast.DictComp, ast.SetComp, ast.IfExp,
                                                                         ast.BoolOp, ast.Await, ast.Yield, ast.NamedExpr)) for x in ast.walk(v)):
                    self.n += 1
                    name = f"_h{self.n}"
                    pre = ast.copy_location(ast.Assign(targets=[ast.Name(id=name, ctx=ast.Store())], value=c), st)

                    class R(ast.NodeTransformer):
                        def visit_Call(self, node):
                            if node is c:
                                return ast.Name(id=name, ctx=ast.Load())
                            return self.generic_visit(node)

                    st.value = R().visit(v)
                    out.append(pre)
            out.append(st)
        return out


class _SplitAssert(ast.NodeTransformer):
    """`assert a and b, msg` -> `assert a, msg; assert b, msg`"""

    def __init__(self):
        self.n = 0

    def generic_visit(self, node):
        node = super().generic_visit(node)
        for field in ("body", "orelse", "finalbody"):
            b = getattr(node, field, None)
            if isinstance(b, list) and b and isinstance(b[0], ast.stmt):
                out = []
                for st in b:
                    if isinstance(st, ast.Assert) and isinstance(st.test, ast.BoolOp) and isinstance(st.test.op, ast.And):
                        self.n += 1
                        for v in st.test.values:
                            out.append(ast.copy_location(ast.Assert(test=v, msg=st.msg), st))
                    else:
                        out.append(st)
                setattr(node, field, out)
        return node


class _SplitUnpack(ast.NodeTransformer):
    """`a, b = f(x)` -> `_u1 = f(x); a = _u1[0]; b = _u1[1]` for calls of repository functions whose every exit returns a tuple of that length"""

    def __init__(self, tuple_returning):
        self.tr = tuple_returning
        self.n = 0

    def generic_visit(self, node):
        node = super().generic_visit(node)
        for field in ("body", "orelse", "finalbody"):
            b = getattr(node, field, None)
            if isinstance(b, list) and b and isinstance(b[0], ast.stmt):
                out = []
                for st in b:
                    ok = isinstance(st, ast.Assign) and len(st.targets) == 1 and isinstance(st.targets[0], (ast.Tuple, ast.List)) \
                        and isinstance(st.value, ast.Call) and not any(isinstance(e, ast.Starred) for e in st.targets[0].elts)
                    if ok:
                        f = st.value.func
                        name = f.attr if isinstance(f, ast.Attribute) else (f.id if isinstance(f, ast.Name) else None)
                        ok = self.tr.get(name) == len(st.targets[0].elts)
                    if ok:
                        self.n += 1
                        tmp = f"_u{self.n}"
                        out.append(ast.copy_location(ast.Assign(targets=[ast.Name(id=tmp, ctx=ast.Store())], value=st.value), st))
                        for i, e in enumerate(st.targets[0].elts):
                            out.append(ast.copy_location(ast.Assign(targets=[e], value=ast.Subscript(value=ast.Name(id=tmp, ctx=ast.Load()),
                                                                                                   slice=ast.Constant(value=i), ctx=ast.Load())), st))
                    else:
                        out.append(st)
                setattr(node, field, out)
        return node


def rewrite_statements(root, kind):
    """hoist-call / split-assert / split-unpack over every source file; -> number of rewritten sites"""
    files = source_files(root)
    mods = {}
    for p in files:
        try:
            mods[p] = ast.parse(open(p, encoding="utf-8").read())
        except SyntaxError:
            continue
    tr = {}
    if kind == "split-unpack":
        seen = {}
        for mod in mods.values():
            for fn in [n for n in ast.walk(mod) if isinstance(n, ast.FunctionDef)]:
                rets = [r for r in ast.walk(fn) if isinstance(r, ast.Return)]
                own = [r for r in rets if not any(r in list(ast.walk(g)) for g in ast.walk(fn) if isinstance(g, (ast.FunctionDef, ast.Lambda)) and g is not fn)]
                ln = {len(r.value.elts) for r in own if isinstance(r.value, ast.Tuple)}
                allt = own and all(isinstance(r.value, ast.Tuple) for r in own) and len(ln) == 1
                seen.setdefault(fn.name, []).append(ln.pop() if allt else None)
        tr = {k: v[0] for k, v in seen.items() if len(v) == 1 and v[0] is not None}
    total = 0
    for p, mod in mods.items():
        t = _STMT_KINDS[kind]() if kind != "split-unpack" else _SplitUnpack(tr)
        new = t.visit(mod)
        if t.n:
            ast.fix_missing_locations(new)
            out = ast.unparse(new) + "\n"
            compile(out, p, "exec")
            with open(p, "w", encoding="utf-8") as f:
                f.write(out)
            total += t.n
    return total


def _call_free(e):
    return not any(isinstance(n, (ast.Call, ast.Await, ast.Yield, ast.YieldFrom, ast.NamedExpr, ast.Lambda, ast.ListComp, ast.GeneratorExp,
                                  ast.DictComp, ast.SetComp)) for n in ast.walk(e))


class _InlineLocal(ast.NodeTransformer):
    """`t = <call-free expression>; <next statement using t once>` -> the next statement with the expression in place of t"""

    def __init__(self):
        self.n = 0
        self.fn = None

    def visit_FunctionDef(self, node):
        prev, self.fn = self.fn, node
        self.generic_visit(node)
        self.fn = prev
        return node

    def generic_visit(self, node):
        node = super().generic_visit(node)
        if self.fn is None:
            return node
        for field in ("body", "orelse", "finalbody"):
            b = getattr(node, field, None)
            if isinstance(b, list) and b and isinstance(b[0], ast.stmt) and not isinstance(node, ast.ClassDef):
                out = []
                i = 0
                while i < len(b):
                    st = b[i]
                    nxt = b[i + 1] if i + 1 < len(b) else None
                    ok = isinstance(st, ast.Assign) and len(st.targets) == 1 and isinstance(st.targets[0], ast.Name) and _call_free(st.value) \
                        and nxt is not None and isinstance(nxt, (ast.Assign, ast.Return, ast.Expr, ast.Assert)) and not isinstance(st.value, (ast.Constant,))
                    if ok:
                        name = st.targets[0].id
                        everywhere = [n for n in ast.walk(self.fn) if isinstance(n, ast.Name) and n.id == name]
                        loads_next = [n for n in ast.walk(nxt) if isinstance(n, ast.Name) and n.id == name and isinstance(n.ctx, ast.Load)]
                        # the names the expression reads are not re-bound by the next statement before the use (it is one statement: they are not)
                        ok = len(everywhere) == 2 and len(loads_next) == 1 and not any(
                            isinstance(n, ast.Name) and isinstance(n.ctx, ast.Store) and n.id in {x.id for x in ast.walk(st.value) if isinstance(x, ast.Name)}
                            for n in ast.walk(nxt) if False)
                    if ok:
                        val = st.value

                        class R(ast.NodeTransformer):
                            def visit_Name(self, n):
                                if n.id == name and isinstance(n.ctx, ast.Load):
                                    return val
                                return n

                        out.append(R().visit(nxt))
                        self.n += 1
                        i += 2
                        continue
                    out.append(st)
                    i += 1
                setattr(node, field, out)
        return node


_STMT_KINDS = {"hoist-call": _Hoist, "split-assert": _SplitAssert, "inline-local": _InlineLocal}


class _SwapIndependent(ast.NodeTransformer):
    """two adjacent call-free assignments to different plain names, neither reading the other's target, change places"""

    def __init__(self):
        self.n = 0

    def generic_visit(self, node):
        node = super().generic_visit(node)
        for field in ("body", "orelse", "finalbody"):
            b = getattr(node, field, None)
            if isinstance(b, list) and len(b) >= 2 and isinstance(b[0], ast.stmt) and not isinstance(node, ast.ClassDef):
                i = 0
                while i + 1 < len(b):
                    a_, b_ = b[i], b[i + 1]
                    ok = all(isinstance(x, ast.Assign) and len(x.targets) == 1 and isinstance(x.targets[0], ast.Name) and _call_free(x.value) for x in (a_, b_))
                    if ok:
                        ta, tb = a_.targets[0].id, b_.targets[0].id
                        na = {n.id for n in ast.walk(a_.value) if isinstance(n, ast.Name)}
                        nb = {n.id for n in ast.walk(b_.value) if isinstance(n, ast.Name)}
                        ok = ta != tb and ta not in nb and tb not in na
                    if ok:
                        b[i], b[i + 1] = b_, a_
                        self.n += 1
                        i += 2
                    else:
                        i += 1
        return node


_STMT_KINDS["swap-independent"] = _SwapIndependent


class _DedentElse(ast.NodeTransformer):
    """`if c: ...; return x  else: B`  ->  `if c: ...; return x` followed by B (the else of a branch that always leaves)"""

    def __init__(self):
        self.n = 0

    def generic_visit(self, node):
        node = super().generic_visit(node)
        for field in ("body", "orelse", "finalbody"):
            b = getattr(node, field, None)
            if isinstance(b, list) and b and isinstance(b[0], ast.stmt) and not isinstance(node, ast.ClassDef):
                out = []
                for st in b:
                    if isinstance(st, ast.If) and st.orelse and st.body and isinstance(st.body[-1], (ast.Return, ast.Raise, ast.Continue, ast.Break)):
                        rest = st.orelse
                        st.orelse = []
                        out.append(st)
                        out.extend(rest)
                        self.n += 1
                    else:
                        out.append(st)
                setattr(node, field, out)
        return node


_STMT_KINDS["dedent-else"] = _DedentElse


class _NestAfterReturn(ast.NodeTransformer):
    """`if c: ...; return x` followed by B  ->  `if c: ...; return x  else: B`"""

    def __init__(self):
        self.n = 0

    def generic_visit(self, node):
        node = super().generic_visit(node)
        for field in ("body", "orelse", "finalbody"):
            b = getattr(node, field, None)
            if isinstance(b, list) and b and isinstance(b[0], ast.stmt) and not isinstance(node, (ast.ClassDef, ast.Module)):
                for i, st in enumerate(b):
                    if isinstance(st, ast.If) and not st.orelse and st.body and isinstance(st.body[-1], (ast.Return, ast.Raise)) and i + 1 < len(b) \
                            and not any(isinstance(x, (ast.FunctionDef, ast.ClassDef)) for x in b[i + 1:]):
                        st.orelse = b[i + 1:]
                        del b[i + 1:]
                        self.n += 1
                        break
        return node


_STMT_KINDS["nest-after-return"] = _NestAfterReturn


class _ExtractTail(ast.NodeTransformer):
    """the second half of a method's top-level statements moved into a new method of the class, called as `return self._tail_<name>(<locals it
    reads>)` (methods with nested functions, yields, global/nonlocal or `del` are left alone)"""

    def __init__(self):
        self.n = 0

    def visit_ClassDef(self, node):
        self.generic_visit(node)
        new_methods = []
        for fn in list(node.body):
            if not isinstance(fn, ast.FunctionDef) or not fn.args.args or fn.args.args[0].arg != "self" or fn.decorator_list:
                continue
            body = [s for s in fn.body]
            doc = 1 if body and isinstance(body[0], ast.Expr) and isinstance(body[0].value, ast.Constant) and isinstance(body[0].value.value, str) else 0
            stmts = body[doc:]
            if len(stmts) < 6 or fn.name.startswith("__"):
                continue
            if any(isinstance(n, (ast.FunctionDef, ast.Lambda, ast.Yield, ast.YieldFrom, ast.Global, ast.Nonlocal, ast.Delete, ast.ClassDef, ast.AsyncFunctionDef,
                                  ast.Try, ast.NamedExpr)) for s in stmts for n in ast.walk(s)):
                continue
            k = len(stmts) // 2
            head, tail = stmts[:k], stmts[k:]
            assigned_head = {n.id for s in head for n in ast.walk(s) if isinstance(n, ast.Name) and isinstance(n.ctx, ast.Store)}
            params = [a.arg for a in fn.args.args[1:] + fn.args.kwonlyargs] + ([fn.args.vararg.arg] if fn.args.vararg else []) + (
                [fn.args.kwarg.arg] if fn.args.kwarg else [])
            # comprehension variables are local to the comprehension: not live-ins
            comp_vars = {n.id for s in tail for c in ast.walk(s) if isinstance(c, ast.comprehension) for n in ast.walk(c.target) if isinstance(n, ast.Name)}
            loaded = []
            for s in tail:
                for n in ast.walk(s):
                    if isinstance(n, ast.Name) and isinstance(n.ctx, ast.Load) and n.id not in loaded:
                        loaded.append(n.id)
            # a name assigned in the tail before being read there could still be a live-in on another path: pass every candidate that exists
            live = [x for x in loaded if (x in assigned_head or x in params) and x != "self"]
            if any(x in comp_vars and (x in assigned_head or x in params) for x in loaded):
                continue
            # names first assigned in the head conditionally might be unbound: only names assigned at the top level of the head (or params) are passed
            top_assigned = {t.id for s in head if isinstance(s, (ast.Assign, ast.AugAssign, ast.AnnAssign))
                            for t in ast.walk(s) if isinstance(t, ast.Name) and isinstance(t.ctx, ast.Store)}
            top_assigned |= {n.id for s in head if isinstance(s, (ast.For, ast.With)) for n in ast.walk(s) if isinstance(n, ast.Name) and isinstance(n.ctx, ast.Store)}
            if any(x not in top_assigned and x not in params for x in live):
                continue
            name = f"_tail_{fn.name}"
            helper = ast.FunctionDef(name=name, args=ast.arguments(posonlyargs=[], args=[ast.arg(arg="self")] + [ast.arg(arg=x) for x in live], vararg=None,
                                                                   kwonlyargs=[], kw_defaults=[], kwarg=None, defaults=[]),
                                     body=tail, decorator_list=[], returns=None, type_comment=None)
            call = ast.Return(value=ast.Call(func=ast.Attribute(value=ast.Name(id="self", ctx=ast.Load()), attr=name, ctx=ast.Load()),
                                             args=[ast.Name(id=x, ctx=ast.Load()) for x in live], keywords=[]))
            fn.body = body[:doc] + head + [call]
            new_methods.append((fn, helper))
            self.n += 1
        for fn, helper in new_methods:
            node.body.insert(node.body.index(fn) + 1, helper)
        return node


_STMT_KINDS["extract-tail"] = _ExtractTail


# ------------------------------------------------------------------------------------------------------------------
# signature rewrites: the parameters of internal methods reordered / renamed together with every call site

def _signature_candidates(mods):
    """instance methods with a repository-wide unique name (and constructors of classes without repository bases or subclasses) whose
    every use is a plain call: -> {name: (class name, FunctionDef)} and the call sites {name: [Call]}"""
    from .canon import class_table, unique_methods
    classes = class_table(list(mods.values()))
    by_name = dict(unique_methods(classes))
    modfuncs = {n.name for m in mods.values() for n in m.body if isinstance(n, ast.FunctionDef)}
    subclassed = {b.id for c in classes.values() for b in c.bases if isinstance(b, ast.Name)}
    for cname, c in classes.items():
        if c.bases or cname in subclassed:
            continue
        init = [f for f in c.body if isinstance(f, ast.FunctionDef) and f.name == "__init__"]
        if len(init) == 1:
            by_name["__init__:" + cname] = (cname, init[0])
    cands = {}
    for name, (cname, fn) in by_name.items():
        a = fn.args
        if fn.decorator_list or a.vararg or a.kwarg or a.kwonlyargs or a.posonlyargs or not a.args or a.args[0].arg != "self":
            continue
        if fn.name in modfuncs:
            continue
        cands[name] = (cname, fn)
    sites = {k: [] for k in cands}
    bad = set()
    for mod in mods.values():
        call_funcs = set()
        for n in ast.walk(mod):
            if isinstance(n, ast.Call):
                call_funcs.add(id(n.func))
                key = None
                if isinstance(n.func, ast.Attribute) and n.func.attr in cands:
                    key = n.func.attr
                elif isinstance(n.func, ast.Name) and "__init__:" + n.func.id in cands:
                    key = "__init__:" + n.func.id
                if key is not None:
                    if any(isinstance(x, ast.Starred) for x in n.args) or any(k.arg is None for k in n.keywords):
                        bad.add(key)
                    sites[key].append(n)
        for n in ast.walk(mod):
            if isinstance(n, ast.Attribute) and id(n) not in call_funcs:
                if n.attr in cands:
                    bad.add(n.attr)          # the method handed over as a value: whoever calls it fixes the argument order
                if n.attr == "__init__" and isinstance(n.value, ast.Name):
                    bad.add("__init__:" + n.value.id)
            if isinstance(n, ast.Name) and id(n) not in call_funcs and "__init__:" + n.id in cands and isinstance(n.ctx, ast.Load):
                # the class used as a value (isinstance, Class.CONST, type annotations) is fine; only calls matter
                pass
            if isinstance(n, ast.Constant) and isinstance(n.value, str) and n.value in cands:
                bad.add(n.value)             # getattr(obj, "name")
    for k in bad:
        cands.pop(k, None)
        sites.pop(k, None)
    return cands, sites


def _binds_name(fn, name):
    """does a nested scope of `fn` (def, lambda, comprehension) bind `name` itself?"""
    for n in ast.walk(fn):
        if n is fn:
            continue
        if isinstance(n, (ast.FunctionDef, ast.Lambda)):
            a = n.args
            if name in [x.arg for x in a.args + a.kwonlyargs + a.posonlyargs] or (a.vararg and a.vararg.arg == name) or (a.kwarg and a.kwarg.arg == name):
                return True
        if isinstance(n, ast.comprehension) and any(isinstance(t, ast.Name) and t.id == name for t in ast.walk(n.target)):
            return True
        if isinstance(n, (ast.Global, ast.Nonlocal)) and name in n.names:
            return True
    return False


def rewrite_signatures(root, kind):
    """reorder-params: the non-default parameters (after self) of every eligible method rotated by one, every call site handing its
    arguments over by keyword in the order they were written (so the arguments are still evaluated in the same order);
    rename-params: every parameter of every eligible method renamed in the signature, the body and the keyword call sites.
    -> number of rewritten methods"""
    files = source_files(root)
    mods = {}
    for p in files:
        try:
            mods[p] = ast.parse(open(p, encoding="utf-8").read())
        except SyntaxError:
            continue
    cands, sites = _signature_candidates(mods)
    n_done = 0
    for key, (cname, fn) in cands.items():
        a = fn.args
        params = [x.arg for x in a.args][1:]
        n_plain = len(params) - len(a.defaults)
        if any(len(c.args) > len(params) for c in sites[key]):
            continue
        if kind == "reorder-params":
            if n_plain < 2:
                continue
            plain = a.args[1:1 + n_plain]
            a.args = [a.args[0]] + plain[1:] + plain[:1] + a.args[1 + n_plain:]
            for c in sites[key]:
                names = params[:len(c.args)]
                if {k.arg for k in c.keywords} & set(names):
                    continue
                c.keywords = [ast.keyword(arg=p_, value=v_) for p_, v_ in zip(names, c.args)] + c.keywords
                c.args = []
            n_done += 1
        elif kind == "rename-params":
            ren = {}
            for p_ in params:
                if _binds_name(fn, p_) or p_ + "_pp" in {n.id for n in ast.walk(fn) if isinstance(n, ast.Name)}:
                    continue
                ren[p_] = p_ + "_pp"
            if not ren:
                continue
            for x in a.args:
                x.arg = ren.get(x.arg, x.arg)
            for n in ast.walk(fn):
                if isinstance(n, ast.Name) and n.id in ren:
                    n.id = ren[n.id]
            for c in sites[key]:
                for k in c.keywords:
                    if k.arg in ren:
                        k.arg = ren[k.arg]
            n_done += 1
        elif kind == "rename-methods":
            if key.startswith("__init__:") or fn.name.startswith("__"):
                continue
            new_name = fn.name + "_rn"
            for c in sites[key]:
                if isinstance(c.func, ast.Attribute):
                    c.func.attr = new_name
            fn.name = new_name
            n_done += 1
        else:
            raise ValueError(kind)
    for p, mod in mods.items():
        ast.fix_missing_locations(mod)
        out = ast.unparse(mod) + "\n"
        compile(out, p, "exec")
        with open(p, "w", encoding="utf-8") as f:
            f.write(out)
    return n_done
