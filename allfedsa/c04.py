"""C04 — headline, monthly breakdown and saved tables agree.

  C04.CHAIN   LP family -> Extractor attribute -> Interpreter percent / kcal-equivalent attribute, per food
  C04.COEF    the unit factor of each contribution equals that food's coefficient in the LP's consumption sum
  C04.SUMSET  headline = min nutrient of the sum of exactly the nine contributions, computed before display rounding
  C04.FLOOR   0.99995 x optimum floor added for every month before the tie-breaking solves, which run on that model
  C04.CSV     every CSV column is the unmodified kcal-equivalent series of its food
  C04.SPLIT   immediately-eaten + eaten-from-new-storage == crops eaten, in both arms, same conversion
"""
from __future__ import annotations

import ast
import re
from fractions import Fraction

from .core import AnalysisError, loc, norm_src, walk_no_nested, dotted, str_const, Inliner
from . import symx
from .symx import Interp, Obj, Path, PList, PDict, Opaque, Unsupported, explore, Abort, Cmp
from .rat import Rat, V, K
from .lpdb import build_all, OPT, lp_model_param

EXT = "src/optimizer/extract_results.py"
INT = "src/optimizer/interpret_results.py"
RUN = "src/scenarios/run_scenario.py"
PARAMS = "src/optimizer/parameters.py"

# food -> (LP family prefix as used in variables[...], Extractor attribute prefix)
VAR_FOODS = {
    "stored_food": ("stored_food", "stored_food"),
    "seaweed": ("seaweed", "seaweed"),
    "scp": ("methane_scp", "scp"),
    "cell_sugar": ("cellulosic_sugar", "cell_sugar"),
}
# Interpreter attribute -> Extractor attribute it must come from
PERCENT_SRC = {
    "stored_food": "stored_food_to_humans", "outdoor_crops": "outdoor_crops_to_humans", "seaweed": "seaweed_to_humans",
    "cell_sugar": "cell_sugar_to_humans", "scp": "scp_to_humans", "greenhouse": "greenhouse", "fish": "fish", "meat": "meat",
    "milk": "milk", "immediate_outdoor_crops": "immediate_outdoor_crops", "new_stored_outdoor_crops": "new_stored_outdoor_crops",
}
NINE = ["stored_food", "outdoor_crops", "seaweed", "cell_sugar", "scp", "greenhouse", "fish", "meat", "milk"]
CSV_COLS = ["fish", "cell_sugar", "scp", "greenhouse", "seaweed", "milk", "meat", "immediate_outdoor_crops",
            "new_stored_outdoor_crops", "stored_food"]


def run(index, rep):
    db = build_all(index)
    rep.guard(chain, index, rep, db)
    rep.guard(coef, index, rep, db)
    rep.guard(sumset, index, rep)
    rep.guard(floor, index, rep, db)
    rep.guard(csv_rule, index, rep)
    rep.guard(split, index, rep)
    # a reported result stays what was reported: no later step (preparing the next round) rewrites a series of an interpreted result in
    # place through a local that is the series' own storage (the rule is C05's; filed here as C04.STATE as well)
    from .c05 import no_alias_writes
    from .core import RuleAlias
    rep.guard(no_alias_writes, index, RuleAlias(rep, lambda r: "C04.STATE" if r == "C05.STATE" else r))


# ----------------------------------------------------------------------------------------------- CHAIN


_EXTRACT_STEPS = ("extract_to_humans_feed_and_biofuel", "get_objective_optimization_results", "get_greenhouse_results",
                  "extract_outdoor_crops_results", "extract_meat_milk_results")
_ext_cache = {}


def extractor_view(index):
    """Extractor.extract_results evaluated once: -> (attribute -> abstract value, [(step name, argument values, call node)]).  The five
    extraction steps are recorded as calls (result k of call n is the path `call<n>.<k>`); everything else - loops over tables of
    foods, setattr, argument lists built first and spread with * - is executed, so the attributes read the same however they are filled"""
    if id(index) in _ext_cache:
        return _ext_cache[id(index)]
    cls = index.cls(EXT, "Extractor")
    er = index.func(EXT, "Extractor.extract_results")
    calls = []

    def runit(it):
        it.classes = {"Extractor": cls}
        del calls[:]

        def hook(interp, d, a, kw, node):
            if d and d.startswith("self.") and d[5:] in _EXTRACT_STEPS:
                callee = index.func(EXT, "Extractor." + d[5:])
                params = [x.arg for x in callee.args.args][1:]
                a = list(a) + [kw[p_] for p_ in params[len(a):] if p_ in kw]
                calls.append((d[5:], a, node, dict(zip(params, a))))
                n = len(calls) - 1
                if d[5:] == "extract_to_humans_feed_and_biofuel":
                    return tuple(Path((f"call{n}", str(k))) for k in range(3))
                return Path((f"call{n}",))
            if d == "self.to_monthly_list":
                return Opaque("monthly-list")
            if d == "Food":
                return PDict(dict(kw))
            if d == "np.array" and len(a) == 1 and not kw:
                return a[0]
            return NotImplemented

        it.call_hook = hook
        obj = Obj(cls, {"constants": Path(("consts",))}, "self")
        from .core import bind_named
        a_, k_ = bind_named(er, [("model", Path(("model",))), ("variables", Path(("variables",))), ("time_consts", Path(("tc",)))])
        it.call_function(er, a_, k_, obj)
        return obj, list(calls)

    try:
        leaves = [x for x in explore(runit, month_classes=False) if not isinstance(x[2], Abort)]
    except Unsupported as e:
        raise AnalysisError(f"Extractor.extract_results outside the analysed fragment: {e}")
    if len(leaves) != 1:
        raise AnalysisError(f"Extractor.extract_results: {len(leaves)} paths (expected one unconditional sequence of extraction steps)")
    obj, cl = leaves[0][2]
    _ext_cache[id(index)] = (obj.attrs, cl, leaves[0][3])
    return _ext_cache[id(index)]


_deep_cache = {}


def extractor_deep(index):
    """extract_results evaluated with the triple helper and the generic conversion followed into (only to_monthly_list and Food stand
    for themselves): attribute -> value; a reported series reads  series(<variable family>) x factor / KCALS_MONTHLY  whatever the
    signatures of the helpers in between"""
    if id(index) in _deep_cache:
        return _deep_cache[id(index)]
    cls = index.cls(EXT, "Extractor")
    er = index.func(EXT, "Extractor.extract_results")
    from .core import bind_named

    def runit(it):
        it.classes = {"Extractor": cls}

        def hook(interp, d, a, kw, node):
            if d == "self.to_monthly_list":
                vals = list(a) + list(kw.values())
                series = [v for v in vals if isinstance(v, Path)]
                conv = [v for v in vals if not isinstance(v, Path)]
                if len(series) != 1 or len(conv) != 1:
                    raise Unsupported("to_monthly_list called with other than (a variable family, a conversion factor)", node)
                return Rat.atom(("series", ".".join(str(x) for x in series[0].parts))) * interp.to_rat(conv[0])
            if d == "Food":
                return PDict(dict(kw))
            if d and d.startswith("self.") and d[5:] in _EXTRACT_STEPS and d[5:] not in ("extract_to_humans_feed_and_biofuel", "extract_meat_milk_results"):
                return Path(("step", d[5:]))
            if d == "np.array" and len(a) == 1 and not kw:
                return a[0]
            return NotImplemented

        it.call_hook = hook
        obj = Obj(cls, {"constants": Path(("consts",))}, "self")
        a_, k_ = bind_named(er, [("model", Path(("model",))), ("variables", Path(("variables",))), ("time_consts", Path(("tc",)))])
        it.call_function(er, a_, k_, obj)
        return obj

    try:
        leaves = [x for x in explore(runit, month_classes=False, preset={"consts.inputs.INCLUDE_FAT": False, "consts.inputs.INCLUDE_PROTEIN": False})
                  if not isinstance(x[2], Abort)]
    except Unsupported as e:
        raise AnalysisError(f"Extractor.extract_results (helpers followed) outside the analysed fragment: {e}")
    if len(leaves) != 1:
        raise AnalysisError(f"Extractor.extract_results (helpers followed): {len(leaves)} paths")
    _deep_cache[id(index)] = (leaves[0][2].attrs, leaves[0][3])
    return _deep_cache[id(index)]


def outdoor_crop_foods(index, sigma=None):
    """use -> the Food (as a PDict of rational forms) that extract_outdoor_crops_results stores in self.outdoor_crops_<use>: the constructing
    helper evaluated (fat and protein tracked) with each of its parameters standing for what extract_results hands over for it - a crop
    variable family, or the variable table and the family's name"""
    from .core import bind_args as _ba4
    if sigma is None:
        _ax, calls_, _ix = extractor_view(index)
        b_ = [x[3] for x in calls_ if x[0] == "extract_outdoor_crops_results"]
        if len(b_) != 1:
            raise AnalysisError("extract_results: expected one call of extract_outdoor_crops_results")
        sigma = {p_: (".".join(str(x) for x in v_.parts) if isinstance(v_, Path) else "?") for p_, v_ in b_[0].items()}
    ocf = index.func(EXT, "Extractor.extract_outdoor_crops_results")
    cf_ = index.func(EXT, "Extractor.create_food_object_from_fat_protein_variables")
    cls_ = index.cls(EXT, "Extractor")

    def hook_cf(interp, d, a, kw, node):
        if d == "self.to_monthly_list":
            vals = list(a) + list(kw.values())
            series = [v for v in vals if isinstance(v, Path)]
            conv = [v for v in vals if not isinstance(v, Path)]
            if len(series) != 1 or len(conv) != 1:
                raise Unsupported("to_monthly_list called with other than (a variable family, a conversion factor)", node)
            return Rat.atom(("series", ".".join(str(x) for x in series[0].parts))) * interp.to_rat(conv[0])
        if d == "Food":
            return PDict(dict(kw))
        return NotImplemented

    out = {}
    for use in ("to_humans", "biofuel", "feed"):
        for st in walk_no_nested(ocf):
            if isinstance(st, ast.Assign) and dotted(st.targets[0]) == f"self.outdoor_crops_{use}" and isinstance(st.value, ast.Call) \
                    and dotted(st.value.func) == "self.create_food_object_from_fat_protein_variables":
                kwargs_ = {}
                for p_, e_ in _ba4(st.value, cf_).items():
                    if isinstance(e_, ast.Constant) and isinstance(e_.value, str):
                        kwargs_[p_] = e_.value
                        continue
                    t_ = sigma.get(norm_src(e_), "?")
                    kwargs_[p_] = Path(tuple(t_.split("."))) if t_ != "?" else Opaque("?")
                it_cf = Interp(decisions={"consts.inputs.INCLUDE_FAT": True, "consts.inputs.INCLUDE_PROTEIN": True})
                it_cf.classes = {"Extractor": cls_}
                it_cf.call_hook = hook_cf
                try:
                    out[use] = it_cf.call_function(cf_, [], kwargs_, Obj(cls_, {"constants": Path(("consts",))}, "self"))
                except (Unsupported, Abort, symx.Fork) as e:
                    raise AnalysisError(f"create_food_object_from_fat_protein_variables outside the analysed fragment: {e!r}")
    return out


def triple_factor(deep, lpfam, exattr):
    """reporting factor of a food: reported to-humans kcals x KCALS_MONTHLY / series(<family>_to_humans), when that is a plain factor"""
    v = deep.get(f"{exattr}_to_humans")
    kc = v.d.get("kcals") if isinstance(v, PDict) else None
    if not isinstance(kc, Rat):
        return None
    s_ = Rat.atom(("series", f"variables.{lpfam}_to_humans"))
    r = kc * Rat.atom(K(("consts", "KCALS_MONTHLY"), None)) / s_
    if any(isinstance(a_, tuple) and a_ and a_[0] == "series" for a_ in r.atoms()):
        return None
    return r


def chain(index, rep, db):
    rule = "C04.CHAIN"
    er = index.func(EXT, "Extractor.extract_results")
    attrs_x, calls_x, it_x = extractor_view(index)
    # 1. the four (to_humans, feed, biofuel) triples: attribute <food>_<use> is result k of one extraction call whose k-th argument is
    #    the optimiser's variable family <lp family>_<use>
    def path_text(v):
        return ".".join(str(x) for x in v.parts) if isinstance(v, Path) else None

    deep, _it_d = extractor_deep(index)
    km_ = Rat.atom(K(("consts", "KCALS_MONTHLY"), None))
    h = index.func(EXT, "Extractor.extract_to_humans_feed_and_biofuel")
    for food, (lpfam, exattr) in VAR_FOODS.items():
        uses = ("to_humans", "feed", "biofuel")
        ratio = triple_factor(deep, lpfam, exattr)
        got = []
        same = ratio is not None
        for use in uses:
            v = deep.get(f"{exattr}_{use}")
            kc = v.d.get("kcals") if isinstance(v, PDict) else None
            got.append(str(kc) if kc is not None else "?")
            ok_u = ratio is not None and isinstance(kc, Rat) and kc == Rat.atom(("series", f"variables.{lpfam}_{use}")) * ratio / km_
            same = same and ok_u
        rep.check(same, rule, f"extractor:{food}:(to_humans,feed,biofuel)",
                  f"self.{exattr}_(to_humans, feed, biofuel) are not the optimiser variables {lpfam}_(to_humans, feed, biofuel), in that order, "
                  f"converted with one common factor (got {got}): a feed/biofuel series would be reported as eaten by people, or vice versa",
                  loc=loc(EXT, er))
    # 2. the three results of one food carry the same unit
    ok = True
    for food, (lpfam, exattr) in VAR_FOODS.items():
        units = {(deep.get(f"{exattr}_{u}").d.get("kcals_units") if isinstance(deep.get(f"{exattr}_{u}"), PDict) else None) for u in ("to_humans", "feed", "biofuel")}
        ok = ok and units == {"billion people fed each month"}
    rep.check(ok, rule, "helper:slot-i-from-parameter-i", "extract_to_humans_feed_and_biofuel does not return (f(to_humans), f(feed), f(biofuel)) "
              "in billions fed each month", loc=loc(EXT, h))
    # 3. the remaining five foods
    step = {name: (args_, node, bound_) for name, args_, node, bound_ in calls_x}
    rep.check(path_text(attrs_x.get("fish")) == "tc.fish.to_humans.in_units_billions_fed()", rule, "extractor:fish",
              "fish contribution is not the fish supply series (to humans) converted to billions fed", loc=loc(EXT, er))
    ghv = path_text(attrs_x.get("greenhouse")) or ""
    ghc = re.fullmatch(r"call(\d+)", ghv)
    rep.check(bool(ghc) and calls_x[int(ghc.group(1))][0] == "get_greenhouse_results" and
              path_text(calls_x[int(ghc.group(1))][1][0]) == "tc.greenhouse_crops", rule,
              "extractor:greenhouse", "greenhouse contribution is not the greenhouse supply series", loc=loc(EXT, er))
    gh = index.func(EXT, "Extractor.get_greenhouse_results")
    rets = [norm_src(r.value) for r in gh.body if isinstance(r, ast.Return)]
    par = gh.args.args[1].arg if len(gh.args.args) == 2 else "?"
    asg = [norm_src(s) for s in gh.body if isinstance(s, ast.Assign)]
    rep.check(rets == ["self.greenhouse_percent_fed.in_units_billions_fed()"] and f"self.greenhouse_percent_fed = {par}" in asg, rule,
              "extractor:greenhouse-helper", "get_greenhouse_results does not return its argument converted to billions fed", loc=loc(EXT, gh))
    if "extract_outdoor_crops_results" not in step:
        raise AnalysisError("extract_results no longer calls extract_outdoor_crops_results")
    oc = step["extract_outdoor_crops_results"][1]
    ocf = index.func(EXT, "Extractor.extract_outdoor_crops_results")
    # what the call hands over, by parameter: the nine crop variable families and the crop supply series, each once (the names and the order
    # of the parameters are the callee's own business; what each parameter is *used for* is read below through this binding)
    sigma = {p_: (path_text(v_) or "?") for p_, v_ in step["extract_outdoor_crops_results"][2].items()}
    fams9 = [f"variables.crops_food_{u}{n_}" for u in ("to_humans", "biofuel", "feed") for n_ in ("", "_fat", "_protein")]
    whole_table = sorted(sigma.values()) == sorted(["variables", "tc.outdoor_crops.production"])     # ... or the variable table itself
    rep.check(whole_table or sorted(sigma.values()) == sorted(fams9 + ["tc.outdoor_crops.production"]), rule, "extractor:outdoor_crops:arguments",
              "extract_outdoor_crops_results does not receive the nine crop variable families (or the variable table) and the crop supply series, "
              f"each once (got {sorted(sigma.values())[:4]}...)", loc=loc(EXT, oc))
    foods_ = outdoor_crop_foods(index, sigma)
    for use in ("to_humans", "biofuel", "feed"):
        r_ = foods_.get(use)
        ok = False
        detail = ""
        if isinstance(r_, PDict):
            want_ = {"kcals": f"variables.crops_food_{use}", "fat": f"variables.crops_food_{use}_fat", "protein": f"variables.crops_food_{use}_protein"}
            ok = all(isinstance(r_.d.get(l_), Rat) and {a_[1] for a_ in r_.d[l_].atoms() if isinstance(a_, tuple) and a_ and a_[0] == "series"} == {w_}
                     for l_, w_ in want_.items())
            detail = str({l_: str(r_.d.get(l_)) for l_ in want_})
        rep.check(ok, rule, f"extractor:outdoor_crops:{use}", f"outdoor_crops_{use} is not built from the {use} crop variables (kcals, fat, protein)",
                  loc=loc(EXT, ocf), detail=detail)
    # meat and milk, evaluated through whatever helpers build them: meat from the optimiser's meat_eaten variables, milk's three lanes from the
    # three milk supply series
    def sources(v_, lane):
        x_ = v_.d.get(lane) if isinstance(v_, PDict) else None
        if not isinstance(x_, Rat):
            return None
        return sorted({a_[1] for a_ in x_.atoms() if isinstance(a_, tuple) and a_ and a_[0] == "series"} | {
            ".".join(a_.path) for a_ in x_.atoms() if isinstance(a_, K) and a_.path[0] == "tc"})
    got = [sources(deep.get("meat"), l_) for l_ in ("kcals", "fat", "protein")] + [sources(deep.get("milk"), l_) for l_ in ("kcals", "fat", "protein")]
    rep.check(got == [["variables.meat_eaten"]] * 3 + [["tc.milk_kcals"], ["tc.milk_fat"], ["tc.milk_protein"]], rule,
              "extractor:meat-milk:arguments", f"meat/milk reported from {got}", loc=loc(EXT, er))
    # 4. interpreter mappings
    for q, method, suffix in (("Interpreter.assign_percent_fed_from_extractor", "in_units_percent_fed", ""),
                              ("Interpreter.assign_kcals_equivalent_from_extractor", "in_units_kcals_equivalent", "_kcals_equivalent")):
        fn = index.func(INT, q)
        # evaluated: the attributes the method leaves on the interpreter (hand-written assignments or a loop over a table of foods)
        icls = index.cls(INT, "Interpreter")

        # the extractor handed in is an Extractor whose attributes are named quantities: a method of it that the interpreter calls (a tuple
        # of the foods, say) is followed, so that what is unpacked is matched with what was listed
        xcls = index.cls(EXT, "Extractor")
        xattrs = {t_.attr for m_ in xcls.body if isinstance(m_, ast.FunctionDef) for s_ in ast.walk(m_) if isinstance(s_, (ast.Assign, ast.AugAssign))
                  for t_ in (s_.targets if isinstance(s_, ast.Assign) else [s_.target])
                  for t_ in ([t_] if isinstance(t_, ast.Attribute) else (getattr(t_, "elts", []) if isinstance(t_, (ast.Tuple, ast.List)) else []))
                  if isinstance(t_, ast.Attribute) and isinstance(t_.value, ast.Name) and t_.value.id == "self"}

        def run_i(it_, fn=fn, icls=icls):
            it_.classes = {"Interpreter": icls, "Extractor": xcls}
            o_ = Obj(icls, {}, "self")
            x_ = Obj(xcls, {a_: Path(("extracted_results", a_)) for a_ in xattrs}, "extracted_results")
            it_.call_function(fn, [x_], {}, o_)
            return o_

        try:
            lv = [x for x in explore(run_i, month_classes=False) if not isinstance(x[2], Abort)]
        except Unsupported as e:
            raise AnalysisError(f"{q} outside the analysed fragment: {e}")
        if len(lv) != 1:
            raise AnalysisError(f"{q}: {len(lv)} paths (expected one unconditional sequence of assignments)")
        got = {k_: path_text(v_) for k_, v_ in lv[0][2].attrs.items()}
        for attr, ex in PERCENT_SRC.items():
            if suffix and attr == "outdoor_crops":
                continue  # the kcal-equivalent of crops is reported as its two parts
            want = f"extracted_results.{ex}.{method}()"
            rep.check(got.get(attr + suffix) == want, rule, f"interpreter:{attr}{suffix}",
                      f"{attr}{suffix} is {got.get(attr + suffix)!r}, expected {want!r} (a different food's series, or a different unit)",
                      loc=loc(INT, fn))
    # 5. Extractor gets the optimiser's constants and variables of the same solve
    io = index.func(RUN, "ScenarioRunner.interpret_optimizer_results")
    inl = Inliner(io)
    P = [a.arg for a in io.args.args]
    rets = [r for r in io.body if isinstance(r, ast.Return)]
    from .core import plain_text
    got = plain_text(inl.expr(rets[-1].value)) if rets and rets[-1].value is not None else ""
    # returned = interpreter.interpret_results(Extractor(consts).extract_results(model, variables, time_consts), title), each of them one of this
    # function's own parameters (whatever their names and order)
    from .core import args_by_ref_names as _abn
    roles = {}
    e_w = inl.expr(rets[-1].value) if rets and rets[-1].value is not None else None
    try:
        xr = index.func(EXT, "Extractor.extract_results")
        ir = index.func(INT, "Interpreter.interpret_results")
        xi = index.func(EXT, "Extractor.__init__")
        fresh_interp = isinstance(e_w, ast.Call) and isinstance(e_w.func, ast.Attribute) and isinstance(e_w.func.value, ast.Call) \
            and dotted(e_w.func.value.func) == "Interpreter"      # the interpreter is a parameter, or made here
        if isinstance(e_w, ast.Call) and isinstance(e_w.func, ast.Attribute) and e_w.func.attr == "interpret_results" and (
                isinstance(e_w.func.value, ast.Name) or fresh_interp):
            ex_, title_ = _abn(e_w, ir, ["extracted_results", "title"])
            if isinstance(ex_, ast.Call) and isinstance(ex_.func, ast.Attribute) and ex_.func.attr == "extract_results" \
                    and isinstance(ex_.func.value, ast.Call) and dotted(ex_.func.value.func) == "Extractor":
                m3 = _abn(ex_, xr, ["model", "variables", "time_consts"])
                c1 = _abn(ex_.func.value, xi, ["constants"])
                vals = ([] if fresh_interp else [e_w.func.value]) + [c1[0]] + m3 + [title_]
                if all(isinstance(v_, ast.Name) for v_ in vals):
                    roles = dict(zip((() if fresh_interp else ("interpreter",)) + ("constants", "model", "variables", "time_consts", "title"),
                                     [v_.id for v_ in vals]))
                elif all(isinstance(v_, ast.Name) for v_ in vals if v_ is not m3[0] and v_ is not m3[1]) and all(
                        isinstance(v_, ast.Subscript) and isinstance(v_.value, ast.Name) and isinstance(v_.slice, ast.Constant) and isinstance(v_.slice.value, int)
                        for v_ in m3[:2]) and m3[0].value.id == m3[1].value.id and (m3[0].slice.value, m3[1].slice.value) == (0, 1):
                    # model and variables arrive as slots 0 and 1 of one record of the solve (what the solve routine hands back, kept whole)
                    record = m3[0].value.id
                    roles = dict(zip((() if fresh_interp else ("interpreter",)) + ("constants", "model", "variables", "time_consts", "title"),
                                     [(v_.id if isinstance(v_, ast.Name) else f"{record}#{v_.slice.value}") for v_ in vals]))
    except AnalysisError:
        roles = {}
    rep.check(bool(roles) and len(set(roles.values())) == len(roles) >= 5 and {r_.split("#")[0] for r_ in roles.values()} <= set(P[1:]), rule, "wiring:same-solve",
              "results are not extracted from the (model, variables, time_consts, constants) of the solve being reported", loc=loc(RUN, io),
              detail=f"got {got}")
    ro = index.func(RUN, "ScenarioRunner.run_optimizer")
    call = [c for c in walk_no_nested(ro) if isinstance(c, ast.Call) and dotted(c.func) == "self.interpret_optimizer_results"]
    from .core import bind_args
    bound = bind_args(call[0], io) if len(call) == 1 else {}
    ok = bool(roles) and all(roles[r_].split("#")[0] in bound for r_ in ("constants", "model", "variables", "time_consts"))
    if ok:
        for r_ in ("model", "variables"):
            if "#" in roles[r_]:
                base_, slot_ = roles[r_].split("#")
                bound[roles[r_]] = ast.Subscript(value=bound[base_], slice=ast.Constant(value=int(slot_)), ctx=ast.Load())
        inl_ro = Inliner(ro)
        RP = [a.arg for a in ro.args.args]
        from .core import through_helpers
        import ast as _ast
        from .core import args_by_ref_names
        a4 = [[(t_ if isinstance(t_, str) else norm_src(t_)) for t_ in (through_helpers(index.methods(RUN, "ScenarioRunner"), inl_ro, bound[roles[r_]]) or ["?"])]
              for r_ in ("constants", "model", "variables", "time_consts")]
        # (constants, model, variables, monthly constants): constants and monthly constants are parameters of run_optimizer itself, model and
        # variables are slots 0 and 1 of one optimiser call - Optimizer(constants, monthly).optimize_*(constants, monthly, ...) - made with
        # those same two parameters (on every branch); which argument is which is read through the callee's own parameter list
        ocls = index.methods(OPT, "Optimizer")
        ok = len(a4[0]) == 1 and len(a4[3]) == 1 and a4[0][0] in RP[1:] and a4[3][0] in RP[1:] and a4[0] != a4[3] and len(a4[1]) == len(a4[2]) >= 1
        C_, T_ = (a4[0][0], a4[3][0]) if ok else ("?", "?")

        def solve_call(text, slot):
            try:
                e_ = _ast.parse(text, mode="eval").body
            except SyntaxError:
                return None
            if not (isinstance(e_, _ast.Subscript) and isinstance(e_.slice, _ast.Constant) and e_.slice.value == slot and isinstance(e_.value, _ast.Call)):
                return None
            c_ = e_.value
            if not (isinstance(c_.func, _ast.Attribute) and c_.func.attr in ("optimize_to_humans", "optimize_feed_to_animals") and c_.func.attr in ocls
                    and isinstance(c_.func.value, _ast.Call) and dotted(c_.func.value.func) == "Optimizer" and "__init__" in ocls):
                return None
            ctor = args_by_ref_names(c_.func.value, ocls["__init__"], ["consts_for_optimizer", "time_consts"])
            if None in ctor or [norm_src(x) for x in ctor] != [C_, T_]:
                return None
            # the solve routine is given the same two tables again - or takes none (it uses the ones the Optimizer was constructed with)
            mp_ = [a.arg for a in ocls[c_.func.attr].args.args][1:]
            if "consts_for_optimizer" in mp_ and "time_consts" in mp_ or (len(mp_) >= 2 and "consts_for_optimizer" not in mp_ and "time_consts" not in mp_):
                meth = args_by_ref_names(c_, ocls[c_.func.attr], ["consts_for_optimizer", "time_consts"])
                if None in meth or [norm_src(x) for x in meth] != [C_, T_]:
                    return None
            else:
                # it still takes one of the two (the other it reads from the object): that one must be the caller's own
                bound_ = bind_args(c_, ocls[c_.func.attr])
                for nm_, want_ in (("consts_for_optimizer", C_), ("time_consts", T_)):
                    if nm_ in mp_ and (nm_ not in bound_ or norm_src(bound_[nm_]) != want_):
                        return None
            return norm_src(c_)

        for m_, v_ in zip(a4[1], a4[2]):
            sm, sv = solve_call(m_, 0), solve_call(v_, 1)
            ok = ok and sm is not None and sm == sv
    rep.check(ok, rule, "wiring:run_optimizer", "run_optimizer does not hand its own model/variables/constants to the interpreter", loc=loc(RUN, ro))
    rep.require_min(rule, 30)


# ----------------------------------------------------------------------------------------------- COEF


def coef(index, rep, db):
    rule = "C04.COEF"
    # LP coefficient of each to_humans family in the consumption equality, relative to consumed_kcals*BKN/100
    ts = [t for t in db.templates if t.entry == "add_total_human_consumption_to_model" and not t.aborted
          and all(v for k, v in t.decisions.items() if k.startswith("consts.ADD_"))]
    if not ts:
        raise AnalysisError("no all-resources consumption template")
    t = ts[0]
    eq = [c for _, c in t.constraints if isinstance(c, Cmp) and c.sense == "=="][0]
    coeffs, const = eq.expr.linear_in_vars()
    cons = [v for v in coeffs if v.family == "consumed_kcals"][0]
    bkn = Rat.atom(K(("consts", "BILLION_KCALS_NEEDED"), None))
    norm = coeffs[cons] * Rat.const(100) / bkn  # so that contributions read  -coef * var
    lp = {}
    for v, c in coeffs.items():
        if v.family != "consumed_kcals":
            lp[v.family] = (Rat.const(0) - c) / norm
    # extractor ratios
    deep, _it_d = extractor_deep(index)
    er_ = index.func(EXT, "Extractor.extract_results")
    for food, (lpfam, exattr) in VAR_FOODS.items():
        fam = f"{lpfam}_to_humans"
        val = triple_factor(deep, lpfam, exattr)
        if fam not in lp:
            raise AnalysisError(f"family {fam} not in the LP consumption sum")
        rep.check(val is not None and val == lp[fam], rule, f"ratio:{fam}",
                  f"the reporting factor of {fam} ({val}) differs from its coefficient in the optimiser's consumption sum ({lp[fam]}): the "
                  "breakdown would not add up to the optimised percent fed", loc=loc(EXT, er_))
    # generic conversion: billions fed = series * ratio / KCALS_MONTHLY - read off the evaluated chain (whatever the signature of the helper
    # that does it): every reported to-humans series of the four foods is its variable family x one plain factor / KCALS_MONTHLY, in billions
    # fed each month; for seaweed the factor is the kcals per unit of the variable
    cls = index.cls(EXT, "Extractor")
    g = index.func(EXT, "Extractor.extract_generic_results", required=False)
    km = Rat.atom(K(("consts", "KCALS_MONTHLY"), None))
    ok = True
    details = []
    for food, (lpfam, exattr) in VAR_FOODS.items():
        v_ = deep.get(f"{exattr}_to_humans")
        f_ = triple_factor(deep, lpfam, exattr)
        ok = ok and f_ is not None and isinstance(v_, PDict) and v_.d.get("kcals_units") == "billion people fed each month"
        details.append(f"{food}: {f_}")
    ok = ok and triple_factor(deep, "seaweed", "seaweed") == Rat.atom(K(("consts", "SEAWEED_KCALS"), None))
    rep.check(ok, rule, "generic:billions-fed = value x ratio / KCALS_MONTHLY",
              "a variable's value is not converted to billions fed as value x kcals_ratio / KCALS_MONTHLY", loc=loc(EXT, g) if g is not None else EXT,
              detail="; ".join(details))
    # meat, crops: ratio 1
    meat = deep.get("meat")
    milk = deep.get("milk")
    mk = Rat.atom(K(("tc", "milk_kcals"), None))
    rep.check(isinstance(meat, PDict) and meat.d.get("kcals") == Rat.atom(("series", "variables.meat_eaten")) / km, rule, "meat:ratio-1",
              "meat eaten is not converted with factor 1 / KCALS_MONTHLY (its LP coefficient is 1)", loc=loc(EXT, er_))
    rep.check(isinstance(milk, PDict) and isinstance(milk.d.get("kcals"), Rat) and milk.d.get("kcals") == _it_d.to_rat(Path(("tc", "milk_kcals"))) / km, rule,
              "milk:ratio-1", "milk kcals are not converted with factor 1 / KCALS_MONTHLY", loc=loc(EXT, er_))
    rep.check(lp.get("meat_eaten") == Rat.const(1) and lp.get("crops_food_to_humans") == Rat.const(1), rule, "lp:meat-and-crops-coefficient-1",
              "meat / crops no longer enter the LP consumption sum with coefficient 1", loc=OPT)
    cf = index.func(EXT, "Extractor.create_food_object_from_fat_protein_variables")
    res4 = outdoor_crop_foods(index).get("to_humans")
    rep.check(isinstance(res4, PDict) and res4.d.get("kcals") == Rat.atom(("series", "variables.crops_food_to_humans")) / km, rule, "crops:ratio-1",
              "crop variables are not converted with factor 1 / KCALS_MONTHLY", loc=loc(EXT, cf))
    # to_monthly_list: element m is variables[m].varValue * conversion for every month
    tml = index.func(EXT, "Extractor.to_monthly_list")
    loops = [s for s in tml.body if isinstance(s, ast.For)]
    ok = len(loops) == 1 and norm_src(loops[0].iter) in ("range(0, self.constants['NMONTHS'])", "range(self.constants['NMONTHS'])")
    if ok:
        # the variable list is the parameter the loop body subscripts with the loop variable; the conversion factor is the other one
        _ps = [a.arg for a in tml.args.args if a.arg != "self"]
        _sub = {n.value.id for n in ast.walk(loops[0]) if isinstance(n, ast.Subscript) and isinstance(n.value, ast.Name) and n.value.id in _ps}
        if len(_ps) != 2 or len(_sub) != 1:
            raise AnalysisError("to_monthly_list: expected (variable list, conversion factor)")
        pv = _sub.pop()
        pc = [x for x in _ps if x != pv][0]

        def run5(it5):
            env = {pv: Opaque("variables"), pc: Rat.atom(("conv",)), loops[0].target.id: Rat.atom("M")}
            for st in tml.body[: tml.body.index(loops[0])]:
                if isinstance(st, ast.Assign) and isinstance(st.targets[0], ast.Name):
                    if isinstance(st.value, ast.List) and not st.value.elts:
                        env[st.targets[0].id] = PList([])
                    elif isinstance(st.value, ast.Constant):
                        env[st.targets[0].id] = st.value.value if isinstance(st.value.value, bool) else it5.eval(st.value, env)
            it5.exec_block(loops[0].body, env)
            return env

        out_name = None
        try:
            res5 = [env for _, _, env, _ in explore(run5, month_classes=False) if not isinstance(env, Abort)]
            ok = bool(res5)
            for env in res5:
                lists = [(k, v) for k, v in env.items() if isinstance(v, PList) and v.items]
                ok = ok and len(lists) == 1
                if not ok:
                    break
                out_name, lst = lists[0]
                item = lst.items
                ok = ok and len(item) == 1 and isinstance(item[0], Rat) and \
                    item[0] == Rat.atom(("varValue", "variables[M]")) * Rat.atom(("conv",))
        except Unsupported:
            ok = False
    rets = [norm_src(r.value) for r in walk_no_nested(tml) if isinstance(r, ast.Return)]
    rets = sorted(rets, key=lambda r: r.replace(" ", "").startswith("np.array([0]*len("), reverse=True)
    if loops:
        okfinal = ok and out_name is not None and rets and rets[-1] in (f"np.array({out_name})", f"np.asarray({out_name})", out_name) and all(
            r == rets[-1] or r.replace(" ", "").startswith("np.array([0]*len(") for r in rets)
    else:
        # written as a comprehension over the months: evaluate the last return expression with a generic month index
        from .symx import RLE, EIDX, NSYM, PDict as _PD
        from .nphooks import np_hook
        # the variable list is the parameter the loop body subscripts with the loop variable; the conversion factor is the other one
        _ps = [a.arg for a in tml.args.args if a.arg != "self"]
        _sub = {n.value.id for n in ast.walk(tml) if isinstance(n, ast.Subscript) and isinstance(n.value, ast.Name) and n.value.id in _ps}
        if len(_ps) != 2 or len(_sub) != 1:
            raise AnalysisError("to_monthly_list: expected (variable list, conversion factor)")
        pv = _sub.pop()
        pc = [x for x in _ps if x != pv][0]
        last = [r for r in tml.body if isinstance(r, ast.Return)]
        okfinal = False
        if last:
            it6 = Interp()
            it6.call_hook = np_hook
            env6 = {pv: Opaque("variables"), pc: Rat.atom(("conv",)), "self": Obj(None, {"constants": _PD({"NMONTHS": Rat.atom(NSYM)})}, "self")}
            try:
                v6 = it6.eval(last[-1].value, env6)
                segs6 = v6.segs if hasattr(v6, "segs") else ([(v6.fill, v6.length)] if isinstance(v6, RLE) else None)
                idx = "<" + ",".join(EIDX) + ">" if isinstance(EIDX, tuple) else str(EIDX)
                fill6 = it6.to_rat(segs6[0][0]) if segs6 and len(segs6) == 1 else None
                vv = [a_ for a_ in (fill6.atoms() if fill6 is not None else []) if isinstance(a_, tuple) and a_[0] == "varValue"
                      and a_[1].startswith("variables[") and "elem-index" in a_[1]]
                okfinal = fill6 is not None and it6.to_rat(segs6[0][1]) == Rat.atom(NSYM) and len(vv) == 1 and fill6 == Rat.atom(vv[0]) * Rat.atom(("conv",))
            except Unsupported:
                okfinal = False
    rep.check(okfinal, rule, "to_monthly_list:value[m] = variables[m].varValue x conversion",
              "to_monthly_list does not return variables[m].varValue x conversion for every month m", loc=loc(EXT, tml))
    # billions fed -> percent fed is x 100*KCALS_MONTHLY/BKN  (C10 table identity), with the optimiser's BKN/KCALS_MONTHLY
    from .c10 import build_conversions, tables
    conv = build_conversions(index)
    tabs = tables(index, conv)
    itc = Interp()
    kmc = itc.to_rat(conv.attrs["kcals_monthly"])
    bknc = itc.to_rat(conv.attrs["billion_kcals_needed"])
    f = tabs["kcals"]["percent people fed each month"] / tabs["kcals"]["billion people fed each month"]
    rep.check((Rat.const(1) / kmc) * f == Rat.const(100) / bknc, rule, "percent = value x coefficient x 100 / needs",
              "billions fed -> percent fed does not compose with 1/KCALS_MONTHLY to 100/BILLION_KCALS_NEEDED (the factor the LP uses)",
              loc="src/food_system/unit_conversions.py")
    sp = index.func(PARAMS, "Parameters.set_nutrition_per_month")
    inl_sp = Inliner(sp)
    asg = {norm_src(t_): inl_sp.src(v_) for t_, v_ in inl_sp.stores}
    rep.check(asg.get("constants_out['BILLION_KCALS_NEEDED']") == "Food.conversions.billion_kcals_needed" and
              asg.get("constants_out['KCALS_MONTHLY']") == "Food.conversions.kcals_monthly", rule, "optimiser-constants = conversion settings",
              "the optimiser's BILLION_KCALS_NEEDED / KCALS_MONTHLY are not the conversion object's values", loc=loc(PARAMS, sp))
    rep.require_min(rule, 12)


# ----------------------------------------------------------------------------------------------- SUMSET


def sumset(index, rep):
    rule = "C04.SUMSET"
    fn = index.func(INT, "Interpreter.get_sum_by_adding_to_humans")
    # what the function returns, after copy propagation (the sum may be returned directly or through a local)
    rets_ = [r for r in fn.body if isinstance(r, ast.Return) and r.value is not None]
    if len(rets_) != 1:
        raise AnalysisError("get_sum_by_adding_to_humans: not exactly one top-level return")
    try:
        sum_expr = ast.parse(Inliner(fn).at(rets_[0]).src(rets_[0].value), mode="eval").body
    except SyntaxError:
        raise AnalysisError("get_sum_by_adding_to_humans: sum expression not found")
    if not isinstance(sum_expr, ast.BinOp):
        raise AnalysisError("get_sum_by_adding_to_humans: sum expression not found")
    terms = []

    def flat(e):
        if isinstance(e, ast.BinOp) and isinstance(e.op, ast.Add):
            flat(e.left)
            flat(e.right)
        else:
            terms.append(norm_src(e))

    flat(sum_expr)
    want = sorted("self." + n for n in NINE)
    rep.check(sorted(terms) == want, rule, "sum:exactly-the-nine-contributions",
              f"the headline sum has terms {sorted(set(terms) ^ set(want))} off the nine contributions (a food missing, counted twice, or a "
              "split series added on top)", loc=loc(INT, fn))
    rep.ok(rule, "sum:returned")
    gp = index.func(INT, "Interpreter.get_percent_people_fed")
    ret = [r for r in gp.body if isinstance(r, ast.Return)]
    gp_param = gp.args.args[1].arg if len(gp.args.args) > 1 else "humans_fed_sum"
    # one slot of what is returned reads (after copy propagation) `<the sum parameter>.get_min_nutrient()[1]`; the caller stores that slot
    slot = None
    if ret and isinstance(ret[-1].value, (ast.List, ast.Tuple)):
        at = Inliner(gp).at(ret[-1])
        slot = next((k for k, e in enumerate(ret[-1].value.elts) if at.src(e) == f"{gp_param}.get_min_nutrient()[1]"), None)
    rep.check(slot is not None, rule, "headline = min nutrient value of the sum", "percent fed is not the value returned by get_min_nutrient() of the sum",
              loc=loc(INT, gp))
    ap = index.func(INT, "Interpreter.assign_interpreted_properties")
    body = ap.body
    i_sum = next((i for i, s in enumerate(body) if "self.get_sum_by_adding_to_humans()" in norm_src(s)), None)
    i_head = next((i for i, s in enumerate(body) if "self.get_percent_people_fed(" in norm_src(s)), None)
    i_round = next((i for i, s in enumerate(body) if "self.correct_and_validate_rounding_errors()" in norm_src(s)), None)
    ok = None not in (i_sum, i_head) and i_sum < i_head and (i_round is None or i_round > i_sum)
    if ok:
        inl_ap = Inliner(ap)
        got = [inl_ap.src(v_) for t_, v_ in inl_ap.stores if norm_src(t_) == "self.percent_people_fed"]
        ok = got == [f"self.get_percent_people_fed(self.get_sum_by_adding_to_humans())[{slot}]"]
    rep.check(ok, rule, "headline-from-unrounded-sum",
              "percent_people_fed is not computed from the sum of the unrounded contributions (display rounding must come after)", loc=loc(INT, ap))
    ir = index.func(INT, "Interpreter.interpret_results")
    order = [dotted(c.func) for s in ir.body for c in ast.walk(s) if isinstance(c, ast.Call) and (dotted(c.func) or "").startswith("self.")]
    need = ["self.assign_percent_fed_from_extractor", "self.assign_interpreted_properties"]
    ok = all(n in order for n in need) and order.index(need[0]) < order.index(need[1])
    # nothing between them rewrites a contribution
    between = []
    if ok:
        for name in order[order.index(need[0]) + 1: order.index(need[1])]:
            m = index.func(INT, "Interpreter." + name[5:], required=False)
            if m is not None:
                for st in walk_no_nested(m):
                    if isinstance(st, (ast.Assign, ast.AugAssign)):
                        for tg in (st.targets if isinstance(st, ast.Assign) else [st.target]):
                            for e in ast.walk(tg):
                                if isinstance(e, ast.Attribute) and dotted(e.value) == "self" and e.attr in NINE:
                                    between.append(f"{name[5:]} writes self.{e.attr}")
    rep.check(ok and not between, rule, "contributions-unchanged-before-sum", "a contribution is rewritten between extraction and the headline sum: "
              + "; ".join(between), loc=loc(INT, ir))
    rep.require_min(rule, 5)


# ----------------------------------------------------------------------------------------------- FLOOR


def floor(index, rep, db):
    rule = "C04.FLOOR"
    ts = [t for t in db.templates if t.entry == "constrain_next_optimization_to_have_same_minimum_starvation" and not t.aborted]
    if not ts:
        raise AnalysisError("floor template missing")
    for t in ts:
        floors = []
        lc = getattr(t.model, "loop_class", {})
        for i, (name, c) in enumerate(t.constraints):
            if isinstance(c, Cmp) and c.sense == "<=" and any(v.family == "consumed_kcals" for v in c.expr.vars()):
                coeffs, const = c.expr.linear_in_vars()
                (v, cv), = [(v, cv) for v, cv in coeffs.items() if v.family == "consumed_kcals"]
                objv = [a for a in const.atoms() if isinstance(a, tuple) and "objective.value" in str(a)]
                if len(objv) == 1 and cv.is_const():
                    ratio = (const / Rat.atom(objv[0]))
                    if ratio.is_const():
                        floors.append((ratio.const_value() / -cv.const_value(), lc.get(i), v))
        ok = len(floors) == 1 and floors[0][0] >= Fraction(9999, 10000) and floors[0][0] <= 1 and floors[0][1] is not None \
            and floors[0][1].lo == (0, 0) and floors[0][1].hi == (1, -1) and floors[0][2].idx is not None and floors[0][2].idx.m == 1 \
            and floors[0][2].idx.c == 0
        rep.check(ok, rule, "floor: c x optimum <= consumed_kcals[m], c >= 0.9999, every month",
                  f"the tie-breaking solves are not floored at (almost) the optimum for every month (found {[(str(f[0]), str(f[1])) for f in floors]})",
                  loc=OPT)
    ta = [t for t in db.templates if t.entry == "constrain_next_optimization_to_have_same_feed_biofuel" and not t.aborted]
    okc = 0
    for t in ta:
        for name, c in t.constraints:
            if isinstance(c, Cmp) and c.sense == "<=":
                objv = [a for a in c.expr.atoms() if isinstance(a, tuple) and "objective.value" in str(a)]
                if len(objv) == 1:
                    co = c.expr.n  # polynomial; coefficient of the objective atom
                    coef_ = _coeff(c.expr, objv[0])
                    if coef_ is not None and coef_ >= Fraction(9999, 10000):
                        okc += 1
    rep.check(bool(ta) and okc >= 1, rule, "floor(animal round): c x optimum <= weighted feed+biofuel",
              "the animal round's later solves are not floored at its optimum", loc=OPT)
    # order and solve targets in run_optimizations_on_constraints
    fn = index.func(OPT, "Optimizer.run_optimizations_on_constraints")
    seq = []
    for st in fn.body:
        for c in ast.walk(st):
            if isinstance(c, ast.Call) and (dotted(c.func) or "").startswith("self."):
                seq.append(dotted(c.func)[5:])
    need = ["constrain_next_optimization_to_have_same_minimum_starvation", "optimize_best_food_consumption_to_go_to_humans",
            "reduce_fluctuations_with_a_final_optimization"]
    if not all(n in seq for n in need):
        raise AnalysisError("run_optimizations_on_constraints no longer calls the floor / tie-break helpers")
    rep.check(seq.index(need[0]) < seq.index(need[1]) < seq.index(need[2]), rule, "floor-before-tie-breaks",
              "a tie-breaking solve runs before the minimum-starvation floor is added", loc=loc(OPT, fn))
    # the branch structure: floor for to_humans, feed/biofuel floor otherwise
    br = [s for s in fn.body if isinstance(s, ast.If) and norm_src(s.test) == "optimization_type == 'to_humans'"]
    ok = len(br) == 1 and "constrain_next_optimization_to_have_same_minimum_starvation" in norm_src(br[0].body[0]) and \
        br[0].orelse and "constrain_next_optimization_to_have_same_feed_biofuel" in norm_src(br[0].orelse[0])
    rep.check(ok, rule, "floor-on-every-round", "a round has no floor before its tie-breaking solves", loc=loc(OPT, fn))
    # the floor helper's result is what the later helpers receive (model threaded through)
    for helper in need[1:]:
        h = index.func(OPT, "Optimizer." + helper)
        solves = [c for c in walk_no_nested(h) if isinstance(c, ast.Call) and isinstance(c.func, ast.Attribute) and c.func.attr == "solve"]
        okh = len(solves) == 1
        if okh:
            target = norm_src(solves[0].func.value)
            srcs = [norm_src(s.value) for s in walk_no_nested(h) if isinstance(s, ast.Assign) and norm_src(s.targets[0]) == target]
            hp = lp_model_param(h)
            okh = hp is not None and srcs in ([hp], [f"{hp}.copy()"])
        rep.check(okh, rule, f"{helper}:solves-the-floored-model",
                  "the tie-breaking solve is not run on the floored model (or a copy of it): the headline could degrade", loc=loc(OPT, h))
    # the floor helper adds to the model it is given and returns it
    fh = index.func(OPT, "Optimizer.constrain_next_optimization_to_have_same_minimum_starvation")
    rets = [norm_src(r.value) for r in fh.body if isinstance(r, ast.Return)]
    fhp = lp_model_param(fh)
    # ... or, written as a procedure, adds to the LP object it is given in place (`model += ...` on a PuLP problem returns the same object) and
    # returns nothing: the caller's variable then is the floored model
    procedure = not rets and fhp is not None and any(isinstance(n_, ast.AugAssign) and isinstance(n_.target, ast.Name) and n_.target.id == fhp
                                                     for n_ in walk_no_nested(fh)) and not any(
        isinstance(n_, ast.Assign) and any(isinstance(t_, ast.Name) and t_.id == fhp for t_ in n_.targets) for n_ in walk_no_nested(fh))
    rep.check(procedure or (len(rets) == 1 and fhp is not None and rets[0].startswith(f"({fhp}, ") and rets[0][len(fhp) + 3:-1] in [a.arg for a in fh.args.args]),
              rule, "floor-helper:returns-model", "the floored model is not returned (nor floored in place)", loc=loc(OPT, fh))
    # what the first tie-breaking solve receives as its model is result 0 of a floor helper (on every branch), and the floor helper itself
    # received this function's model parameter
    later = [c for c in ast.walk(fn) if isinstance(c, ast.Call) and dotted(c.func) == "self." + need[1]]
    model_p = lp_model_param(fn)
    inl_f = Inliner(fn)
    from .core import bind_args as _baf
    h1 = index.func(OPT, "Optimizer." + need[1])
    h1p = lp_model_param(h1)
    ok = len(later) == 1 and model_p is not None and h1p is not None and fhp is not None and h1p in _baf(later[0], h1)
    if ok and procedure:
        # the later solve receives this routine's own model variable, which the floor procedure was handed before (on the to-humans branch)
        # and which is not rebound in between
        got_later = _baf(later[0], h1)[h1p]
        floor_calls = [c for c in ast.walk(fn) if isinstance(c, ast.Call) and dotted(c.func) == "self.constrain_next_optimization_to_have_same_minimum_starvation"]
        rebinds = [s_ for s_ in walk_no_nested(fn) if isinstance(s_, ast.Assign) and any(isinstance(t_, ast.Name) and t_.id == model_p for t_ in s_.targets)]
        ok = isinstance(got_later, ast.Name) and got_later.id == model_p and len(floor_calls) == 1 and not rebinds and \
            floor_calls[0].lineno < later[0].lineno and norm_src(_baf(floor_calls[0], fh).get(fhp) or ast.Constant(value=None)) == model_p
    elif ok:
        alts = inl_f.at(later[0]).alternatives(_baf(later[0], h1)[h1p]) or []
        ok = bool(alts) and all(a_.startswith("self.constrain_next_optimization_to_have_same_") and a_.endswith("[0]") for a_ in alts)
        threaded = False
        for a_ in alts:
            try:
                e_ = ast.parse(a_, mode="eval").body
            except SyntaxError:
                continue
            if isinstance(e_, ast.Subscript) and isinstance(e_.value, ast.Call) and dotted(e_.value.func) == "self.constrain_next_optimization_to_have_same_minimum_starvation":
                got_m = _baf(e_.value, fh).get(fhp)
                threaded = threaded or (got_m is not None and norm_src(got_m) == model_p)
        ok = ok and threaded
    rep.check(ok, rule, "floor-helper:threaded", "the floored model is not the one passed on to the later solves", loc=loc(OPT, fn))
    rep.require_min(rule, 8)


def _coeff(expr, atom):
    """numeric coefficient of a degree-1 atom in a rational form with constant denominator (None if not numeric)"""
    if not expr.d.is_const():
        return None
    tot = Fraction(0)
    for mono, c in expr.n.t.items():
        if mono == ((atom, 1),):
            tot += c
    return tot / expr.d.const_value()


# ----------------------------------------------------------------------------------------------- CSV


def csv_rule(index, rep):
    rule = "C04.CSV"
    fn = index.func(INT, "Interpreter.interpret_results")
    # what is handed to pd.DataFrame(...): evaluated (dict literal, comprehension over the food names, ...) with `self` opaque
    inl = Inliner(fn)
    frames = [c for c in walk_no_nested(fn) if isinstance(c, ast.Call) and dotted(c.func) in ("pd.DataFrame", "pandas.DataFrame") and c.args]
    if len(frames) != 1:
        raise AnalysisError("interpret_results: the pd.DataFrame(...) of the per-food table was not found")
    it_c = Interp()

    def hook_c(interp, dn, a, kw, node):
        if dn in ("np.array", "np.asarray") and len(a) == 1 and not kw:
            return a[0]
        return NotImplemented

    it_c.call_hook = hook_c
    try:
        table = it_c.eval(inl.expr(frames[0].args[0]), {"self": Path(("self",))})
    except Unsupported as e:
        raise AnalysisError(f"interpret_results: the per-food table is built outside the analysed fragment: {e}")
    if not isinstance(table, PDict):
        raise AnalysisError("interpret_results: the per-food table is not a dictionary of columns")
    cols = {k: v for k, v in table.d.items()}
    d = frames[0]
    rep.check(sorted(map(str, cols)) == sorted(CSV_COLS), rule, "columns", f"CSV columns {sorted(set(map(str, cols)) ^ set(CSV_COLS))} differ from the ten per-food series",
              loc=loc(INT, d))
    for name, v in cols.items():
        want = ("self", f"{name}_kcals_equivalent", "kcals")
        rep.check(isinstance(v, Path) and v.parts == want and v.idx is None, rule, f"column:{name}",
                  f"CSV column {name} is not the unmodified kcal-equivalent series of {name} (np.array(self.{name}_kcals_equivalent.kcals))", loc=loc(INT, d))
    # written through pd.DataFrame(dict).to_csv(path) with no formatting arguments
    dfs = [s for s in walk_no_nested(fn) if isinstance(s, ast.Assign) and s.value is frames[0]]
    writes = [c for c in walk_no_nested(fn) if isinstance(c, ast.Call) and isinstance(c.func, ast.Attribute) and c.func.attr == "to_csv"]
    ok = len(dfs) == 1 and len(writes) == 1 and norm_src(writes[0].func.value) == norm_src(dfs[0].targets[0]) and \
        not [k for k in writes[0].keywords if k.arg in ("float_format", "columns", "decimal")]
    rep.check(ok, rule, "written-unformatted", "the table is not written as pd.DataFrame(dict).to_csv(path) without number formatting", loc=loc(INT, fn))
    # the write replaces the file with this run's table: no append mode, header kept, no other to_csv option that drops or reshapes numbers
    if len(writes) == 1:
        bad_kw = []
        for k in writes[0].keywords:
            if k.arg in ("index", "sep", "encoding", "index_label", "lineterminator", "line_terminator"):
                continue
            if k.arg == "mode" and isinstance(k.value, ast.Constant) and k.value.value == "w":
                continue
            if k.arg == "header" and isinstance(k.value, ast.Constant) and k.value.value is True:
                continue
            bad_kw.append(f"{k.arg}={norm_src(k.value)[:40]}" if k.arg else "**" + norm_src(k.value)[:40])
        rep.check(not bad_kw and len(writes[0].args) == 1, rule, "written-replacing-the-file",
                  f"to_csv is called with {bad_kw or 'extra positional arguments'}: the saved file may hold rows of an earlier run, or not the numbers of the "
                  "returned result", loc=loc(INT, writes[0]))
    # the write happens on every call: every enclosing conditional is a literal-True flag, nothing returns before it
    if len(writes) == 1:
        w = writes[0]
        conds = []
        p = getattr(w, "_parent", None)
        child = w
        while p is not None and p is not fn:
            if isinstance(p, (ast.If, ast.While, ast.For, ast.Try, ast.With, ast.IfExp)):
                if isinstance(p, ast.If):
                    in_body = any(child is x for x in p.body)
                    flag = isinstance(p.test, ast.Name) and in_body and [
                        norm_src(a.value) for a in walk_no_nested(fn) if isinstance(a, ast.Assign) and any(
                            isinstance(t, ast.Name) and t.id == p.test.id for t in a.targets)] == ["True"]
                    if not flag:
                        conds.append(f"if {norm_src(p.test)[:60]}" + ("" if in_body else " (else arm)"))
                elif not isinstance(p, ast.With):
                    conds.append(type(p).__name__)
            child = p
            p = getattr(p, "_parent", None)
        early = [r.lineno for r in walk_no_nested(fn) if isinstance(r, (ast.Return, ast.Raise)) and r.lineno < w.lineno]
        rep.check(not conds and not early, rule, "written-on-every-call",
                  "the table is not (re)written on every call: " + "; ".join(conds + [f"return/raise at line {l} precedes the write" for l in early]) +
                  " - a run can leave a stale table from an earlier run next to a different returned result", loc=loc(INT, w))
    # the kcal-equivalent attributes are assigned once (in assign_kcals_equivalent_from_extractor) and not touched before the write
    ms = index.methods(INT, "Interpreter")
    writers = {}
    for mname, m in ms.items():
        for st in walk_no_nested(m):
            if isinstance(st, (ast.Assign, ast.AugAssign)):
                for tg in (st.targets if isinstance(st, ast.Assign) else [st.target]):
                    for e in ast.walk(tg):
                        if isinstance(e, ast.Attribute) and dotted(e.value) == "self" and e.attr.endswith("_kcals_equivalent") \
                                and e.attr[: -len("_kcals_equivalent")] in CSV_COLS:
                            writers.setdefault(e.attr, set()).add(mname)
                        if isinstance(e, ast.Subscript) and isinstance(e.value, ast.Attribute) and e.value.attr in ("kcals",) and \
                                "_kcals_equivalent" in norm_src(e.value):
                            writers.setdefault(norm_src(e.value), set()).add(mname + "(in-place)")
    bad = {a: sorted(w) for a, w in writers.items() if w != {"assign_kcals_equivalent_from_extractor"}}
    rep.check(not bad, rule, "series-assigned-once", f"kcal-equivalent series are (re)written outside assign_kcals_equivalent_from_extractor: {bad}",
              loc=loc(INT, fn))
    order = [dotted(c.func) for s in fn.body for c in ast.walk(s) if isinstance(c, ast.Call) and (dotted(c.func) or "").startswith("self.")]
    rep.check("self.assign_kcals_equivalent_from_extractor" in order, rule, "series-assigned-before-write",
              "interpret_results no longer assigns the kcal-equivalent series before writing them", loc=loc(INT, fn))
    rets = [norm_src(r.value) for r in fn.body if isinstance(r, ast.Return)]
    rep.check(rets == ["self"], rule, "returned-object-is-the-one-written", "interpret_results does not return the object whose series were written",
              loc=loc(INT, fn))
    rep.require_min(rule, 14)


# ----------------------------------------------------------------------------------------------- SPLIT


def split(index, rep):
    rule = "C04.SPLIT"
    fn = index.func(EXT, "Extractor.to_monthly_list_outdoor_crops_kcals")
    loops = [s for s in fn.body if isinstance(s, ast.For)]
    if not loops:
        return split_vectorised(index, rep, fn)
    if len(loops) != 1:
        raise AnalysisError("to_monthly_list_outdoor_crops_kcals: month loop not found")
    loop = loops[0]
    rep.check(norm_src(loop.iter) in ("range(0, self.constants['NMONTHS'])", "range(self.constants['NMONTHS'])"), rule, "every-month",
              "the split is not computed for every month", loc=loc(EXT, loop))
    outs = [norm_src(e) for r in fn.body if isinstance(r, ast.Return) and isinstance(r.value, (ast.List, ast.Tuple)) for e in r.value.elts]
    if len(outs) != 2:
        raise AnalysisError("to_monthly_list_outdoor_crops_kcals no longer returns two series")

    def runit(it):
        env = {"crops_kcals_produced": Opaque("produced"), "crops_food_eaten": Opaque("eaten"), "conversion": Rat.atom(("conv",)),
               loop.target.id: Rat.atom("M"), "self": Obj(None, {}, "self")}
        for s in fn.body:
            if isinstance(s, ast.Assign) and isinstance(s.value, ast.List) and not s.value.elts:
                env[norm_src(s.targets[0])] = PList([])
        orig_getitem = it.getitem

        def getitem(obj, key, node):
            if isinstance(obj, Opaque) and obj.name == "produced":
                return Rat.atom(("produced",))
            return orig_getitem(obj, key, node)

        it.getitem = getitem
        it.exec_block(loop.body, env)
        return env

    try:
        envs = explore(runit, month_classes=False)
    except Unsupported as e:
        raise AnalysisError(f"crop split outside the analysed fragment: {e}")
    eaten = Rat.atom(("varValue", "eaten[M]"))
    conv = Rat.atom(("conv",))
    n = 0
    for _, dec, env, it in envs:
        if isinstance(env, Abort):
            continue
        n += 1
        a = env[outs[0]].items
        b = env[outs[1]].items
        ok = len(a) == 1 and len(b) == 1 and isinstance(a[0], Rat) and isinstance(b[0], Rat) and (a[0] + b[0]) == eaten * conv
        arm = ",".join(f"{'T' if v else 'F'}" for v in dec.values())
        rep.check(ok, rule, f"immediate + new-storage = eaten x conversion [arm {arm}]",
                  "the two parts of crops eaten do not add up to the crops eaten (or are scaled differently) in this arm", loc=loc(EXT, loop),
                  detail=f"{a[0] if a else None} + {b[0] if b else None}")
        nonneg_hint = None
    if n != 2:
        raise AnalysisError(f"crop split: {n} arms analysed, expected 2")
    rep.require_min(rule, 3)


def split_vectorised(index, rep, fn):
    """the split written as whole-array numpy code: evaluated elementwise (one generic month), every feasible combination of
    the elementwise comparisons must give immediate + new-storage = eaten x conversion"""
    from .symx import NArr, RLE, RLECat, EIDX, NSYM, PDict, _segs, _Return
    from .nphooks import np_hook
    from .rat import feasible, implied_substitutions
    rule = "C04.SPLIT"

    def runit(it):
        it.call_hook = np_hook
        env = {"crops_kcals_produced": NArr([(Rat.atom(("produced",)), Rat.atom(NSYM))]), "crops_food_eaten": Opaque("eaten"),
               "conversion": Rat.atom(("conv",)), "self": Obj(None, {"constants": PDict({"NMONTHS": Rat.atom(NSYM)})}, "self")}
        body = [s for s in fn.body if not (isinstance(s, ast.Expr) and isinstance(s.value, ast.Constant))]
        try:
            it.exec_block(body, env)
        except _Return as r:
            return r.value
        return None

    try:
        envs = explore(runit, month_classes=False)
    except Unsupported as e:
        raise AnalysisError(f"crop split (array form) outside the analysed fragment: {e}")
    conv = Rat.atom(("conv",))
    n = 0
    for _, dec, res, it in envs:
        if isinstance(res, Abort):
            continue
        cons = [(it.pred_exprs[k][0], it.pred_exprs[k][1] if v else _negate(it.pred_exprs[k][1])) for k, v in dec.items() if k in it.pred_exprs]
        if not feasible(cons):
            continue
        val = getattr(res, "value", res)
        parts = val.items if isinstance(val, PList) else (list(val) if isinstance(val, tuple) else None)
        if parts is None or len(parts) != 2:
            raise AnalysisError("to_monthly_list_outdoor_crops_kcals no longer returns two series")
        sa, sb = _segs(parts[0]), _segs(parts[1])
        arm = ",".join(f"{'T' if v else 'F'}" for v in dec.values())
        n += 1
        ok = sa is not None and sb is not None and len(sa) == 1 and len(sb) == 1
        if ok:
            a, b = it.to_rat(sa[0][0]), it.to_rat(sb[0][0])
            pool = set((a + b).atoms())
            for c in cons:
                pool |= set(c[0].atoms())
            eat = sorted({x for x in pool if isinstance(x, tuple) and x and x[0] == "varValue"})
            sub = implied_substitutions(cons)
            ok = len(eat) == 1 and (a + b).subst(sub) == (Rat.atom(eat[0]) * conv).subst(sub) and sa[0][1] == Rat.atom(NSYM) \
                and sb[0][1] == Rat.atom(NSYM)
        rep.check(ok, rule, f"immediate + new-storage = eaten x conversion [array form, arm {arm}]",
                  "the two parts of crops eaten do not add up to the crops eaten (or are scaled differently / not one value per month) for "
                  "months where " + " and ".join(f"{c[0]} {c[1]} 0" for c in cons), loc=loc(EXT, fn),
                  detail=f"{sa[0][0] if sa else None} + {sb[0][0] if sb else None}")
    if n < 2:
        raise AnalysisError(f"crop split (array form): {n} arms analysed, expected at least 2")
    rep.require_min(rule, 2)


def _negate(op):
    return {"<": ">=", "<=": ">", ">": "<=", ">=": "<", "==": "!=", "!=": "=="}[op]


def describe(rep):
    rep.explanation = (
        "Static analysis of extract_results.py, interpret_results.py, the solve sequence of optimizer.py and their wiring in "
        "run_scenario.py. C04.CHAIN: positional/slot provenance from variables[<family>_to_humans|feed|biofuel] through the "
        "Extractor attributes to the Interpreter's percent and kcal-equivalent attributes for all foods, plus that the extractor "
        "is handed the solved model's own variables and constants. C04.COEF: the reporting factor of each food equals its "
        "coefficient in the LP consumption sum (taken from the extracted constraint template); billions fed = value x ratio / "
        "KCALS_MONTHLY (symbolic evaluation); billions fed -> percent composes to 100/BILLION_KCALS_NEEDED (C10 tables), and those "
        "two constants are the conversion object's. Hence contribution% = var x coef x 100/needs, the very term the LP sums. "
        "C04.SUMSET: headline = min-nutrient value of the sum of exactly the nine contributions, taken before display rounding. "
        "C04.FLOOR: c x optimum <= consumed_kcals[m] for every month with c >= 0.9999 is added before both tie-breaking solves, "
        "which solve that model or a copy. C04.CSV: each of the ten columns is np.array(<food>_kcals_equivalent.kcals) of a series "
        "assigned once, written on every call (only literal-True flags above the to_csv call, no earlier return). C04.SPLIT: in "
        "both arms of the month loop - or, for whole-array numpy code, in every feasible combination of its elementwise tests - "
        "immediate + new-storage == eaten x conversion, one value per month. Not decided: solver tolerance; "
        "equality of the 3-decimal rounded displayed contributions with the unrounded headline."
    )
    rep.assumptions = ["PuLP model.copy() shares the LpVariable objects (values read after the last solve)",
                       "CBC keeps later solves within the floor up to its feasibility tolerance"]
