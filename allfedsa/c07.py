"""C07 — herd feeding accounts for energy and starvation consistently.

AnimalSpecies.feed_the_species is abstractly evaluated on symbolic grass g, feed f, requirement R, efficiencies and herd
size, for ruminant and non-ruminant, forking on every guard.  On every leaf:
  C07.RES    resources left are >= 0 and never increased (sign reasoning from the leaf's own guards)
  C07.NE     energy delivered = efficiency x amounts consumed, 0 <= delivered <= required
  C07.GRASS  grass is untouched unless the species is a ruminant
  C07.FRAC   fed = herd when the requirement is met, else round(delivered / required x herd)
  C07.STARVE starving = herd - fed, appended for every animal every month
  C07.PRIO   one pass over the list in the given order, balances reset first; list sorted by priority (descending)
"""
from __future__ import annotations

import ast

from .core import AnalysisError, loc, norm_src, walk_no_nested, dotted, str_const
from .symx import Interp, Obj, Path, PList, PDict, Unsupported, explore, Abort
from .trace import tags
from .rat import Rat

ANIM = "src/food_system/animal_populations.py"


def run(index, rep):
    rep.guard(state7, index, rep)
    rep.guard(feed_species, index, rep)
    rep.guard(starve, index, rep)
    rep.guard(prio, index, rep)
    rep.guard(reset_rule, index, rep)
    rep.guard(ruminant_list, index, rep)


def ruminant_list(index, rep):
    """grass goes to ruminants only: the list main() hands to feed_animals as the ruminants holds exactly the animals whose digestion type is
    'ruminant' - decided for every digestion type the shipped species table lists (a test written by exclusion lets a third class graze)"""
    import csv
    rule = "C07.GRASS"
    from .core import Inliner, args_by_ref_names
    main = index.func(ANIM, "main")
    fa = index.func(ANIM, "AnimalPopulation.feed_animals")
    calls = [c for c in ast.walk(main) if isinstance(c, ast.Call) and (dotted(c.func) or "").endswith("feed_animals")]
    table = index.path("data/no_food_trade/animal_feed_data/species_attributes.csv")
    try:
        with open(table, newline="", encoding="utf-8") as f:
            rows = list(csv.reader(f))
    except OSError:
        raise AnalysisError("species_attributes.csv missing")
    col = [i for i, h in enumerate(rows[0]) if h.strip().lower().replace("_", " ") == "digestion type"]
    if not col:
        raise AnalysisError("species_attributes.csv: no 'digestion type' column")
    kinds = sorted({r[col[0]].strip() for r in rows[1:] if len(r) > col[0] and r[col[0]].strip()})
    if len(calls) != 1:
        rep.info(rule, "ruminant list: feed_animals is not called from main() directly (not decided here)")
        return
    arg = args_by_ref_names(calls[0], fa, ["animal_list", "ruminants"], method=False)[1]
    e = Inliner(main).at(calls[0]).expr(arg) if arg is not None else None
    if not (isinstance(e, ast.ListComp) and len(e.generators) == 1 and isinstance(e.generators[0].target, ast.Name) and e.generators[0].ifs):
        rep.info(rule, "ruminant list: not built by a filtering comprehension (not decided here)")
        return
    var = e.generators[0].target.id

    def holds(test, kind):
        if isinstance(test, ast.BoolOp):
            vs = [holds(v, kind) for v in test.values]
            return all(vs) if isinstance(test.op, ast.And) else any(vs)
        if isinstance(test, ast.UnaryOp) and isinstance(test.op, ast.Not):
            return not holds(test.operand, kind)
        if isinstance(test, ast.Compare) and len(test.ops) == 1:
            def val(x):
                if isinstance(x, ast.Attribute) and isinstance(x.value, ast.Name) and x.value.id == var and x.attr == "digestion_type":
                    return kind
                return ast.literal_eval(x)
            l, r = val(test.left), val(test.comparators[0])
            op = test.ops[0]
            if isinstance(op, ast.Eq):
                return l == r
            if isinstance(op, ast.NotEq):
                return l != r
            if isinstance(op, ast.In):
                return l in r
            if isinstance(op, ast.NotIn):
                return l not in r
        raise ValueError(ast.unparse(test))

    for kind in kinds:
        try:
            got = all(holds(t, kind) for t in e.generators[0].ifs)
        except (ValueError, SyntaxError):
            rep.info(rule, "ruminant list: the filter is not a test on digestion_type alone (not decided here)")
            return
        rep.check(got == (kind == "ruminant"), rule, f"ruminant list: digestion type {kind!r} {'is' if kind == 'ruminant' else 'is not'} a ruminant",
                  f"animals whose digestion type is {kind!r} are {'left out of' if kind == 'ruminant' else 'put on'} the list of ruminants handed to "
                  "feed_animals: grass would go to a species that is no ruminant (or be withheld from one)", loc=loc(ANIM, calls[0]))


def reset_rule(index, rep):
    """the requirement a species is fed against is this month's: on every path through reset_NE_balance the balance is rebuilt from
    net_energy_required_per_species() (a path that returns without doing so leaves last month's unfilled deficit as the requirement)"""
    rule = "C07.NE"
    fn = index.func(ANIM, "AnimalSpecies.reset_NE_balance")
    cls = index.cls(ANIM, "AnimalSpecies")

    def runit(it):
        it.classes = {"AnimalSpecies": cls}

        def hook(interp, d, a, kw, node):
            if d == "self.net_energy_required_per_month":
                return Rat.atom(("required-per-head",))
            if d == "Food":
                vals = list(a) + [kw[k_] for k_ in ("kcals", "fat", "protein") if k_ in kw]
                return Obj(None, {"kcals": vals[0] if vals else None}, "food")
            return NotImplemented

        it.call_hook = hook
        obj = Obj(cls, {"NE_balance": Obj(None, {"kcals": Rat.atom(("left-over-from-last-month",))}, "food"),
                        "current_population": Rat.atom(("herd",))}, "self")
        it.call_function(fn, [], {}, obj)
        return obj

    try:
        leaves = [x for x in explore(runit, month_classes=False) if not isinstance(x[2], Abort)]
    except Unsupported as e:
        raise AnalysisError(f"reset_NE_balance outside the analysed fragment: {e}")
    if not leaves:
        raise AnalysisError("reset_NE_balance: no path")
    from .symx import constraints_of
    herd_ = Rat.atom(("herd",))
    for _, dec, obj, it in leaves:
        bal = obj.attrs.get("NE_balance")
        kc = bal.attrs.get("kcals") if isinstance(bal, Obj) else None
        want = Rat.atom(("required-per-head",)) * herd_
        # on a path taken only by an empty herd (herd == 0 decided) the requirement is 0 however it is written
        if any(op_ == "==" and (e_ == herd_ or e_ == Rat.const(0) - herd_) for e_, op_ in constraints_of(it, dec)):
            want = want.subst({("herd",): Rat.const(0)})
        ok = isinstance(kc, Rat) and kc == want
        rep.check(ok, rule, "reset: balance = this month's requirement|" + (",".join(f"{k}={'T' if v else 'F'}" for k, v in sorted(dec.items())) or "always"),
                  "a path through reset_NE_balance leaves the balance as it was (last month's unfilled deficit would be fed as this month's "
                  "requirement: a herd that is gone keeps eating, and is delivered more than it requires)", loc=loc(ANIM, fn), detail=str(kc))


def state7(index, rep):
    from .memo import hidden_state_rules
    hidden_state_rules(index, rep, "C07.STATE", [ANIM], "the requirement, efficiency and herd size used when feeding a species")


def facts_from(it, dec):
    """guard facts of a leaf: list of (Rat expr, strict) meaning expr > 0 (strict) or expr >= 0"""
    facts = []
    for key, val in dec.items():
        if key not in it.pred_exprs:
            continue
        expr, op = it.pred_exprs[key]
        zero = Rat.const(0)
        if op == ">=":
            facts.append((expr, False) if val else (zero - expr, True))
        elif op == ">":
            facts.append((expr, True) if val else (zero - expr, False))
        elif op == "<=":
            facts.append((zero - expr, False) if val else (expr, True))
        elif op == "<":
            facts.append((zero - expr, True) if val else (expr, False))
        elif op == "==" and val:
            facts.append((expr, False))
            facts.append((zero - expr, False))
    return facts


def zero_atoms(it, dec, base_atoms, pos_factors):
    """atoms forced to 0 on this leaf (a >= 0 assumed and -c*a >= 0 a guard fact), and whether the leaf is infeasible
    (an atom forced to 0 that another guard says is non-zero / positive)"""
    facts = facts_from(it, dec)
    zeros = set()
    for a in base_atoms:
        for e, strict in facts:
            for p in pos_factors:
                if e == (Rat.const(0) - a) * p:
                    if strict:
                        return zeros, True  # -a > 0 contradicts a >= 0
                    zeros.add(a)
    nonzero = []
    for key, val in dec.items():
        if key in it.pred_exprs:
            expr, op = it.pred_exprs[key]
            if (op == "==" and not val) or (op == "!=" and val):
                nonzero.append(expr)
    for a in zeros:
        for e in nonzero:
            if e == a or e == Rat.const(0) - a:
                return zeros, True
        for e, strict in facts:
            if strict and any(e == a * p for p in pos_factors):
                return zeros, True
    return zeros, False


def nonneg(target, facts, pos_factors):
    """target >= 0 provable as: 0, or fact x positive factor, or a sum of two such"""
    if target.is_zero():
        return True
    cands = []
    for f, _ in facts:
        for p in pos_factors:
            cands.append(f * p)
    for c in cands:
        if target == c:
            return True
    for i, a in enumerate(cands):
        for b in cands[i:]:
            if target == a + b:
                return True
    return False


def feed_species(index, rep):
    fn = index.func(ANIM, "AnimalSpecies.feed_the_species")
    cls = index.cls(ANIM, "AnimalSpecies")
    g, f, R, eg, ef, pop = (Rat.atom((n,)) for n in ("grass", "feed", "required", "eff_grass", "eff_feed", "herd"))
    one = Rat.const(1)
    pos_factors = [one, one / eg, one / ef, eg, ef]
    total_leaves = 0
    for rum in (True, False):
        def runit(it, rum=rum):
            it.classes = {"AnimalSpecies": cls}
            grass = Obj(None, {"kcals": g}, "grass_input")
            feed = Obj(None, {"kcals": f}, "feed_input")
            obj = Obj(cls, {"NE_balance": Obj(None, {"kcals": R}, "NE_balance"), "digestion_efficiency": PDict({"grass": eg, "feed": ef}),
                            "current_population": pop}, "self")

            it._round_args = {}

            def hook(interp, d, args, kwargs, node):
                if d == "isinstance":
                    return True  # inputs are Food objects (the TypeError arm refuses anything else)
                if d == "round" and len(args) == 1:
                    k = len(interp._round_args)
                    interp._round_args[k] = interp.to_rat(args[0])
                    return Rat.atom(("ROUND", k))
                return NotImplemented

            it.call_hook = hook
            from .core import bind_named
            a_, k_ = bind_named(fn, [("grass_input", grass), ("feed_input", feed), ("is_ruminant", rum)])
            res = it.call_function(fn, a_, k_, obj)
            return res, grass, feed, obj

        try:
            envs = explore(runit, month_classes=False)
        except Unsupported as e:
            raise AnalysisError(f"feed_the_species outside the analysed fragment: {e}")
        for _, dec, res, it in envs:
            if isinstance(res, Abort):
                continue
            out, grass, feed, obj = res
            if isinstance(out, tuple) and len(out) == 2 and any(not isinstance(o_, Obj) for o_ in out):
                # what is handed back went through an object or call this evaluation does not follow: no verdict either way
                raise AnalysisError("feed_the_species outside the analysed fragment: the stocks handed back are read off an object this "
                                    "evaluation does not follow (" + ", ".join(type(o_).__name__ for o_ in out) + ")")
            zeros, infeasible = zero_atoms(it, dec, [g, f, R, pop], pos_factors)
            if infeasible:
                continue  # the guards of this leaf contradict the non-negativity of an input
            sub = {list(z.n.atoms())[0]: Rat.const(0) for z in zeros}
            total_leaves += 1
            g2, f2 = it.to_rat(grass.attrs["kcals"]).subst(sub), it.to_rat(feed.attrs["kcals"]).subst(sub)
            ne2 = it.to_rat(obj.attrs["NE_balance"].attrs["kcals"]).subst(sub)
            fed = obj.attrs.get("population_fed")
            if isinstance(fed, Rat):
                fed = fed.subst(sub)
            facts = facts_from(it, dec) + [(g, False), (f, False), (R, False), (pop, False)]
            leaf = ("ruminant" if rum else "non-ruminant") + "|" + ",".join(
                f"{_short(k)}={'T' if v else 'F'}" for k, v in dec.items() if k in it.pred_exprs)
            early = R in [e for (e, s) in facts_from(it, dec)] and (Rat.const(0) - R) in [e for (e, s) in facts_from(it, dec)]
            # returned objects are (grass, feed) in that order
            rep.check(isinstance(out, tuple) and len(out) == 2 and out[0] is grass and out[1] is feed, "C07.RES", f"returns(grass, feed)|{leaf}",
                      "feed_the_species does not return (grass, feed) in that order", loc=loc(ANIM, fn))
            # RES
            for nm, before, after in (("grass", g, g2), ("feed", f, f2)):
                rep.check(nonneg(after, facts, pos_factors), "C07.RES", f"{nm}-left>=0|{leaf}",
                          f"{nm} left after feeding ({after}) is not provably non-negative from this branch's guards: more {nm} than supplied "
                          "can be used", loc=loc(ANIM, fn))
                rep.check(nonneg(before - after, facts, pos_factors), "C07.RES", f"{nm}-only-decreases|{leaf}",
                          f"{nm} is increased by feeding ({before} -> {after})", loc=loc(ANIM, fn))
            # GRASS
            if not rum:
                rep.check(g2 == g, "C07.GRASS", f"grass-untouched|{leaf}", "a non-ruminant consumes grass", loc=loc(ANIM, fn), detail=str(g2))
            # NE
            delivered = (R - ne2).subst(sub)
            consumed_energy = ((g - g2) * eg + (f - f2) * ef).subst(sub)
            rep.check(delivered == consumed_energy, "C07.NE", f"delivered = eff x consumed|{leaf}",
                      f"net energy credited ({delivered}) differs from efficiency x resources consumed ({consumed_energy})", loc=loc(ANIM, fn))
            rep.check(nonneg(ne2, facts, pos_factors), "C07.NE", f"delivered<=required|{leaf}",
                      f"the remaining requirement ({ne2}) can go negative: more net energy delivered than required", loc=loc(ANIM, fn))
            rep.check(nonneg(delivered, facts, pos_factors), "C07.NE", f"delivered>=0|{leaf}", f"negative energy delivered ({delivered})", loc=loc(ANIM, fn))
            # FRAC
            if early:
                continue
            if ne2.is_zero():
                rep.check(isinstance(fed, Rat) and fed == pop, "C07.FRAC", f"requirement-met => fed = herd|{leaf}",
                          f"requirement met but population_fed is {fed}", loc=loc(ANIM, fn))
            else:
                want_arg = delivered / R * pop
                rounds = [a for a in fed.atoms() if isinstance(a, tuple) and a[0] == "ROUND"] if isinstance(fed, Rat) else []
                ok = len(rounds) == 1 and fed == Rat.atom(rounds[0])
                got_arg = None
                if ok:
                    got_arg = it._round_args[rounds[0][1]].subst(sub)
                    ok = got_arg == want_arg
                rep.check(ok, "C07.FRAC", "partially fed => fed = round(delivered / required x herd)",
                          "the fed head count is not the herd scaled by the fraction of its ORIGINAL requirement that was delivered "
                          "(80 % delivered must give 80 % fed; dividing by the already-reduced balance gives 400 %)", loc=loc(ANIM, fn),
                          detail=f"got round({got_arg}); want round({want_arg})")
    if total_leaves < 8:
        raise AnalysisError(f"feed_the_species: only {total_leaves} leaves explored")
    for r in ("C07.RES", "C07.NE"):
        rep.require_min(r, 20)
    rep.require_min("C07.FRAC", 4)
    rep.require_min("C07.GRASS", 3)


def _short(k):
    return k.replace("<", "").replace(">", "").replace(" ", "")[:40]


def _ev(events, kind, name=None):
    return [e for e in events if e.kind == kind and (name is None or e.name == name)]


def _is(value, tag):
    if isinstance(value, Obj):
        return value.name == tag
    return isinstance(value, Path) and value.idx is None and ".".join(str(p) for p in value.parts) == tag


def starve(index, rep):
    from . import herd
    from .c06 import Over
    rule = "C07.STARVE"
    fn, leaves = herd.function_trace(index, "AnimalPopulation.calculate_starving_animals_after_feed")
    ov = Over(rep, rule, loc(ANIM, fn))
    for dec, ev, env, it in leaves:
        app = _ev(ev, "append", "population_starving_pre_slaughter")
        pb = _ev(ev, "pass-begin")
        ok = len(app) == 1 and len(pb) == 1 and pb[0].name == fn.args.args[0].arg and \
            it.to_rat(app[0].args[0]) == it.to_rat(Path(("elem", "current_population"))) - it.to_rat(Path(("elem", "population_fed")))
        ov.leaf("starving = herd - fed for every animal", ok, "the starving count is not appended as herd - fed for each animal of the list", dec)
    ov.done()
    exits = [n for n in ast.walk(fn) if isinstance(n, (ast.Break, ast.Continue, ast.Return))]
    rep.check(not exits, rule, "no animal skipped when counting starving", "the starving pass can skip animals", loc=loc(ANIM, fn))
    main, ml, mleaves = herd.month_trace(index)
    ov = Over(rep, rule, loc(ANIM, ml))
    for dec, ev, env, it in mleaves:
        fa = _ev(ev, "call", "feed_animals")
        sa = _ev(ev, "call", "calculate_starving_animals_after_feed")
        ok = len(fa) == 1 and len(sa) == 1 and ev.index(fa[0]) < ev.index(sa[0]) and not [
            e for e in ev[ev.index(fa[0]) + 1: ev.index(sa[0])] if e.kind in ("call", "append", "elem-call", "pass-begin")]
        ov.leaf("month-loop: starving counted right after feeding", ok, "starving animals are not computed right after feeding in every month", dec)
        okc = ok and canon_eq(fa[0].args[0], sa[0].args[0])
        ov.leaf("covers-all-animals", okc, "starving is not counted over the same list of animals that was fed", dec)
    ov.done()
    rep.require_min(rule, 3)


def canon_eq(a, b):
    from .symx import canon
    return canon(a) == canon(b)


def prio(index, rep):
    from . import herd
    from .c06 import Over
    rule = "C07.PRIO"
    fn, leaves = herd.function_trace(index, "AnimalPopulation.feed_animals", iterations=2)
    if len(fn.args.args) != 4:
        raise AnalysisError(f"feed_animals signature changed: {[a.arg for a in fn.args.args]}")
    # parameters by position: P0 list, P1 ruminants, P2 feed, P3 grass (the caller side is checked below against the same positions)
    from .core import ref_positions
    fts = index.func(ANIM, "AnimalSpecies.feed_the_species")
    s_g, s_f, s_r = ref_positions(fts, ["grass_input", "feed_input", "is_ruminant"])
    a_l, a_r, a_f, a_g = ref_positions(fn, ["animal_list", "ruminants", "available_feed", "available_grass"], method=False)
    ov = Over(rep, rule, loc(ANIM, fn))
    for dec, ev, env, it in leaves:
        passes = _ev(ev, "pass-begin")
        resets = _ev(ev, "elem-call", "reset_NE_balance")
        feeds = _ev(ev, "elem-call", "feed_the_species")
        if not feeds:
            known = {"reset_NE_balance", "feed_the_species"}
            species_methods = set(index.methods(ANIM, "AnimalSpecies"))
            other = sorted({e_.name for e_ in _ev(ev, "elem-call") if e_.name not in known and e_.name in species_methods})
            if other:
                # the feeding goes through a method of the species that this rule was not written for: no verdict either way
                raise AnalysisError("feed_animals outside the analysed fragment: the feeding pass calls AnimalSpecies." + ", ".join(other)
                                    + " instead of feed_the_species")
        ok = len(passes) == 2 and all(p.name == fn.args.args[a_l].arg for p in passes) and len(resets) == 2 and len(feeds) == 2 and \
            max(ev.index(r) for r in resets) < min(ev.index(f) for f in feeds)
        ov.leaf("two passes over the list in its order; balances reset before feeding", ok,
                "feed_animals does not make one reset pass and then one feeding pass over the list it is given, in order", dec)
        if len(feeds) == 2:
            f1, f2 = feeds
            okt = len(f1.args) == 3 and _is(f1.args[s_g], f"P{a_g}") and _is(f1.args[s_f], f"P{a_f}") and \
                _is(f2.args[s_g], f"{f1.tag}#0") and _is(f2.args[s_f], f"{f1.tag}#1")
            ov.leaf("resources threaded (grass, feed) in, (grass, feed) out", okt,
                    "what one species leaves is not what the next species is offered (grass/feed crossed or not carried over)", dec)
            flags = [herd.dec_true(dec, f"elem in P{a_r}"), herd.dec_true(dec, f"elem2 in P{a_r}")]
            okr = [f1.args[s_r], f2.args[s_r]] == flags
            ov.leaf("ruminant flag = membership in the ruminant list", okr, "the ruminant flag passed to feeding is not `animal in ruminants`", dec)
            ret = _ev(ev, "return")
            okret = len(ret) == 1 and isinstance(ret[0].args[0], tuple) and len(ret[0].args[0]) == 2 and \
                _is(ret[0].args[0][0], f"{f2.tag}#1") and _is(ret[0].args[0][1], f"{f2.tag}#0")
            ov.leaf("returns (feed, grass) left by the last species", okret, "feed_animals does not return (feed left, grass left)", dec)
    ov.done()
    no_exit = not [n for n in ast.walk(fn) if isinstance(n, (ast.Break, ast.Continue))] and len([n for n in ast.walk(fn) if isinstance(n, ast.Return)]) == 1
    rep.check(no_exit, rule, "no species skipped", "the feeding pass can skip species", loc=loc(ANIM, fn))
    # caller: unpack order, per-month resources, usage = offered - left
    main, ml, mleaves = herd.month_trace(index)
    P = [a.arg for a in main.args.args]
    ov = Over(rep, rule, loc(ANIM, ml))
    for dec, ev, env, it in mleaves:
        fa = _ev(ev, "call", "feed_animals")
        ok = len(fa) == 1 and len(fa[0].args) == 4
        feed_p = grass_p = None
        if ok:
            a2, a3 = fa[0].args[a_f], fa[0].args[a_g]
            ok = isinstance(a2, Path) and isinstance(a3, Path) and a2.idx is not None and a3.idx is not None and a2.parts[-1] == "[]" and a3.parts[-1] == "[]" \
                and str(a2.idx) == str(a3.idx) == str(it.index_of(Rat.atom("M")))
            if ok:
                feed_p, grass_p = a2.parts[0], a3.parts[0]
                ok = feed_p in P and grass_p in P and feed_p != grass_p and "feed" in feed_p and "grass" in grass_p
        ov.leaf("main: (feed, grass) slots, this month's supply", ok, "main does not offer this month's feed and grass supply in the callee's (feed, grass) order", dec)
        if ok:
            st = {e.name: e for e in _ev(ev, "store")}
            used = [e for e in _ev(ev, "store") if isinstance(e.args[1], (Rat, Path)) and any("ret:feed_animals" in t for t in tags(e.args[1]))]
            want_f = it.to_rat(Path((feed_p, "kcals", "[]"), it.index_of(Rat.atom("M")))) - it.to_rat(Path(("ret:feed_animals#0", "kcals")))
            want_g = it.to_rat(Path((grass_p, "kcals", "[]"), it.index_of(Rat.atom("M")))) - it.to_rat(Path(("ret:feed_animals#1", "kcals")))
            vals = [it.to_rat(e.args[1]) for e in used]
            keys_ok = all(isinstance(e.args[0], Rat) and e.args[0] == Rat.atom("M") for e in used)
            oku = len(used) == 2 and keys_ok and want_f in vals and want_g in vals and ("feed" in used[vals.index(want_f)].name) and ("grass" in used[vals.index(want_g)].name)
            ov.leaf("main: month m used = offered - left (feed from slot 0, grass from slot 1)", oku,
                    "a month's recorded feed/grass use is not that month's supply minus what feed_animals returned in the same slot", dec)
    ov.done()
    # the list is the priority order, descending, and is not reordered afterwards
    go = index.func(ANIM, "AnimalModelBuilder.get_optimal_next_animal_to_feed")
    srt = [c for c in ast.walk(go) if isinstance(c, ast.Call) and dotted(c.func) == "sorted"]
    ok = len(srt) == 1 and any(k.arg == "reverse" and norm_src(k.value) == "True" for k in srt[0].keywords) and \
        any(k.arg == "key" and "net_kcals_gained_per_hour_slaughter_this_month" in norm_src(k.value) for k in srt[0].keywords)
    rep.check(ok, rule, "priority: sorted by net kcals gained per slaughter hour, descending", "the priority order is not the descending sort by "
              "net_kcals_gained_per_hour_slaughter_this_month", loc=loc(ANIM, go))
    # the list handed to feed_animals every month is built once, in the sorted dictionary's order, and never reordered
    fa_calls = [c for c in ast.walk(ml) if isinstance(c, ast.Call) and (dotted(c.func) or "").endswith("feed_animals")]
    from .core import args_by_ref_names as _abn7
    lst_e = _abn7(fa_calls[0], fn, ["animal_list"], method=False)[0] if fa_calls else None
    lst = norm_src(lst_e) if lst_e is not None else None
    from .core import Inliner
    inl = Inliner(main)
    built = inl.src(lst_e) if lst else ""
    import re as _re
    # built in a module-level set-up function that main calls: read there (slot k of what that function returns)
    try:
        b_ = ast.parse(built, mode="eval").body if built else None
    except SyntaxError:
        b_ = None
    slot_ = None
    if isinstance(b_, ast.Subscript) and isinstance(b_.slice, ast.Constant) and isinstance(b_.slice.value, int):
        slot_, b_ = b_.slice.value, b_.value
    if isinstance(b_, ast.Call) and isinstance(b_.func, ast.Name):
        setup = index.func(ANIM, b_.func.id, required=False)
        if setup is not None:
            rets_ = [r_ for r_ in walk_no_nested(setup) if isinstance(r_, ast.Return) and r_.value is not None]
            if len(rets_) == 1:
                rv_ = rets_[0].value
                if slot_ is not None and isinstance(rv_, ast.Tuple) and slot_ < len(rv_.elts):
                    built = Inliner(setup).src(rv_.elts[slot_])
                elif slot_ is None:
                    built = Inliner(setup).src(rv_)
    okl = bool(_re.fullmatch(r"\[(\w+) for \1 in (.+)\.values\(\)\]|list\((.+)\.values\(\)\)", built))
    rep.check(okl, rule, "all_animals = dict order", f"the list of animals fed is not built from the sorted dictionary's order ({built[:80]})", loc=loc(ANIM, main))
    reorder = []
    for n in ast.walk(main):
        if isinstance(n, ast.Call) and isinstance(n.func, ast.Attribute) and n.func.attr in ("sort", "reverse", "insert", "pop", "remove") \
                and lst and norm_src(n.func.value) == lst:
            reorder.append(n.lineno)
        if isinstance(n, ast.Assign) and any(isinstance(t, ast.Subscript) and lst and norm_src(t.value) == lst for t in n.targets):
            reorder.append(n.lineno)
    # ... nor by any routine the list is handed to (a helper that sorts / edits its argument in place changes the caller's list)
    from .c13 import param_mutations
    from .core import bind_args as _ba7
    res7 = index.make_resolver([ANIM])
    seen7 = set()

    def callee_mutations(fn_, listname, depth=2):
        out = []
        for c in ast.walk(fn_):
            if not isinstance(c, ast.Call):
                continue
            d = dotted(c.func) or ""
            g = res7(d) or res7(d.split(".")[-1])
            if g is None or g is fn_:
                continue
            for p_, a_ in _ba7(c, g, method=False).items():
                if isinstance(a_, ast.Name) and a_.id == listname and (g.name, p_) not in seen7:
                    seen7.add((g.name, p_))
                    out += [f"{g.name}: {m_} (line {g.lineno})" for m_ in param_mutations(g, p_)]
                    if depth > 1:
                        out += callee_mutations(g, p_, depth - 1)
        return out

    reorder_c = callee_mutations(main, lst) if lst else []
    rep.check(not reorder and not reorder_c, rule, "order preserved through the month loop",
              f"the list of animals is reordered in place (lines {reorder}; in routines it is handed to: {reorder_c[:3]})", loc=loc(ANIM, main))
    rep.require_min(rule, 9)


def describe(rep):
    rep.explanation = (
        "Static analysis of the herd feeding code. feed_the_species is abstractly evaluated (no execution) on symbolic grass, "
        "feed, requirement, efficiencies and herd size for ruminant and non-ruminant species; every guard forks the "
        "environment, and on each leaf the final grass, feed, energy balance and fed count are exact rational forms. Obligations "
        "per leaf: resources left are non-negative and not increased, provable from that leaf's own guards (each is 0, a guard "
        "expression, or a guard expression times/divided by an efficiency); energy credited = efficiency x resources consumed and "
        "lies between 0 and the requirement; non-ruminants leave grass untouched; fed = herd when the requirement is met and "
        "round(delivered/required x herd) otherwise. Structural rules: starving = herd - fed appended for every animal right after "
        "feeding each month; feed_animals resets all balances, then makes one pass in list order threading (grass, feed) left to "
        "the next species; main offers month m's supplies and records offered - left; the list is the descending sort by net kcals "
        "gained per slaughter hour and is never reordered. Assumed: supplies, requirement, herd >= 0, efficiencies in (0,1]."
    )
    rep.assumptions = ["grass, feed, requirement and herd size are non-negative; digestion efficiencies are positive"]
