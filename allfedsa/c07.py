"""C07 — herd feeding accounts for energy and starvation consistently.

AnimalSpecies.feed_the_species is abstractly evaluated on symbolic grass g, feed f, requirement R, efficiencies and herd
size, for ruminant and non-ruminant, forking on every guard.  On every leaf:
  C07.RES    resources left are >= 0 and never increased (sign reasoning from the leaf's own guards)
  C07.NE     energy delivered = efficiency x amounts consumed, 0 <= delivered <= required
  C07.GRASS  grass is untouched unless the species is a ruminant
  C07.FRAC   fed = herd when the requirement is met, else round(delivered / required x herd)
  C07.STARVE starving = herd - fed, appended for every animal every month
  C07.PRIO   one pass over the list in the given order, balances reset first; list sorted by priority (descending)
"""
from __future__ import annotations

import ast

from .core import AnalysisError, loc, norm_src, walk_no_nested, dotted, str_const
from .symx import Interp, Obj, Path, PList, PDict, Unsupported, explore, Abort
from .rat import Rat

ANIM = "src/food_system/animal_populations.py"


def run(index, rep):
    rep.guard(state7, index, rep)
    rep.guard(feed_species, index, rep)
    rep.guard(starve, index, rep)
    rep.guard(prio, index, rep)


def state7(index, rep):
    from .memo import hidden_state_rules
    hidden_state_rules(index, rep, "C07.STATE", [ANIM], "the requirement, efficiency and herd size used when feeding a species")


def facts_from(it, dec):
    """guard facts of a leaf: list of (Rat expr, strict) meaning expr > 0 (strict) or expr >= 0"""
    facts = []
    for key, val in dec.items():
        if key not in it.pred_exprs:
            continue
        expr, op = it.pred_exprs[key]
        zero = Rat.const(0)
        if op == ">=":
            facts.append((expr, False) if val else (zero - expr, True))
        elif op == ">":
            facts.append((expr, True) if val else (zero - expr, False))
        elif op == "<=":
            facts.append((zero - expr, False) if val else (expr, True))
        elif op == "<":
            facts.append((zero - expr, True) if val else (expr, False))
        elif op == "==" and val:
            facts.append((expr, False))
            facts.append((zero - expr, False))
    return facts


def zero_atoms(it, dec, base_atoms, pos_factors):
    """atoms forced to 0 on this leaf (a >= 0 assumed and -c*a >= 0 a guard fact), and whether the leaf is infeasible
    (an atom forced to 0 that another guard says is non-zero / positive)"""
    facts = facts_from(it, dec)
    zeros = set()
    for a in base_atoms:
        for e, strict in facts:
            for p in pos_factors:
                if e == (Rat.const(0) - a) * p:
                    if strict:
                        return zeros, True  # -a > 0 contradicts a >= 0
                    zeros.add(a)
    nonzero = []
    for key, val in dec.items():
        if key in it.pred_exprs:
            expr, op = it.pred_exprs[key]
            if (op == "==" and not val) or (op == "!=" and val):
                nonzero.append(expr)
    for a in zeros:
        for e in nonzero:
            if e == a or e == Rat.const(0) - a:
                return zeros, True
        for e, strict in facts:
            if strict and any(e == a * p for p in pos_factors):
                return zeros, True
    return zeros, False


def nonneg(target, facts, pos_factors):
    """target >= 0 provable as: 0, or fact x positive factor, or a sum of two such"""
    if target.is_zero():
        return True
    cands = []
    for f, _ in facts:
        for p in pos_factors:
            cands.append(f * p)
    for c in cands:
        if target == c:
            return True
    for i, a in enumerate(cands):
        for b in cands[i:]:
            if target == a + b:
                return True
    return False


def feed_species(index, rep):
    fn = index.func(ANIM, "AnimalSpecies.feed_the_species")
    cls = index.cls(ANIM, "AnimalSpecies")
    g, f, R, eg, ef, pop = (Rat.atom((n,)) for n in ("grass", "feed", "required", "eff_grass", "eff_feed", "herd"))
    one = Rat.const(1)
    pos_factors = [one, one / eg, one / ef, eg, ef]
    total_leaves = 0
    for rum in (True, False):
        def runit(it, rum=rum):
            it.classes = {"AnimalSpecies": cls}
            grass = Obj(None, {"kcals": g}, "grass_input")
            feed = Obj(None, {"kcals": f}, "feed_input")
            obj = Obj(cls, {"NE_balance": Obj(None, {"kcals": R}, "NE_balance"), "digestion_efficiency": PDict({"grass": eg, "feed": ef}),
                            "current_population": pop}, "self")

            it._round_args = {}

            def hook(interp, d, args, kwargs, node):
                if d == "isinstance":
                    return True  # inputs are Food objects (the TypeError arm refuses anything else)
                if d == "round" and len(args) == 1:
                    k = len(interp._round_args)
                    interp._round_args[k] = interp.to_rat(args[0])
                    return Rat.atom(("ROUND", k))
                return NotImplemented

            it.call_hook = hook
            res = it.call_function(fn, [grass, feed, rum], {}, obj)
            return res, grass, feed, obj

        try:
            envs = explore(runit, month_classes=False)
        except Unsupported as e:
            raise AnalysisError(f"feed_the_species outside the analysed fragment: {e}")
        for _, dec, res, it in envs:
            if isinstance(res, Abort):
                continue
            out, grass, feed, obj = res
            zeros, infeasible = zero_atoms(it, dec, [g, f, R, pop], pos_factors)
            if infeasible:
                continue  # the guards of this leaf contradict the non-negativity of an input
            sub = {list(z.n.atoms())[0]: Rat.const(0) for z in zeros}
            total_leaves += 1
            g2, f2 = it.to_rat(grass.attrs["kcals"]).subst(sub), it.to_rat(feed.attrs["kcals"]).subst(sub)
            ne2 = it.to_rat(obj.attrs["NE_balance"].attrs["kcals"]).subst(sub)
            fed = obj.attrs.get("population_fed")
            if isinstance(fed, Rat):
                fed = fed.subst(sub)
            facts = facts_from(it, dec) + [(g, False), (f, False), (R, False), (pop, False)]
            leaf = ("ruminant" if rum else "non-ruminant") + "|" + ",".join(
                f"{_short(k)}={'T' if v else 'F'}" for k, v in dec.items() if k in it.pred_exprs)
            early = R in [e for (e, s) in facts_from(it, dec)] and (Rat.const(0) - R) in [e for (e, s) in facts_from(it, dec)]
            # returned objects are (grass, feed) in that order
            rep.check(isinstance(out, tuple) and len(out) == 2 and out[0] is grass and out[1] is feed, "C07.RES", f"returns(grass, feed)|{leaf}",
                      "feed_the_species does not return (grass, feed) in that order", loc=loc(ANIM, fn))
            # RES
            for nm, before, after in (("grass", g, g2), ("feed", f, f2)):
                rep.check(nonneg(after, facts, pos_factors), "C07.RES", f"{nm}-left>=0|{leaf}",
                          f"{nm} left after feeding ({after}) is not provably non-negative from this branch's guards: more {nm} than supplied "
                          "can be used", loc=loc(ANIM, fn))
                rep.check(nonneg(before - after, facts, pos_factors), "C07.RES", f"{nm}-only-decreases|{leaf}",
                          f"{nm} is increased by feeding ({before} -> {after})", loc=loc(ANIM, fn))
            # GRASS
            if not rum:
                rep.check(g2 == g, "C07.GRASS", f"grass-untouched|{leaf}", "a non-ruminant consumes grass", loc=loc(ANIM, fn), detail=str(g2))
            # NE
            delivered = (R - ne2).subst(sub)
            consumed_energy = ((g - g2) * eg + (f - f2) * ef).subst(sub)
            rep.check(delivered == consumed_energy, "C07.NE", f"delivered = eff x consumed|{leaf}",
                      f"net energy credited ({delivered}) differs from efficiency x resources consumed ({consumed_energy})", loc=loc(ANIM, fn))
            rep.check(nonneg(ne2, facts, pos_factors), "C07.NE", f"delivered<=required|{leaf}",
                      f"the remaining requirement ({ne2}) can go negative: more net energy delivered than required", loc=loc(ANIM, fn))
            rep.check(nonneg(delivered, facts, pos_factors), "C07.NE", f"delivered>=0|{leaf}", f"negative energy delivered ({delivered})", loc=loc(ANIM, fn))
            # FRAC
            if early:
                continue
            if ne2.is_zero():
                rep.check(isinstance(fed, Rat) and fed == pop, "C07.FRAC", f"requirement-met => fed = herd|{leaf}",
                          f"requirement met but population_fed is {fed}", loc=loc(ANIM, fn))
            else:
                want_arg = delivered / R * pop
                rounds = [a for a in fed.atoms() if isinstance(a, tuple) and a[0] == "ROUND"] if isinstance(fed, Rat) else []
                ok = len(rounds) == 1 and fed == Rat.atom(rounds[0])
                got_arg = None
                if ok:
                    got_arg = it._round_args[rounds[0][1]].subst(sub)
                    ok = got_arg == want_arg
                rep.check(ok, "C07.FRAC", "partially fed => fed = round(delivered / required x herd)",
                          "the fed head count is not the herd scaled by the fraction of its ORIGINAL requirement that was delivered "
                          "(80 % delivered must give 80 % fed; dividing by the already-reduced balance gives 400 %)", loc=loc(ANIM, fn),
                          detail=f"got round({got_arg}); want round({want_arg})")
    if total_leaves < 8:
        raise AnalysisError(f"feed_the_species: only {total_leaves} leaves explored")
    for r in ("C07.RES", "C07.NE"):
        rep.require_min(r, 20)
    rep.require_min("C07.FRAC", 4)
    rep.require_min("C07.GRASS", 3)


def _short(k):
    return k.replace("<", "").replace(">", "").replace(" ", "")[:40]


def starve(index, rep):
    rule = "C07.STARVE"
    fn = index.func(ANIM, "AnimalPopulation.calculate_starving_animals_after_feed")
    loops = [s for s in fn.body if isinstance(s, ast.For)]
    ok = len(loops) == 1 and norm_src(loops[0].iter) == fn.args.args[0].arg
    if ok:
        body = [norm_src(s) for s in loops[0].body]
        v = loops[0].target.id
        ok = body == [f"{v}.population_starving_pre_slaughter.append({v}.current_population - {v}.population_fed)"]
    rep.check(ok, rule, "starving = herd - fed for every animal", "the starving count is not appended as herd - fed for each animal of the list",
              loc=loc(ANIM, fn))
    main = index.func(ANIM, "main")
    mloop = [s for s in main.body if isinstance(s, ast.For) and norm_src(s.iter) == "range(0, months_to_run)"]
    if len(mloop) != 1:
        raise AnalysisError("main: month loop not found")
    seq = [dotted(c.func) for s in mloop[0].body for c in ast.walk(s) if isinstance(c, ast.Call) and (dotted(c.func) or "").startswith("AnimalPopulation.")]
    ok = "AnimalPopulation.feed_animals" in seq and "AnimalPopulation.calculate_starving_animals_after_feed" in seq and \
        seq.index("AnimalPopulation.feed_animals") < seq.index("AnimalPopulation.calculate_starving_animals_after_feed")
    rep.check(ok, rule, "month-loop: starving counted right after feeding", "starving animals are not computed after feeding in every month",
              loc=loc(ANIM, mloop[0]))
    c = [x for x in ast.walk(mloop[0]) if isinstance(x, ast.Call) and dotted(x.func) == "AnimalPopulation.calculate_starving_animals_after_feed"]
    rep.check(len(c) == 1 and norm_src(c[0].args[0]) == "all_animals", rule, "covers-all-animals", "not all animals are covered", loc=loc(ANIM, mloop[0]))
    rep.require_min(rule, 3)


def prio(index, rep):
    rule = "C07.PRIO"
    fn = index.func(ANIM, "AnimalPopulation.feed_animals")
    params = [a.arg for a in fn.args.args]
    if params != ["animal_list", "ruminants", "available_feed", "available_grass"]:
        raise AnalysisError(f"feed_animals signature changed: {params}")
    loops = [s for s in fn.body if isinstance(s, ast.For)]
    ok = len(loops) == 2 and all(norm_src(l.iter) == "animal_list" for l in loops)
    rep.check(ok, rule, "two passes over the list in its order", "feed_animals does not make one reset pass and one feeding pass over animal_list, in order",
              loc=loc(ANIM, fn))
    if ok:
        v0 = loops[0].target.id
        rep.check([norm_src(s) for s in loops[0].body] == [f"{v0}.reset_NE_balance()"], rule, "balances reset before feeding",
                  "the energy balance of every animal is not reset before feeding starts", loc=loc(ANIM, loops[0]))
        v = loops[1].target.id
        calls = [c for c in ast.walk(loops[1]) if isinstance(c, ast.Call) and isinstance(c.func, ast.Attribute) and c.func.attr == "feed_the_species"]
        okc = len(calls) == 1 and norm_src(calls[0].func.value) == v and [norm_src(a) for a in calls[0].args[:2]] == ["available_grass", "available_feed"]
        st = calls[0]._parent if calls else None
        okc = okc and isinstance(st, ast.Assign) and isinstance(st.targets[0], ast.Tuple) and \
            [norm_src(e) for e in st.targets[0].elts] == ["available_grass", "available_feed"]
        rep.check(okc, rule, "resources threaded (grass, feed) in, (grass, feed) out",
                  "what one species leaves is not what the next species is offered (grass/feed crossed or not carried over)", loc=loc(ANIM, loops[1]))
        rum = [s for s in loops[1].body if isinstance(s, ast.Assign) and norm_src(s.value) == f"{v} in ruminants"]
        okr = len(rum) == 1 and calls and len(calls[0].args) == 3 and norm_src(calls[0].args[2]) == norm_src(rum[0].targets[0])
        rep.check(okr, rule, "ruminant flag = membership in the ruminant list", "the ruminant flag passed to feeding is not `animal in ruminants`", loc=loc(ANIM, loops[1]))
        no_exit = not [n for n in ast.walk(loops[1]) if isinstance(n, (ast.Break, ast.Continue, ast.Return))]
        rep.check(no_exit, rule, "no species skipped", "the feeding pass can skip species", loc=loc(ANIM, loops[1]))
    rets = [norm_src(r.value) for r in fn.body if isinstance(r, ast.Return)]
    rep.check(rets == ["(available_feed, available_grass)"], rule, "returns (feed, grass) left", f"returns {rets}", loc=loc(ANIM, fn))
    # caller: unpack order, per-month resources, usage = offered - left
    main = index.func(ANIM, "main")
    mloop = [s for s in main.body if isinstance(s, ast.For) and norm_src(s.iter) == "range(0, months_to_run)"][0]
    call = [s for s in mloop.body if isinstance(s, ast.Assign) and isinstance(s.value, ast.Call) and dotted(s.value.func) == "AnimalPopulation.feed_animals"]
    ok = len(call) == 1 and [norm_src(e) for e in call[0].targets[0].elts] == ["feed_available_this_month", "grass_available_this_month"] and \
        [norm_src(a) for a in call[0].value.args] == ["all_animals", "ruminants", "feed_available_this_month", "grass_available_this_month"]
    rep.check(ok, rule, "main: (feed, grass) slots", "main does not pass/unpack (feed, grass) in the callee's order", loc=loc(ANIM, mloop))
    asg = {norm_src(s.targets[0]): norm_src(s.value) for s in mloop.body if isinstance(s, ast.Assign)}
    ok = asg.get("feed_available_this_month") == "available_feed[month]" and asg.get("grass_available_this_month") == "available_grass[month]" and \
        asg.get("feed_used.kcals[month]") == "available_feed.kcals[month] - feed_available_this_month.kcals" and \
        asg.get("grass_used.kcals[month]") == "available_grass.kcals[month] - grass_available_this_month.kcals"
    rep.check(ok, rule, "main: month m offered / used = offered - left", "a month's feed/grass offered or its recorded use is not that month's "
              "supply / supply minus what was left", loc=loc(ANIM, mloop))
    # the list is the priority order, descending, and is not reordered afterwards
    go = index.func(ANIM, "AnimalModelBuilder.get_optimal_next_animal_to_feed")
    srt = [c for c in ast.walk(go) if isinstance(c, ast.Call) and dotted(c.func) == "sorted"]
    ok = len(srt) == 1 and any(k.arg == "reverse" and norm_src(k.value) == "True" for k in srt[0].keywords) and \
        any(k.arg == "key" and "net_kcals_gained_per_hour_slaughter_this_month" in norm_src(k.value) for k in srt[0].keywords)
    rep.check(ok, rule, "priority: sorted by net kcals gained per slaughter hour, descending", "the priority order is not the descending sort by "
              "net_kcals_gained_per_hour_slaughter_this_month", loc=loc(ANIM, go))
    aa = [s for s in main.body if isinstance(s, ast.Assign) and norm_src(s.targets[0]) == "all_animals"]
    ok = len(aa) == 1 and norm_src(aa[0].value) == "[animal for animal in animal_dict.values()]"
    rep.check(ok, rule, "all_animals = dict order", "all_animals is not built from the sorted dictionary's order", loc=loc(ANIM, main))
    reorder = []
    for n in ast.walk(main):
        if isinstance(n, ast.Call) and isinstance(n.func, ast.Attribute) and n.func.attr in ("sort", "reverse", "insert", "pop", "remove") \
                and norm_src(n.func.value) in ("all_animals", "ruminants"):
            reorder.append(n.lineno)
        if isinstance(n, ast.Assign) and any(isinstance(t, ast.Subscript) and norm_src(t.value) == "all_animals" for t in n.targets):
            reorder.append(n.lineno)
    rep.check(not reorder, rule, "order preserved through the month loop", f"all_animals is reordered in place (lines {reorder})", loc=loc(ANIM, main))
    rep.require_min(rule, 10)


def describe(rep):
    rep.explanation = (
        "Static analysis of the herd feeding code. feed_the_species is abstractly evaluated (no execution) on symbolic grass, "
        "feed, requirement, efficiencies and herd size for ruminant and non-ruminant species; every guard forks the "
        "environment, and on each leaf the final grass, feed, energy balance and fed count are exact rational forms. Obligations "
        "per leaf: resources left are non-negative and not increased, provable from that leaf's own guards (each is 0, a guard "
        "expression, or a guard expression times/divided by an efficiency); energy credited = efficiency x resources consumed and "
        "lies between 0 and the requirement; non-ruminants leave grass untouched; fed = herd when the requirement is met and "
        "round(delivered/required x herd) otherwise. Structural rules: starving = herd - fed appended for every animal right after "
        "feeding each month; feed_animals resets all balances, then makes one pass in list order threading (grass, feed) left to "
        "the next species; main offers month m's supplies and records offered - left; the list is the descending sort by net kcals "
        "gained per slaughter hour and is never reordered. Assumed: supplies, requirement, herd >= 0, efficiencies in (0,1]."
    )
    rep.assumptions = ["grass, feed, requirement and herd size are non-negative; digestion efficiencies are positive"]
