"""Memoised (process-wide cached) functions whose results are modified by their callers.

A function decorated with functools.lru_cache / cache / a *memo*/*cache* decorator returns THE SAME object on every later call
in the process.  That is invisible as long as nobody writes into the object; the moment a caller stores into it (df.loc[..] = v,
x[k] = v, x.append(..), inplace=True, an attribute store) the write survives into every later run: results then depend on
what ran before (C14) and an input override is applied to later runs as well (C13)."""
from __future__ import annotations

import ast

from .core import norm_src, walk_no_nested, dotted

MUTATING_METHODS = {"append", "extend", "insert", "pop", "clear", "remove", "reverse", "sort", "update", "setdefault", "popitem",
                    "fill", "resize", "put", "itemset", "drop_duplicates_inplace", "__setitem__"}
ACCESSORS = {"loc", "iloc", "at", "iat", "values", "T", "flat"}


def is_memo_decorator(d):
    t = norm_src(d.func if isinstance(d, ast.Call) else d)
    last = t.split(".")[-1].lower()
    return "cache" in last or "memo" in last


def memoised_functions(index, files):
    out = []
    for rel in files:
        for fn in [n for n in ast.walk(index.module(rel)) if isinstance(n, (ast.FunctionDef, ast.AsyncFunctionDef))]:
            decs = [d for d in fn.decorator_list if is_memo_decorator(d)]
            if decs and "cached_property" not in norm_src(decs[0]):
                out.append((rel, fn))
    return out


def _base(n):
    """strip subscripts / accessor attributes: x.loc[a, b] -> x ; x[k].values -> x"""
    while True:
        if isinstance(n, ast.Subscript):
            n = n.value
        elif isinstance(n, ast.Attribute) and n.attr in ACCESSORS:
            n = n.value
        else:
            return n


def local_mutations(fn, name):
    """stores / in-place calls in `fn` that modify the object bound to local `name` (or a plain alias / view of it)"""
    alias = {name}
    changed = True
    body = list(walk_no_nested(fn)) if isinstance(fn, (ast.FunctionDef, ast.AsyncFunctionDef)) else list(ast.walk(fn))
    while changed:
        changed = False
        for st in body:
            if isinstance(st, ast.Assign) and len(st.targets) == 1 and isinstance(st.targets[0], ast.Name) and st.targets[0].id not in alias:
                b = _base(st.value)
                if isinstance(b, ast.Name) and b.id in alias and not isinstance(st.value, ast.Call):
                    alias.add(st.targets[0].id)
                    changed = True
    bad = []
    for st in body:
        if isinstance(st, (ast.Assign, ast.AugAssign)):
            for t in (st.targets if isinstance(st, ast.Assign) else [st.target]):
                for e in ([t] if not isinstance(t, (ast.Tuple, ast.List)) else t.elts):
                    if isinstance(e, (ast.Subscript, ast.Attribute)):
                        b = _base(e.value if isinstance(e, ast.Attribute) else e)
                        if isinstance(b, ast.Name) and b.id in alias:
                            bad.append((st.lineno, f"store {norm_src(e)[:60]}"))
        if isinstance(st, ast.Delete):
            for t in st.targets:
                if isinstance(t, (ast.Subscript, ast.Attribute)):
                    b = _base(t)
                    if isinstance(b, ast.Name) and b.id in alias:
                        bad.append((st.lineno, f"del {norm_src(t)[:60]}"))
        if isinstance(st, ast.Call) and isinstance(st.func, ast.Attribute):
            b = _base(st.func.value)
            if isinstance(b, ast.Name) and b.id in alias:
                if st.func.attr in MUTATING_METHODS:
                    bad.append((st.lineno, f"call {norm_src(st.func)[:60]}()"))
                if any(k.arg == "inplace" and isinstance(k.value, ast.Constant) and k.value.value is True for k in st.keywords):
                    bad.append((st.lineno, f"call {norm_src(st.func)[:60]}(inplace=True)"))
    return bad, alias


def cached_result_mutations(index, files):
    """-> (memoised functions, [(rel, call node, memoised fn name, text)])"""
    memo = memoised_functions(index, files)
    names = {fn.name: (rel, fn) for rel, fn in memo}
    allfns = {}
    for rel in files:
        for fn in [n for n in ast.walk(index.module(rel)) if isinstance(n, (ast.FunctionDef, ast.AsyncFunctionDef))]:
            allfns.setdefault(fn.name, []).append((rel, fn))
    findings = []
    if not names:
        return memo, findings
    for rel in files:
        mod = index.module(rel)
        scopes = [n for n in ast.walk(mod) if isinstance(n, (ast.FunctionDef, ast.AsyncFunctionDef))] + [mod]
        for scope in scopes:
            nodes = list(walk_no_nested(scope)) if not isinstance(scope, ast.Module) else [x for st in scope.body if not isinstance(
                st, (ast.FunctionDef, ast.ClassDef, ast.AsyncFunctionDef)) for x in ast.walk(st)]
            for st in nodes:
                if not (isinstance(st, ast.Assign) and isinstance(st.value, ast.Call)):
                    continue
                f = st.value.func
                cal = f.attr if isinstance(f, ast.Attribute) else (f.id if isinstance(f, ast.Name) else None)
                if cal not in names:
                    continue
                for t in st.targets:
                    if not isinstance(t, ast.Name):
                        continue
                    bad, alias = local_mutations(scope, t.id)
                    for ln, txt in bad:
                        findings.append((rel, st, cal, f"{txt} (line {ln}) modifies the object returned by memoised {cal}()"))
                    # one level into callees that receive the object
                    for c in nodes:
                        if isinstance(c, ast.Call):
                            g = c.func.attr if isinstance(c.func, ast.Attribute) else (c.func.id if isinstance(c.func, ast.Name) else None)
                            cands = allfns.get(g, [])
                            if len(cands) != 1:
                                continue
                            grel, gfn = cands[0]
                            params = [a.arg for a in gfn.args.args]
                            off = 1 if params and params[0] in ("self", "cls") else 0
                            for i, a in enumerate(c.args):
                                b = _base(a)
                                if isinstance(b, ast.Name) and b.id in alias and not isinstance(a, ast.Call) and i + off < len(params):
                                    pb, _ = local_mutations(gfn, params[i + off])
                                    if pb:
                                        findings.append((rel, st, cal, f"{g}() modifies its argument `{params[i + off]}` ({pb[0][1]}, line "
                                                         f"{pb[0][0]}), which is the object returned by memoised {cal}()"))
    return memo, findings
    for rel in files:
        mod = index.module(rel)
        scopes = [n for n in ast.walk(mod) if isinstance(n, (ast.FunctionDef, ast.AsyncFunctionDef))] + [mod]
        for scope in scopes:
            nodes = list(walk_no_nested(scope)) if not isinstance(scope, ast.Module) else [x for st in scope.body if not isinstance(
                st, (ast.FunctionDef, ast.ClassDef, ast.AsyncFunctionDef)) for x in ast.walk(st)]
            for st in nodes:
                if not (isinstance(st, ast.Assign) and isinstance(st.value, ast.Call)):
                    continue
                f = st.value.func
                cal = f.attr if isinstance(f, ast.Attribute) else (f.id if isinstance(f, ast.Name) else None)
                if cal not in names:
                    continue
                for t in st.targets:
                    if not isinstance(t, ast.Name):
                        continue
                    bad, alias = local_mutations(scope, t.id)
                    for ln, txt in bad:
                        findings.append((rel, st, cal, f"{txt} (line {ln}) modifies the object returned by memoised {cal}()"))
                    # one level into callees that receive the object
                    for c in nodes:
                        if isinstance(c, ast.Call):
                            g = c.func.attr if isinstance(c.func, ast.Attribute) else (c.func.id if isinstance(c.func, ast.Name) else None)
                            cands = allfns.get(g, [])
                            if len(cands) != 1:
                                continue
                            grel, gfn = cands[0]
                            params = [a.arg for a in gfn.args.args]
                            if params and params[0] in ("self", "cls") and isinstance(c.func, ast.Attribute):
                                # bound call unless invoked through the class object of a plain function
                                pass
                            for i, a in enumerate(c.args):
                                b = _base(a)
                                if isinstance(b, ast.Name) and b.id in alias and not isinstance(a, ast.Call):
                                    for off in (0, 1):
                                        if i + off < len(params):
                                            pb, _ = local_mutations(gfn, params[i + off])
                                            if pb and (off == 0 or params[0] in ("self", "cls")):
                                                findings.append((rel, st, cal, f"{g}() modifies its argument `{params[i + off]}` ({pb[0][1]}, line "
                                                                 f"{pb[0][0]}), which is the object returned by memoised {cal}()"))
                                                break
    return memo, findings
