"""Memoised (process-wide cached) functions whose results are modified by their callers.

A function decorated with functools.lru_cache / cache / a *memo*/*cache* decorator returns THE SAME object on every later call
in the process.  That is invisible as long as nobody writes into the object; the moment a caller stores into it (df.loc[..] = v,
x[k] = v, x.append(..), inplace=True, an attribute store) the write survives into every later run: results then depend on
what ran before (C14) and an input override is applied to later runs as well (C13)."""
from __future__ import annotations

import ast

from .core import norm_src, walk_no_nested, dotted

MUTATING_METHODS = {"append", "extend", "insert", "pop", "clear", "remove", "reverse", "sort", "update", "setdefault", "popitem",
                    "fill", "resize", "put", "itemset", "drop_duplicates_inplace", "__setitem__"}
ACCESSORS = {"loc", "iloc", "at", "iat", "values", "T", "flat"}


def is_memo_decorator(d):
    t = norm_src(d.func if isinstance(d, ast.Call) else d)
    last = t.split(".")[-1].lower()
    return "cache" in last or "memo" in last


def memoised_functions(index, files):
    out = []
    for rel in files:
        for fn in [n for n in ast.walk(index.module(rel)) if isinstance(n, (ast.FunctionDef, ast.AsyncFunctionDef))]:
            decs = [d for d in fn.decorator_list if is_memo_decorator(d)]
            if decs and "cached_property" not in norm_src(decs[0]):
                out.append((rel, fn))
    return out


def _base(n):
    """strip subscripts / accessor attributes: x.loc[a, b] -> x ; x[k].values -> x"""
    while True:
        if isinstance(n, ast.Subscript):
            n = n.value
        elif isinstance(n, ast.Attribute) and n.attr in ACCESSORS:
            n = n.value
        else:
            return n


def local_mutations(fn, name):
    """stores / in-place calls in `fn` that modify the object bound to local `name` (or a plain alias / view of it)"""
    alias = {name}
    changed = True
    body = list(walk_no_nested(fn)) if isinstance(fn, (ast.FunctionDef, ast.AsyncFunctionDef)) else list(ast.walk(fn))
    while changed:
        changed = False
        for st in body:
            if isinstance(st, ast.Assign) and len(st.targets) == 1 and isinstance(st.targets[0], ast.Name) and st.targets[0].id not in alias:
                b = _base(st.value)
                if isinstance(b, ast.Name) and b.id in alias and not isinstance(st.value, ast.Call):
                    alias.add(st.targets[0].id)
                    changed = True
    bad = []
    for st in body:
        if isinstance(st, (ast.Assign, ast.AugAssign)):
            for t in (st.targets if isinstance(st, ast.Assign) else [st.target]):
                for e in ([t] if not isinstance(t, (ast.Tuple, ast.List)) else t.elts):
                    if isinstance(e, (ast.Subscript, ast.Attribute)):
                        b = _base(e.value if isinstance(e, ast.Attribute) else e)
                        if isinstance(b, ast.Name) and b.id in alias:
                            bad.append((st.lineno, f"store {norm_src(e)[:60]}"))
        if isinstance(st, ast.Delete):
            for t in st.targets:
                if isinstance(t, (ast.Subscript, ast.Attribute)):
                    b = _base(t)
                    if isinstance(b, ast.Name) and b.id in alias:
                        bad.append((st.lineno, f"del {norm_src(t)[:60]}"))
        if isinstance(st, ast.Call) and isinstance(st.func, ast.Attribute):
            b = _base(st.func.value)
            if isinstance(b, ast.Name) and b.id in alias:
                if st.func.attr in MUTATING_METHODS:
                    bad.append((st.lineno, f"call {norm_src(st.func)[:60]}()"))
                if any(k.arg == "inplace" and isinstance(k.value, ast.Constant) and k.value.value is True for k in st.keywords):
                    bad.append((st.lineno, f"call {norm_src(st.func)[:60]}(inplace=True)"))
    return bad, alias


def cached_result_mutations(index, files):
    """-> (memoised functions, [(rel, call node, memoised fn name, text)])"""
    memo = memoised_functions(index, files)
    names = {fn.name: (rel, fn) for rel, fn in memo}
    allfns = {}
    for rel in files:
        for fn in [n for n in ast.walk(index.module(rel)) if isinstance(n, (ast.FunctionDef, ast.AsyncFunctionDef))]:
            allfns.setdefault(fn.name, []).append((rel, fn))
    findings = []
    if not names:
        return memo, findings
    for rel in files:
        mod = index.module(rel)
        scopes = [n for n in ast.walk(mod) if isinstance(n, (ast.FunctionDef, ast.AsyncFunctionDef))] + [mod]
        for scope in scopes:
            nodes = list(walk_no_nested(scope)) if not isinstance(scope, ast.Module) else [x for st in scope.body if not isinstance(
                st, (ast.FunctionDef, ast.ClassDef, ast.AsyncFunctionDef)) for x in ast.walk(st)]
            for st in nodes:
                if not (isinstance(st, ast.Assign) and isinstance(st.value, ast.Call)):
                    continue
                f = st.value.func
                cal = f.attr if isinstance(f, ast.Attribute) else (f.id if isinstance(f, ast.Name) else None)
                if cal not in names:
                    continue
                for t in st.targets:
                    if not isinstance(t, ast.Name):
                        continue
                    bad, alias = local_mutations(scope, t.id)
                    for ln, txt in bad:
                        findings.append((rel, st, cal, f"{txt} (line {ln}) modifies the object returned by memoised {cal}()"))
                    # one level into callees that receive the object
                    for c in nodes:
                        if isinstance(c, ast.Call):
                            g = c.func.attr if isinstance(c.func, ast.Attribute) else (c.func.id if isinstance(c.func, ast.Name) else None)
                            cands = allfns.get(g, [])
                            if len(cands) != 1:
                                continue
                            grel, gfn = cands[0]
                            params = [a.arg for a in gfn.args.args]
                            off = 1 if params and params[0] in ("self", "cls") else 0
                            for i, a in enumerate(c.args):
                                b = _base(a)
                                if isinstance(b, ast.Name) and b.id in alias and not isinstance(a, ast.Call) and i + off < len(params):
                                    pb, _ = local_mutations(gfn, params[i + off])
                                    if pb:
                                        findings.append((rel, st, cal, f"{g}() modifies its argument `{params[i + off]}` ({pb[0][1]}, line "
                                                         f"{pb[0][0]}), which is the object returned by memoised {cal}()"))
    return memo, findings
    for rel in files:
        mod = index.module(rel)
        scopes = [n for n in ast.walk(mod) if isinstance(n, (ast.FunctionDef, ast.AsyncFunctionDef))] + [mod]
        for scope in scopes:
            nodes = list(walk_no_nested(scope)) if not isinstance(scope, ast.Module) else [x for st in scope.body if not isinstance(
                st, (ast.FunctionDef, ast.ClassDef, ast.AsyncFunctionDef)) for x in ast.walk(st)]
            for st in nodes:
                if not (isinstance(st, ast.Assign) and isinstance(st.value, ast.Call)):
                    continue
                f = st.value.func
                cal = f.attr if isinstance(f, ast.Attribute) else (f.id if isinstance(f, ast.Name) else None)
                if cal not in names:
                    continue
                for t in st.targets:
                    if not isinstance(t, ast.Name):
                        continue
                    bad, alias = local_mutations(scope, t.id)
                    for ln, txt in bad:
                        findings.append((rel, st, cal, f"{txt} (line {ln}) modifies the object returned by memoised {cal}()"))
                    # one level into callees that receive the object
                    for c in nodes:
                        if isinstance(c, ast.Call):
                            g = c.func.attr if isinstance(c.func, ast.Attribute) else (c.func.id if isinstance(c.func, ast.Name) else None)
                            cands = allfns.get(g, [])
                            if len(cands) != 1:
                                continue
                            grel, gfn = cands[0]
                            params = [a.arg for a in gfn.args.args]
                            if params and params[0] in ("self", "cls") and isinstance(c.func, ast.Attribute):
                                # bound call unless invoked through the class object of a plain function
                                pass
                            for i, a in enumerate(c.args):
                                b = _base(a)
                                if isinstance(b, ast.Name) and b.id in alias and not isinstance(a, ast.Call):
                                    for off in (0, 1):
                                        if i + off < len(params):
                                            pb, _ = local_mutations(gfn, params[i + off])
                                            if pb and (off == 0 or params[0] in ("self", "cls")):
                                                findings.append((rel, st, cal, f"{g}() modifies its argument `{params[i + off]}` ({pb[0][1]}, line "
                                                                 f"{pb[0][0]}), which is the object returned by memoised {cal}()"))
                                                break
    return memo, findings


# ------------------------------------------------------------------------------------------------------------------
# lazily cached instance attributes:  if not hasattr(self, "A"): self.A = f(self.B, ...) ; return self.A
# The cached value goes stale when one of the attributes it was computed from is assigned after construction.

def _self_reads(node, selfname="self"):
    return {n.attr for n in ast.walk(node) if isinstance(n, ast.Attribute) and isinstance(n.value, ast.Name) and n.value.id == selfname
            and isinstance(n.ctx, ast.Load)}


def _guard_attr(test, selfname="self"):
    """attribute name tested by a 'not cached yet' guard, or None"""
    t = test
    neg = False
    if isinstance(t, ast.UnaryOp) and isinstance(t.op, ast.Not):
        t, neg = t.operand, True
    if isinstance(t, ast.Call) and dotted(t.func) == "hasattr" and len(t.args) == 2 and isinstance(t.args[0], ast.Name) \
            and t.args[0].id == selfname and isinstance(t.args[1], ast.Constant) and isinstance(t.args[1].value, str):
        return t.args[1].value, neg  # neg=True: `not hasattr` -> body computes
    if isinstance(t, ast.Compare) and len(t.ops) == 1 and isinstance(t.ops[0], (ast.Is, ast.IsNot, ast.Eq, ast.NotEq)) \
            and isinstance(t.comparators[0], ast.Constant) and t.comparators[0].value is None:
        left = t.left
        if isinstance(left, ast.Call) and dotted(left.func) == "getattr" and len(left.args) >= 2 and isinstance(left.args[1], ast.Constant):
            return left.args[1].value, isinstance(t.ops[0], (ast.Is, ast.Eq))
        if isinstance(left, ast.Attribute) and isinstance(left.value, ast.Name) and left.value.id == selfname:
            return left.attr, isinstance(t.ops[0], (ast.Is, ast.Eq))
    if isinstance(t, ast.Compare) and len(t.ops) == 1 and isinstance(t.ops[0], (ast.In, ast.NotIn)) and isinstance(t.left, ast.Constant) \
            and norm_src(t.comparators[0]) in (f"{selfname}.__dict__", f"vars({selfname})"):
        return t.left.value, isinstance(t.ops[0], ast.NotIn)
    return None


def lazy_attribute_caches(index, files):
    """-> [(rel, class name, method node, cached attribute, [stale dependencies 'attr <- writer'])]"""
    out = []
    # every `<anything>.<attr> = ...` outside __init__ anywhere in the files, by attribute name
    late_writers = {}
    for rel in files:
        for fn in [n for n in ast.walk(index.module(rel)) if isinstance(n, (ast.FunctionDef, ast.AsyncFunctionDef))]:
            if fn.name == "__init__":
                continue
            for st in walk_no_nested(fn):
                if isinstance(st, (ast.Assign, ast.AugAssign, ast.AnnAssign)):
                    tg = st.targets if isinstance(st, ast.Assign) else [st.target]
                    for t in tg:
                        for e in ([t] if not isinstance(t, (ast.Tuple, ast.List)) else t.elts):
                            if isinstance(e, ast.Attribute):
                                late_writers.setdefault(e.attr, set()).add(f"{rel.split('/')[-1]}:{fn.name}")
                if isinstance(st, ast.Call) and dotted(st.func) == "setattr" and len(st.args) >= 2 and isinstance(st.args[1], ast.Constant):
                    late_writers.setdefault(st.args[1].value, set()).add(f"{rel.split('/')[-1]}:{fn.name}")
    for rel in files:
        mod = index.module(rel)
        for cls in [n for n in ast.walk(mod) if isinstance(n, ast.ClassDef)]:
            methods = {m.name: m for m in cls.body if isinstance(m, (ast.FunctionDef, ast.AsyncFunctionDef))}
            for m in methods.values():
                if not m.args.args:
                    continue
                selfname = m.args.args[0].arg
                for st in walk_no_nested(m):
                    if not isinstance(st, ast.If):
                        continue
                    g = _guard_attr(st.test, selfname)
                    if g is None:
                        continue
                    attr, body_computes = g
                    block = st.body if body_computes else st.orelse
                    stores = [s for s in block if isinstance(s, (ast.Assign, ast.AnnAssign)) and any(
                        isinstance(t, ast.Attribute) and isinstance(t.value, ast.Name) and t.value.id == selfname and t.attr == attr
                        for t in (s.targets if isinstance(s, ast.Assign) else [s.target]))]
                    if not stores:
                        continue
                    deps = set()
                    for s in stores:
                        deps |= _self_reads(s.value, selfname)
                        for c in ast.walk(s.value):  # one level through self.method()
                            if isinstance(c, ast.Call) and isinstance(c.func, ast.Attribute) and isinstance(c.func.value, ast.Name) \
                                    and c.func.value.id == selfname and c.func.attr in methods:
                                deps |= _self_reads(methods[c.func.attr], methods[c.func.attr].args.args[0].arg if methods[c.func.attr].args.args else "self")
                    deps.discard(attr)
                    stale = sorted(f"{d} <- {sorted(late_writers[d])[0]}" for d in deps if d in late_writers and d not in methods)
                    # the cache itself being reset by another method makes it a managed cache: still report only stale deps
                    invalidated = [w for w in late_writers.get(attr, ()) if not w.endswith(":" + m.name)]
                    out.append((rel, cls.name, m, attr, stale, invalidated))
    return out


# ------------------------------------------------------------------------------------------------------------------
# iteration order of sets of strings is randomised per process (PYTHONHASHSEED)

def _is_set_valued(e, local_sets):
    if isinstance(e, (ast.Set, ast.SetComp)):
        return True
    if isinstance(e, ast.Call):
        d = dotted(e.func) or ""
        if d in ("set", "frozenset"):
            return True
        if isinstance(e.func, ast.Attribute) and e.func.attr in ("union", "intersection", "difference", "symmetric_difference", "copy") \
                and _is_set_valued(e.func.value, local_sets):
            return True
    if isinstance(e, ast.BinOp) and isinstance(e.op, (ast.BitOr, ast.BitAnd, ast.Sub, ast.BitXor)):
        return _is_set_valued(e.left, local_sets) or _is_set_valued(e.right, local_sets)
    if isinstance(e, ast.Name):
        return e.id in local_sets
    return False


ORDER_FREE_CONSUMERS = ("sorted", "min", "max", "sum", "len", "any", "all", "set", "frozenset")


def set_order_dependence(index, files):
    """-> [(rel, node, text)]: places where the iteration order of a set reaches an ordered result"""
    out = []
    for rel in files:
        mod = index.module(rel)
        scopes = [n for n in ast.walk(mod) if isinstance(n, (ast.FunctionDef, ast.AsyncFunctionDef))] + [mod]
        for scope in scopes:
            nodes = list(walk_no_nested(scope)) if not isinstance(scope, ast.Module) else [x for st in scope.body if not isinstance(
                st, (ast.FunctionDef, ast.ClassDef, ast.AsyncFunctionDef)) for x in ast.walk(st)]
            assigns = {}
            for st in nodes:
                if isinstance(st, ast.Assign) and len(st.targets) == 1 and isinstance(st.targets[0], ast.Name):
                    assigns.setdefault(st.targets[0].id, []).append(st.value)
            local_sets = set()
            changed = True
            while changed:
                changed = False
                for name, vals in assigns.items():
                    if name not in local_sets and vals and all(_is_set_valued(v, local_sets) for v in vals):
                        local_sets.add(name)
                        changed = True
            for n in nodes:
                if isinstance(n, ast.For) and _is_set_valued(n.iter, local_sets):
                    out.append((rel, n, f"`for {norm_src(n.target)} in {norm_src(n.iter)[:50]}` iterates a set"))
                if isinstance(n, (ast.ListComp, ast.GeneratorExp)) and any(_is_set_valued(g.iter, local_sets) for g in n.generators):
                    p = getattr(n, "_parent", None)
                    if isinstance(p, ast.Call) and (dotted(p.func) or "") in ORDER_FREE_CONSUMERS:
                        continue
                    out.append((rel, n, f"`{norm_src(n)[:60]}` builds an ordered sequence from a set"))
                if isinstance(n, ast.Call) and (dotted(n.func) or "") in ("list", "tuple", "enumerate", "iter", "next", "zip", "np.array", "str.join") \
                        and n.args and any(_is_set_valued(a, local_sets) for a in n.args):
                    p = getattr(n, "_parent", None)
                    if isinstance(p, ast.Call) and (dotted(p.func) or "") in ORDER_FREE_CONSUMERS:
                        continue
                    # kept in a local that only order-free consumers read (`t = list(s); sorted(t)`)
                    if isinstance(p, ast.Assign) and len(p.targets) == 1 and isinstance(p.targets[0], ast.Name) and len(assigns.get(p.targets[0].id, [])) == 1:
                        uses = [u for u in nodes if isinstance(u, ast.Name) and u.id == p.targets[0].id and isinstance(u.ctx, ast.Load)]
                        if uses and all(isinstance(getattr(u, "_parent", None), ast.Call) and (dotted(u._parent.func) or "") in ORDER_FREE_CONSUMERS
                                        for u in uses):
                            continue
                    out.append((rel, n, f"`{norm_src(n)[:60]}` turns a set into an ordered sequence"))
                if isinstance(n, ast.Call) and isinstance(n.func, ast.Attribute) and n.func.attr in ("pop", "join") and (
                        (n.func.attr == "pop" and not n.args and _is_set_valued(n.func.value, local_sets)) or
                        (n.func.attr == "join" and n.args and _is_set_valued(n.args[0], local_sets))):
                    out.append((rel, n, f"`{norm_src(n)[:60]}` depends on set order"))
    return out


# ------------------------------------------------------------------------------------------------------------------
# containers held by objects that live as long as the process (instances bound at class or module level, e.g. Food.conversions)

_CONTAINER_CALLS = ("dict", "list", "set", "defaultdict", "collections.defaultdict", "OrderedDict", "collections.OrderedDict", "Counter")
_MUTATORS = ("append", "extend", "update", "add", "setdefault", "pop", "popitem", "clear", "insert", "remove", "discard")


def process_wide_classes(index, files=None):
    """class name -> [(rel, node)] for `NAME = SomeClass(...)` at class or module level anywhere in src/ (the instance is created once
    at import and shared by every run), for classes defined in src/"""
    defined = {}
    rels = files or index.py_files("src")
    for rel in rels:
        for c in [n for n in ast.walk(index.module(rel)) if isinstance(n, ast.ClassDef)]:
            defined.setdefault(c.name, []).append((rel, c))
    out = {}
    for rel in rels:
        mod = index.module(rel)
        scopes = [mod] + [n for n in ast.walk(mod) if isinstance(n, ast.ClassDef)]
        for sc in scopes:
            for st in sc.body:
                if isinstance(st, ast.Assign) and isinstance(st.value, ast.Call) and isinstance(st.value.func, ast.Name) and st.value.func.id in defined:
                    out.setdefault(st.value.func.id, []).append((rel, st))
    return out, defined


def shared_instance_containers(index, files=None):
    """-> [(rel, class name, attribute, [sites])]: a dict/list/set attribute of a process-wide instance that a method of the class fills
    or changes - whatever is put there by one run is still there in the next"""
    shared, defined = process_wide_classes(index, files)
    out = []
    for cname in sorted(shared):
        for rel, cls in defined[cname]:
            methods = [m for m in cls.body if isinstance(m, (ast.FunctionDef, ast.AsyncFunctionDef)) and m.args.args]
            containers = set()
            for m in methods:
                sn = m.args.args[0].arg
                for st in walk_no_nested(m):
                    if isinstance(st, (ast.Assign, ast.AnnAssign)) and getattr(st, "value", None) is not None:
                        v = st.value
                        is_c = isinstance(v, (ast.Dict, ast.List, ast.Set, ast.DictComp, ast.ListComp, ast.SetComp)) or (
                            isinstance(v, ast.Call) and (dotted(v.func) or "") in _CONTAINER_CALLS)
                        if is_c:
                            for t in (st.targets if isinstance(st, ast.Assign) else [st.target]):
                                if isinstance(t, ast.Attribute) and isinstance(t.value, ast.Name) and t.value.id == sn:
                                    containers.add(t.attr)
            for attr in sorted(containers):
                sites = []
                for m in methods:
                    if m.name == "__init__":
                        continue
                    sn = m.args.args[0].arg
                    for st in walk_no_nested(m):
                        tg = []
                        if isinstance(st, ast.Assign):
                            tg = st.targets
                        elif isinstance(st, (ast.AugAssign, ast.AnnAssign)):
                            tg = [st.target]
                        elif isinstance(st, ast.Delete):
                            tg = st.targets
                        for t in tg:
                            b = t
                            sub = False
                            while isinstance(b, ast.Subscript):
                                b, sub = b.value, True
                            if sub and isinstance(b, ast.Attribute) and b.attr == attr and isinstance(b.value, ast.Name) and b.value.id == sn:
                                sites.append(f"{m.name}:{st.lineno}")
                        if isinstance(st, ast.Call) and isinstance(st.func, ast.Attribute) and st.func.attr in _MUTATORS:
                            b = st.func.value
                            while isinstance(b, ast.Subscript):
                                b = b.value
                            if isinstance(b, ast.Attribute) and b.attr == attr and isinstance(b.value, ast.Name) and b.value.id == sn:
                                sites.append(f"{m.name}:{st.lineno}")
                if sites:
                    out.append((rel, cname, attr, sites, cls))
    return out


def hidden_state_rules(index, rep, rule, files, what):
    """`what` is computed from its inputs only: the given files keep no module-/class-level container their functions write, hand out no
    memoised object that callers modify, and cache no attribute lazily whose inputs are assigned later.  One obligation per file and kind."""
    from .core import loc
    from .c14 import shared_container_writes
    for rel in files:
        bad = [(name, kind, st, w) for name, kind, st, w in shared_container_writes(index, rel) if w]
        rep.check(not bad, rule, f"{rel}: no shared container written",
                  f"{what} can depend on earlier calls/runs: " + "; ".join(f"{kind}-level container {name} is written at {w[:3]}" for name, kind, st, w in bad[:3]),
                  loc=loc(rel, bad[0][2]) if bad else rel)
    memo, findings = cached_result_mutations(index, files)
    mine = [f for f in findings if f[0] in files]
    rep.check(not mine, rule, "no memoised result is modified",
              f"{what} can depend on earlier calls/runs: " + "; ".join(f[3] for f in mine[:2]), loc=loc(mine[0][0], mine[0][1]) if mine else files[0])
    # relevant here: the class is defined in these files, or these files call the method that fills the container
    called = {n.func.attr for rel in files for n in ast.walk(index.module(rel)) if isinstance(n, ast.Call) and isinstance(n.func, ast.Attribute)}
    sic = [x for x in shared_instance_containers(index) if x[0] in files or any(s_.split(":")[0] in called for s_ in x[3])]
    rep.check(not sic, rule, "no container kept by a process-wide object",
              f"{what} can depend on earlier calls/runs: " + "; ".join(
                  f"{cn}.{attr} (an instance of {cn} is created once at import and shared) is filled at {sites[:3]}" for _, cn, attr, sites, _ in sic[:3]),
              loc=loc(sic[0][0], sic[0][4]) if sic else files[0])
    lazy = lazy_attribute_caches(index, files)
    for rel, cn, m, attr, stale, invalidated in lazy:
        rep.check(not stale or bool(invalidated), rule, f"lazy-cache:{cn}.{m.name}:{attr}",
                  f"{cn}.{m.name} keeps its first result in self.{attr}, but what it is computed from is assigned later ({'; '.join(stale[:3])}) "
                  f"and nothing resets the cached value: {what} depends on when it was first asked for", loc=loc(rel, m))
    if not lazy:
        rep.ok(rule, "no stale lazily cached attribute")



ONE_SHOT_BUILTINS = ("zip", "map", "filter", "iter", "reversed", "enumerate")


def kept_one_shot_iterators(index, rels):
    """[(rel, store node, attribute, number of read sites)]: an attribute of an object bound to a one-shot iterator (zip/map/filter/iter/
    reversed/enumerate, a generator expression, or a same-class method whose every return is one) and read at more than one place or inside
    a loop: the first reader exhausts it, every later reader sees it empty"""
    from .core import walk_no_nested, dotted
    out = []

    def one_shot(v, methods, depth=0):
        if isinstance(v, ast.GeneratorExp):
            return True
        if isinstance(v, ast.Call) and isinstance(v.func, ast.Name) and v.func.id in ONE_SHOT_BUILTINS:
            return True
        if depth == 0 and isinstance(v, ast.Call) and isinstance(v.func, ast.Attribute) and isinstance(v.func.value, ast.Name) and v.func.value.id == "self" \
                and v.func.attr in methods:
            rets = [r.value for r in walk_no_nested(methods[v.func.attr]) if isinstance(r, ast.Return) and r.value is not None]
            loc_defs = {}
            for s_ in walk_no_nested(methods[v.func.attr]):
                if isinstance(s_, ast.Assign) and len(s_.targets) == 1 and isinstance(s_.targets[0], ast.Name):
                    loc_defs.setdefault(s_.targets[0].id, []).append(s_.value)
            rets = [loc_defs[r.id][0] if isinstance(r, ast.Name) and len(loc_defs.get(r.id, [])) == 1 else r for r in rets]
            return bool(rets) and all(one_shot(r, methods, 1) for r in rets)
        return False

    for rel in rels:
        mod = index.module(rel)
        for cls in [n for n in mod.body if isinstance(n, ast.ClassDef)]:
            methods = {m.name: m for m in cls.body if isinstance(m, ast.FunctionDef)}
            for m in methods.values():
                for st in walk_no_nested(m):
                    if isinstance(st, ast.Assign) and len(st.targets) == 1 and isinstance(st.targets[0], ast.Attribute) \
                            and isinstance(st.targets[0].value, ast.Name) and st.targets[0].value.id == "self" and one_shot(st.value, methods):
                        attr = st.targets[0].attr
                        reads = [n for n in ast.walk(cls) if isinstance(n, ast.Attribute) and n.attr == attr and isinstance(n.ctx, ast.Load)
                                 and isinstance(n.value, ast.Name) and n.value.id == "self"]
                        in_loop = False
                        for r in reads:
                            p_ = getattr(r, "_parent", None)
                            while p_ is not None and not isinstance(p_, ast.FunctionDef):
                                if isinstance(p_, (ast.For, ast.While)):
                                    in_loop = True
                                p_ = getattr(p_, "_parent", None)
                        if len(reads) > 1 or in_loop:
                            out.append((rel, st, attr, len(reads)))
    return out



def series_changed_through_alias(index, rel, clsname, lanes=("kcals", "fat", "protein")):
    """[(function, statement, alias, source text)]: a local bound to the storage of a series held in a table (`x = table[key].kcals`, no copy,
    no arithmetic) and then changed in place (`x -= ...`, `x[...] = ...`, x.fill(...)): for a numpy array that rewrites the table's own series"""
    from .core import walk_no_nested, norm_src
    out = []
    for fn in [m for m in index.cls(rel, clsname).body if isinstance(m, ast.FunctionDef)]:
        alias = {}
        for st in walk_no_nested(fn):
            if isinstance(st, ast.Assign) and len(st.targets) == 1 and isinstance(st.targets[0], ast.Name):
                v = st.value
                # <table>[key].<lane>, or getattr(<object>, name).<lane>: the stored series itself
                held = isinstance(v, ast.Attribute) and v.attr in lanes and (isinstance(v.value, ast.Subscript) or (
                    isinstance(v.value, ast.Call) and isinstance(v.value.func, ast.Name) and v.value.func.id == "getattr"))
                if held:
                    alias.setdefault(st.targets[0].id, []).append(st)
        if not alias:
            continue
        for st in walk_no_nested(fn):
            tgt = None
            if isinstance(st, ast.AugAssign):
                tgt = st.target
            elif isinstance(st, ast.Assign) and any(isinstance(t, ast.Subscript) for t in st.targets):
                tgt = [t for t in st.targets if isinstance(t, ast.Subscript)][0]
            elif isinstance(st, ast.Expr) and isinstance(st.value, ast.Call) and isinstance(st.value.func, ast.Attribute) \
                    and st.value.func.attr in ("fill", "sort", "resize", "put", "itemset", "partition"):
                tgt = st.value.func.value
            if tgt is None:
                continue
            base = tgt
            while isinstance(base, ast.Subscript):
                base = base.value
            if isinstance(base, ast.Name) and base.id in alias:
                # every definition of the alias is such a storage reference (a copy made on another path would still leave this one)
                defs = [s_ for s_ in walk_no_nested(fn) if isinstance(s_, ast.Assign) and any(isinstance(t, ast.Name) and t.id == base.id for t in s_.targets)]
                bare = [s_ for s_ in defs if s_ in alias[base.id] and s_.lineno < st.lineno]
                if bare:
                    out.append((fn, st, base.id, norm_src(bare[-1].value)))
    return out



def module_level_one_shot(index, rels):
    """[(rel, statement, name, [reader function names])]: a module-level name bound to a one-shot iterator (a generator expression in
    parentheses, zip/map/filter/iter/reversed/enumerate) and iterated by functions of the module: the first call in the process exhausts it,
    every later run finds it empty"""
    out = []
    for rel in rels:
        mod = index.module(rel)
        for st in mod.body:
            if isinstance(st, ast.Assign) and len(st.targets) == 1 and isinstance(st.targets[0], ast.Name):
                v = st.value
                if isinstance(v, ast.GeneratorExp) or (isinstance(v, ast.Call) and isinstance(v.func, ast.Name) and v.func.id in ONE_SHOT_BUILTINS):
                    name = st.targets[0].id
                    readers = sorted({f.name for f in ast.walk(mod) if isinstance(f, ast.FunctionDef)
                                      for n in ast.walk(f) if isinstance(n, ast.Name) and n.id == name and isinstance(n.ctx, ast.Load)})
                    if readers:
                        out.append((rel, st, name, readers))
    return out


def storage_alias_writes(index, rels, lanes=("kcals", "fat", "protein")):
    """[(rel, function, statement, alias, source text)]: a local bound to the storage of a nutrient series that lives outside the function
    (`x = <parameter or self ...>.kcals`, or a list collecting such, or a loop variable running over such a list) and then changed in place
    (`x += ...`, `x[...] = / *= ...`, `x.fill(...)`): for a numpy array that rewrites the series of the object the caller still holds"""
    from .core import walk_no_nested, norm_src
    out = []

    def root_of(e):
        while True:
            if isinstance(e, ast.Attribute):
                e = e.value
            elif isinstance(e, ast.Subscript):
                e = e.value
            elif isinstance(e, ast.Call) and isinstance(e.func, ast.Name) and e.func.id == "getattr" and e.args:
                e = e.args[0]
            else:
                break
        return e.id if isinstance(e, ast.Name) else None

    for rel in rels:
        mod = index.module(rel)
        for fn in [n for n in ast.walk(mod) if isinstance(n, ast.FunctionDef)]:
            params = {a.arg for a in fn.args.args + fn.args.kwonlyargs}
            assigns = {}
            for st in walk_no_nested(fn):
                if isinstance(st, ast.Assign):
                    for t in st.targets:
                        if isinstance(t, ast.Name):
                            assigns.setdefault(t.id, []).append(st)
            # names that stand for objects living outside the function: parameters, and locals bound (only ever) to places rooted at such names
            outer = set(params)
            # ... and locals that receive what another routine of the repository hands back (`a, b = self.compute(...)`: the object is the
            # callee's, and is usually handed on): everything except what is evidently made here (a constructor, a numpy / copy call, a literal)
            for st in walk_no_nested(fn):
                if isinstance(st, ast.Assign) and isinstance(st.value, ast.Call):
                    d_ = st.value.func
                    made_here = (isinstance(d_, ast.Name) and (d_.id[:1].isupper() or d_.id in ("list", "dict", "tuple", "set", "sorted", "range", "zip", "open", "len", "deepcopy"))) \
                        or (isinstance(d_, ast.Attribute) and isinstance(d_.value, ast.Name) and d_.value.id in ("np", "numpy", "copy", "pd", "pandas", "math", "plt", "os", "json", "yaml")) \
                        or (isinstance(d_, ast.Attribute) and d_.attr in ("copy", "deepcopy"))
                    fresh_method = isinstance(d_, ast.Attribute) and (d_.attr.startswith("in_units") or d_.attr.startswith("get_") and d_.attr.endswith("_sum"))
                    if not made_here and not fresh_method and (isinstance(d_, ast.Attribute) or (isinstance(d_, ast.Name) and d_.id[:1].islower())):
                        for t in st.targets:
                            for x in ([t] if isinstance(t, ast.Name) else (t.elts if isinstance(t, ast.Tuple) else [])):
                                if isinstance(x, ast.Name) and len(assigns.get(x.id, [])) <= 1:
                                    outer.add(x.id)
            changed = True
            while changed:
                changed = False
                for name, sts in assigns.items():
                    if name in outer or name in params:
                        continue
                    if all(isinstance(s_.value, (ast.Attribute, ast.Subscript)) and root_of(s_.value) in outer and len(s_.targets) == 1 for s_ in sts):
                        outer.add(name)
                        changed = True

            def is_storage(v):
                return isinstance(v, ast.Attribute) and v.attr in lanes and isinstance(v.value, (ast.Name, ast.Attribute, ast.Subscript, ast.Call)) \
                    and not (isinstance(v.value, ast.Call) and not (isinstance(v.value.func, ast.Name) and v.value.func.id == "getattr")) \
                    and root_of(v) in outer

            def scalar_owner(v):
                """`self.A.<lane>` where the class only ever binds self.A to Food(x, <number>, <number>): one number per nutrient, not a
                series - an augmented assignment to a local holding it rebinds the local"""
                o = v.value
                cls_ = getattr(fn, "_parent", None)
                if not (isinstance(o, ast.Attribute) and isinstance(o.value, ast.Name) and o.value.id == "self" and isinstance(cls_, ast.ClassDef)):
                    return False
                binds = [s_.value for s_ in ast.walk(cls_) if isinstance(s_, ast.Assign) for t_ in s_.targets
                         if isinstance(t_, ast.Attribute) and t_.attr == o.attr and isinstance(t_.value, ast.Name) and t_.value.id == "self"]
                foods = [b_ for b_ in binds if isinstance(b_, ast.Call) and isinstance(b_.func, ast.Name) and b_.func.id == "Food"]
                rest = [b_ for b_ in binds if b_ not in foods]
                return bool(foods) and all(any(isinstance(a_, ast.Constant) and isinstance(a_.value, (int, float))
                                               for a_ in list(b_.args) + [k_.value for k_ in b_.keywords]) for b_ in foods) \
                    and all(isinstance(b_, ast.Call) and isinstance(b_.func, ast.Attribute) and isinstance(b_.func.value, ast.Name)
                            and b_.func.value.id == "self" for b_ in rest)

            _is_storage0 = is_storage

            def is_storage(v, _f=_is_storage0):
                return _f(v) and not scalar_owner(v)

            alias, lists = {}, {}
            for st in walk_no_nested(fn):
                if isinstance(st, ast.Assign) and len(st.targets) == 1 and isinstance(st.targets[0], ast.Name):
                    if is_storage(st.value):
                        alias.setdefault(st.targets[0].id, []).append(st)
                    elif isinstance(st.value, (ast.List, ast.Tuple)) and st.value.elts and any(is_storage(e) for e in st.value.elts):
                        lists.setdefault(st.targets[0].id, []).append(st)
                elif isinstance(st, ast.Expr) and isinstance(st.value, ast.Call) and isinstance(st.value.func, ast.Attribute) and st.value.func.attr == "append" \
                        and isinstance(st.value.func.value, ast.Name) and len(st.value.args) == 1 and is_storage(st.value.args[0]):
                    lists.setdefault(st.value.func.value.id, []).append(st)
            if not alias and not lists:
                continue
            # loop variables running over a list of storage references
            for st in walk_no_nested(fn):
                if isinstance(st, ast.For) and isinstance(st.target, ast.Name) and isinstance(st.iter, ast.Name) and st.iter.id in lists:
                    alias.setdefault(st.target.id, []).append(lists[st.iter.id][0])
            for st in walk_no_nested(fn):
                tgt = None
                if isinstance(st, ast.AugAssign):
                    tgt = st.target
                elif isinstance(st, ast.Assign) and any(isinstance(t, ast.Subscript) for t in st.targets):
                    tgt = [t for t in st.targets if isinstance(t, ast.Subscript)][0]
                elif isinstance(st, ast.Expr) and isinstance(st.value, ast.Call) and isinstance(st.value.func, ast.Attribute) \
                        and st.value.func.attr in ("fill", "sort", "resize", "put", "itemset", "partition"):
                    tgt = st.value.func.value
                if tgt is None:
                    continue
                base, depth = tgt, 0
                while isinstance(base, ast.Subscript):
                    base = base.value
                    depth += 1
                if not isinstance(base, ast.Name):
                    continue
                if base.id in alias:
                    defs = assigns.get(base.id, [])
                    stor = [s_ for s_ in alias[base.id] if s_.lineno < st.lineno]
                    # every plain definition of the name is such a storage reference (rebinding to a copy first would be safe)
                    if stor and all(s_ in alias[base.id] for s_ in defs):
                        src = stor[-1].value if isinstance(stor[-1], ast.Assign) else stor[-1].value.args[0]
                        out.append((rel, fn, st, base.id, norm_src(src)[:80]))
                elif base.id in lists and depth >= 1 and (isinstance(st, ast.AugAssign) or depth >= 2):
                    if all(s_ in lists[base.id] or (isinstance(s_.value, (ast.List, ast.Tuple)) and not s_.value.elts) for s_ in assigns.get(base.id, [])):
                        s0 = lists[base.id][0]
                        src = s0.value.args[0] if isinstance(s0, ast.Expr) else next(e for e in s0.value.elts if is_storage(e))
                        out.append((rel, fn, st, base.id + "[...]", norm_src(src)[:80]))
    return out



def attribute_alias_writes(index, rels):
    """[(rel, function, statement, alias attribute, aliased attribute)]: `self.A = self.B` (the same object, no copy) followed in the same
    routine by an in-place change of self.A (`self.A[...] = / += ...`, `self.A += ...` on an array, .fill/.sort): self.B changes with it"""
    from .core import walk_no_nested, norm_src
    out = []
    for rel in rels:
        for fn in [n for n in ast.walk(index.module(rel)) if isinstance(n, ast.FunctionDef)]:
            alias = {}
            for st in walk_no_nested(fn):
                if isinstance(st, ast.Assign) and len(st.targets) == 1 and isinstance(st.targets[0], ast.Attribute) and isinstance(st.value, ast.Attribute) \
                        and all(isinstance(x.value, ast.Name) and x.value.id == "self" for x in (st.targets[0], st.value)) and st.targets[0].attr != st.value.attr:
                    alias.setdefault(st.targets[0].attr, []).append(st)
            if not alias:
                continue
            for st in walk_no_nested(fn):
                tgt = None
                if isinstance(st, ast.AugAssign) and isinstance(st.target, ast.Subscript):
                    tgt = st.target
                elif isinstance(st, ast.Assign) and any(isinstance(t, ast.Subscript) for t in st.targets):
                    tgt = [t for t in st.targets if isinstance(t, ast.Subscript)][0]
                elif isinstance(st, ast.Expr) and isinstance(st.value, ast.Call) and isinstance(st.value.func, ast.Attribute) \
                        and st.value.func.attr in ("fill", "sort", "resize", "put", "itemset", "partition", "append", "extend", "insert", "pop", "clear"):
                    tgt = st.value.func.value
                if tgt is None:
                    continue
                base = tgt
                while isinstance(base, ast.Subscript):
                    base = base.value
                if isinstance(base, ast.Attribute) and isinstance(base.value, ast.Name) and base.value.id == "self" and base.attr in alias:
                    binds = [s_ for s_ in walk_no_nested(fn) if isinstance(s_, ast.Assign) and any(
                        isinstance(t, ast.Attribute) and isinstance(t.value, ast.Name) and t.value.id == "self" and t.attr == base.attr for t in s_.targets)]
                    last = [s_ for s_ in binds if s_.lineno < st.lineno]
                    if last and last[-1] in alias[base.attr]:
                        out.append((rel, fn, st, base.attr, last[-1].value.attr))
    return out
