"""C03 — humans come before animal feed and biofuel.

The headline relation between the three solver outputs is not decided (and has no enforcement in code: C03.TOOTHLESS
reports that as information).  Decided:
  C03.SHUT  the demand schedules are [u]*d + [0]*(N-d) with d the configured shut-off delay (zero from the shut-off month)
  C03.WIRE  after every round that ran, use is checked against the RIGHT demand (positional provenance) by validators that
            raise; the comparison is demand - used*(1-eps) > -1e-6, eps <= 1e-4
  C03.CEIL  the round-2 ceilings derive from the same demand objects
  C03.PIN   the consumption pinned in round 2 is the hand-off computed from round 1
  C03.R3    round 3 charges the feed/biofuel found in round 2, bumped only within (biofuel, feed) demand, in the right slots
"""
from __future__ import annotations

import ast
from fractions import Fraction

from .core import AnalysisError, loc, norm_src, walk_no_nested, dotted, str_const, Inliner
from .flow import Flow
from .symx import Interp, Obj, Path, PList, PDict, RLE, RLECat, Opaque, Unsupported, explore, Abort, NSYM
from .rat import Rat

FAB = "src/food_system/feed_and_biofuels.py"
PARAMS = "src/optimizer/parameters.py"
RUN = "src/scenarios/run_scenario.py"
VAL = "src/optimizer/validate_results.py"
OPT = "src/optimizer/optimizer.py"
ANIMALS = "src/food_system/animal_populations.py"
INT = "src/optimizer/interpret_results.py"


def run(index, rep):
    rep.guard(shut, index, rep)
    flow = Flow(index, [FAB, PARAMS, RUN], sources=("get_feed_usage", "get_biofuel_usage", "calculate_human_consumption_for_min_needs",
                                                          "create_feed_food_from_kcals"))
    rep.guard(wire, index, rep, flow)
    rep.guard(ceil, index, rep, flow)
    rep.guard(pin, index, rep, flow)
    rep.guard(r3, index, rep, flow)
    rep.guard(skip, index, rep)
    rep.guard(herd_siblings, index, rep)
    rep.guard(minimum, index, rep)
    from .lanes import lane_rule
    rep.guard(lane_rule, index, rep, "C03.ARGLANE", ("feed", "biofuel"), 40, "feed and biofuel crossed at a call")
    rep.guard(toothless, index, rep)
    rep.guard(lp_pins, index, rep)


def lp_pins(index, rep):
    """the last link of 'people first': what round 1 found people need is what the feed round's programme holds human consumption at"""
    from .lpdb import LPDB
    from .c02 import pins
    db = LPDB(index)
    for flag in db.resources:
        db.extract_resource(flag, "to_animals")
    pins(db, rep, "C03.PIN")


# ------------------------------------------------------------------------------------------------ SHUT


def shut(index, rep):
    rule = "C03.SHUT"
    cls = index.cls(FAB, "FeedAndBiofuels")
    for meth, per_year, dkey in (("get_feed_usage", "feed_per_year", "FEED_SHUTOFF_MONTHS"),
                                 ("get_biofuel_usage", "biofuel_per_year", "BIOFUEL_SHUTOFF_MONTHS")):
        fn = index.func(FAB, "FeedAndBiofuels." + meth)
        d = Rat.atom(("duration",))

        def runit(it, fn=fn, per_year=per_year):
            it.classes = {"FeedAndBiofuels": cls}

            def hook(interp, dn, args, kwargs, node):
                if dn == "Food":
                    return Obj(None, dict(kwargs), "food")
                if dn in ("np.array", "np.asarray") and len(args) == 1:
                    return args[0]
                from .nphooks import np_hook
                return np_hook(interp, dn, args, kwargs, node)

            it.call_hook = hook
            obj = Obj(cls, {"NMONTHS": Rat.atom(NSYM), per_year: Obj(None, {
                "kcals": Rat.atom(("yr", "kcals")), "fat": Rat.atom(("yr", "fat")), "protein": Rat.atom(("yr", "protein"))}, per_year)}, "self")
            return it.call_function(fn, [d], {}, obj)

        try:
            envs = explore(runit, month_classes=False)
        except Unsupported as e:
            raise AnalysisError(f"{meth} outside the analysed fragment: {e}")
        n = 0
        # written over whole arrays ((np.arange(NMONTHS) < duration) x monthly use): every path describes the generic entry i of one run of
        # NMONTHS entries under the conditions it met; compared piece by piece with  use for i < duration, 0 from the shut-off month on
        from .symx import NArr as _NArr, EIDX as _EIDX, constraints_of as _cons_of
        from .rat import piecewise_mismatch as _pwm
        generic = {l_: [] for l_ in ("kcals", "fat", "protein")}
        live = [x for x in envs if not isinstance(x[2], Abort)]
        if live and all(isinstance(x[2], Obj) and all(isinstance(x[2].attrs.get(l_), _NArr) and len(x[2].attrs[l_].segs) == 1
                                                       and x[3].to_rat(x[2].attrs[l_].segs[0][1]) == Rat.atom(NSYM) for l_ in generic) for x in live):
            for _, dec, res, it in live:
                for l_ in generic:
                    generic[l_].append((_cons_of(it, dec), it.to_rat(res.attrs[l_].segs[0][0])))
            for lane in generic:
                want = Fraction(4 * 10**6, 12 * 10**9) if lane == "kcals" else Fraction(1, 12 * 1000)
                use = Rat.atom(("yr", lane)) * Rat.const(want)
                # months are whole numbers: in use up to and including duration - 1, zero from month `duration` on (the step at the shut-off is
                # stated by two pieces that do not touch)
                why = _pwm(generic[lane], [(None, d - Rat.const(1), use), (d, None, Rat.const(0))], _EIDX, extra=[(Rat.atom(_EIDX), ">="), (d, ">=")])
                rep.check(why is None, rule, f"{meth}:{lane}", f"entry i of the series is not yearly demand x {want} for i < duration and 0 from the "
                          f"shut-off month on: {why}", loc=loc(FAB, fn))
            res0 = live[0][2]
            labs = [res0.attrs.get(k) for k in ("kcals_units", "fat_units", "protein_units")]
            rep.check(labs == ["billion kcals each month", "thousand tons each month", "thousand tons each month"], rule,
                      f"{meth}:units", f"demand is labelled {labs}", loc=loc(FAB, fn))
            continue
        for _, dec, res, it in envs:
            if isinstance(res, Abort):
                continue
            if not isinstance(res, Obj):
                raise AnalysisError(f"{meth} does not return a Food construction")
            n += 1
            for lane in ("kcals", "fat", "protein"):
                v = res.attrs.get(lane)
                segs = v.segs if isinstance(v, RLECat) else None
                ok = segs is not None and len(segs) == 2
                why = "the series is not built as [monthly use] * duration + [0] * (NMONTHS - duration)"
                if ok:
                    (u, n1), (z, n2) = segs
                    n1, n2 = it.to_rat(n1), it.to_rat(n2)
                    ok = n1 == d and isinstance(z, Rat) and z.is_zero() and (n1 + n2) == Rat.atom(NSYM)
                    if ok:
                        # the monthly use is the yearly amount / 12 times a constant unit factor
                        yr = Rat.atom(("yr", lane))
                        ratio = it.to_rat(u) / yr
                        ok = ratio.is_const() and ratio.const_value() > 0
                        why = "the monthly value is not the yearly demand x a constant unit factor"
                        if ok:
                            want = Fraction(4 * 10**6, 12 * 10**9) if lane == "kcals" else Fraction(1, 12 * 1000)
                            ok = ratio.const_value() == want
                            why = f"the unit factor is {ratio.const_value()}, expected {want} (per year -> per month, " \
                                  f"{'thousand dry caloric tons -> billion kcals' if lane == 'kcals' else 'tons -> thousand tons'})"
                    else:
                        why = (f"segments are ({n1} months of use, {n2} months of {z}): demand is not zero from the shut-off month on, or "
                               "the series does not have NMONTHS entries")
                rep.check(ok, rule, f"{meth}:{lane}", why, loc=loc(FAB, fn), detail=str(v.segs) if isinstance(v, RLECat) else str(v))
            labs = [res.attrs.get(k) for k in ("kcals_units", "fat_units", "protein_units")]
            rep.check(labs == ["billion kcals each month", "thousand tons each month", "thousand tons each month"], rule,
                      f"{meth}:units", f"demand is labelled {labs}", loc=loc(FAB, fn))
        if n == 0:
            raise AnalysisError(f"{meth}: no completing path")
    # durations come from the configured delays, biofuel/feed not crossed, returned as (biofuels, feed)
    g = index.func(FAB, "FeedAndBiofuels.get_biofuels_and_feed_from_delayed_shutoff")
    inl = Inliner(g)
    cp = g.args.args[1].arg if len(g.args.args) > 1 else "constants_for_params"
    rets = [r for r in g.body if isinstance(r, ast.Return)]
    got = [inl.src(e) for e in rets[0].value.elts] if len(rets) == 1 and isinstance(rets[0].value, ast.Tuple) else []
    want = [f"self.get_biofuel_usage({cp}['DELAY']['BIOFUEL_SHUTOFF_MONTHS'])", f"self.get_feed_usage({cp}['DELAY']['FEED_SHUTOFF_MONTHS'])"]
    if got != want and got == [w.replace("['DELAY']", "") for w in want]:
        # the routine is handed the DELAY sub-table itself: then every caller must hand exactly that over
        from .core import bind_args as _bad
        sites_ = [c for rel_ in index.py_files("src") for c in ast.walk(index.module(rel_)) if isinstance(c, ast.Call)
                  and isinstance(c.func, ast.Attribute) and c.func.attr == "get_biofuels_and_feed_from_delayed_shutoff"]
        if sites_ and all(norm_src(_bad(c, g).get(cp) or ast.Constant(value=None)).endswith("['DELAY']") for c in sites_):
            got = want
    rep.check(got == want, rule, "durations:from-configured-delays", "the schedules are not built from DELAY[BIOFUEL|FEED_SHUTOFF_MONTHS] respectively",
              loc=loc(FAB, g), detail=str(got))
    rep.check(len(got) == 2 and got[0].startswith("self.get_biofuel_usage(") and got[1].startswith("self.get_feed_usage("), rule, "returns:(biofuels, feed)",
              "get_biofuels_and_feed_from_delayed_shutoff no longer returns (biofuels, feed)", loc=loc(FAB, g))
    rep.require_min(rule, 10)


# ------------------------------------------------------------------------------------------------ WIRE


def wire(index, rep, flow):
    rule = "C03.WIRE"
    ras = index.func(RUN, "ScenarioRunner.run_and_analyze_scenario")
    # the validators are found by what they do: a Validator routine called with a `round` here, holding (helpers read through) an assertion
    #     all(-1e-6 < (DEMAND - Validator.sum_<feed|biofuel>_sources(RESULTS) in monthly units x (1 - epsilon)).kcals)
    # on two of its parameters - one routine per use, or one routine checking both
    KIND = {"sum_feed_sources": ("feed", "src:get_feed_usage"), "sum_biofuel_sources": ("biofuel", "src:get_biofuel_usage")}
    from .core import bind_args as _baw
    vmethods = index.methods(VAL, "Validator")

    def validator_checks(name):
        fn0 = vmethods[name]
        fn = index.flat_func(VAL, "Validator." + name, keep=tuple(KIND))
        params = [a.arg for a in fn0.args.args]
        eps_default = None
        if "epsilon" in params and fn0.args.defaults:
            i_ = params.index("epsilon") - (len(params) - len(fn0.args.defaults))
            if i_ >= 0 and isinstance(fn0.args.defaults[i_], ast.Constant):
                eps_default = fn0.args.defaults[i_].value
        inl_v = Inliner(fn)
        out = []
        for a_ in [x for x in walk_no_nested(fn) if isinstance(x, ast.Assert)]:
            t = a_.test
            inner = None
            if isinstance(t, ast.Call) and dotted(t.func) == "np.all" and len(t.args) == 1:
                inner = t.args[0]
            elif isinstance(t, ast.Call) and isinstance(t.func, ast.Attribute) and t.func.attr == "all" and not t.args:
                inner = t.func.value
            if not (isinstance(inner, ast.Compare) and len(inner.ops) == 1 and isinstance(inner.ops[0], (ast.Lt, ast.LtE))):
                continue
            try:
                bound = float(ast.literal_eval(inner.left))
            except Exception:
                continue
            e_ = inl_v.at(a_).expr(inner.comparators[0])
            if not (isinstance(e_, ast.Attribute) and e_.attr == "kcals" and isinstance(e_.value, ast.BinOp) and isinstance(e_.value.op, ast.Sub)):
                continue
            demand = norm_src(e_.value.left)
            used = norm_src(e_.value.right).replace(" ", "")
            for summer, (kind, src_) in KIND.items():
                for res in params:
                    tot = f"Validator.{summer}({res})"
                    if used in (f"{tot}.in_units_bil_kcals_thou_tons_thou_tons_per_month()*(1-epsilon)",
                                f"(1-epsilon)*{tot}.in_units_bil_kcals_thou_tons_thou_tons_per_month()") and demand in params:
                        out.append(dict(kind=kind, src=src_, demand=demand, results=res, ok=-1e-6 <= bound <= 0 and eps_default is not None
                                        and eps_default <= 1e-4, fn=fn0))
        return out

    seen = {}
    inl_ras = Inliner(ras)
    called = {}
    for c in walk_no_nested(ras):
        if isinstance(c, ast.Call) and isinstance(c.func, ast.Attribute) and dotted(c.func.value) == "Validator" and c.func.attr in vmethods \
                and any(k.arg == "round" for k in c.keywords):
            called.setdefault(c.func.attr, []).append(c)
    checks_of = {n_: validator_checks(n_) for n_ in called}
    for name, calls in called.items():
        for c in calls:
            rnd = [k.value.value for k in c.keywords if k.arg == "round" and isinstance(k.value, ast.Constant)]
            rnd = rnd[0] if rnd else None
            bound_ = _baw(c, vmethods[name], method=False)
            for chk in checks_of[name]:
                kind = chk["kind"]
                tag = f"{kind}-use below {kind} demand"
                d_e, r_e = bound_.get(chk["demand"]), bound_.get(chk["results"])
                org = flow.origin(ras, d_e, before=c.lineno) if d_e is not None else {"?"}
                res = inl_ras.at(c).src(r_e) if r_e is not None else "?"   # the definition reaching this call
                seen.setdefault(kind, {})[rnd] = (org, res, c)
                rep.check(org == {chk["src"]}, rule, f"{tag}[round {rnd}]:demand-provenance",
                          f"the demand passed to the validator originates from {sorted(org)}, expected {chk['src']} "
                          "(feed and biofuel demand crossed somewhere along the tuple hand-offs)", loc=loc(RUN, c))
                rep.check(res.startswith(f"self.run_round_{rnd}("), rule, f"{tag}[round {rnd}]:results-of-that-round",
                          f"round {rnd} is validated on {res[:60]}", loc=loc(RUN, c))
    for kind in ("feed", "biofuel"):
        tag = f"{kind}-use below {kind} demand"
        rounds = set(seen.get(kind, {}))
        rep.check(rounds == {1, 2, 3}, rule, f"{tag}:every-round", f"use is validated against demand only in rounds {sorted(map(str, rounds))}",
                  loc=loc(RUN, ras))
        if 3 in seen.get(kind, {}):
            c = seen[kind][3][2]
            st = c
            while not isinstance(getattr(st, "_parent", None), ast.FunctionDef):
                st = st._parent
            rep.check(st in ras.body, rule, f"{tag}[round 3]:unconditional", "the final round's check is conditional", loc=loc(RUN, c))
    # placement: round-k check follows the call that produced round k's results
    def line_of(text):
        ls = [s.lineno for s in walk_no_nested(ras) if isinstance(s, ast.Assign) and text in norm_src(s.value)]
        return min(ls) if ls else None

    for kind in ("feed", "biofuel"):
        tag = f"{kind}-use below {kind} demand"
        for rnd, producer in ((1, "self.run_round_1("), (2, "self.run_round_2("), (3, "self.run_round_3(")):
            if rnd in seen.get(kind, {}):
                c = seen[kind][rnd][2]
                pl = line_of(producer)
                rep.check(pl is not None and pl < c.lineno, rule, f"{tag}[round {rnd}]:after-the-round",
                          "the validator is called before the round it validates", loc=loc(RUN, c))
    # the validators raise and compare the right way round
    for kind, summer, attrs in (("feed", "sum_feed_sources", ["cell_sugar_feed", "scp_feed", "seaweed_feed", "outdoor_crops_feed", "stored_food_feed"]),
                                ("biofuel", "sum_biofuel_sources",
                                 ["cell_sugar_biofuels", "scp_biofuels", "seaweed_biofuels", "outdoor_crops_biofuels", "stored_food_biofuels"])):
        chks = [ch for n_ in checks_of for ch in checks_of[n_] if ch["kind"] == kind]
        rep.check(bool(chks) and all(ch["ok"] for ch in chks), rule, f"{kind}-use below {kind} demand:raises-on-excess",
                  "no validator called per round asserts  demand - used x (1 - eps) > -1e-6  (eps <= 1e-4) on the round's total use: an excess would "
                  "pass silently", loc=loc(VAL, chks[0]["fn"]) if chks else VAL)
        sf = index.func(VAL, "Validator." + summer)
        lists = [[str_const(e) for e in n.elts] for n in ast.walk(sf) if isinstance(n, ast.List) and n.elts and all(str_const(e) for e in n.elts)]
        rep.check(sorted(attrs) in [sorted(l) for l in lists], rule, f"{summer}:five-sources",
                  f"{summer} does not add up exactly the five human-edible sources {attrs}", loc=loc(VAL, sf))
    # those attributes are the extracted feed/biofuel series (positional binding in interpret_results)
    ir = index.func(INT, "Interpreter.interpret_results")
    cf = index.func(INT, "Interpreter.calculate_feed_and_biofuels")
    call = [c for c in walk_no_nested(ir) if isinstance(c, ast.Call) and dotted(c.func) == "self.calculate_feed_and_biofuels"]
    # evaluated: the call as written in interpret_results (positional or keyword binding), with the extractor opaque; afterwards each
    # Interpreter feed/biofuel attribute must be the like-named extracted series in percent fed
    ok = len(call) == 1
    selfobj = Obj(index.cls(INT, "Interpreter"), {}, "self")
    if ok:
        it_i = Interp()
        it_i.classes = {"Interpreter": index.cls(INT, "Interpreter")}
        exname = None
        for n_ in ast.walk(call[0]):
            if isinstance(n_, ast.Attribute) and isinstance(n_.value, ast.Name) and n_.attr.endswith(("_feed", "_biofuel")):
                exname = n_.value.id
        try:
            it_i.eval(call[0], {"self": selfobj, exname or "extracted_results": Path(("ex",))})
        except (Unsupported, Abort) as e:
            raise AnalysisError(f"calculate_feed_and_biofuels outside the analysed fragment: {e}")
    foods5 = ["cell_sugar", "scp", "seaweed", "outdoor_crops", "stored_food"]

    def is_series(v, food, use):
        return isinstance(v, Path) and v.parts == ("ex", f"{food}_{use}", "in_units_percent_fed()")

    ok_pos = ok and all(is_series(selfobj.attrs.get(f"{f}_feed"), f, "feed") for f in foods5)
    rep.check(ok_pos, rule, "interpreter:feed/biofuel-series-bound-by-position",
              "an extracted feed series does not reach the Interpreter's like-named feed attribute (arguments and parameters of "
              "calculate_feed_and_biofuels crossed)", loc=loc(INT, ir))
    ok_b = ok and all(is_series(selfobj.attrs.get(f"{f}_biofuels"), f, "biofuel") for f in foods5)
    rep.check(ok_b, rule, "interpreter:feed/biofuel-attributes", "an Interpreter feed/biofuel attribute is filled from a different food or use", loc=loc(INT, cf))
    rep.require_min(rule, 20)


# ------------------------------------------------------------------------------------------------ CEIL / PIN / R3


def ceil(index, rep, flow):
    rule = "C03.CEIL"
    fn = index.func(PARAMS, "Parameters.compute_parameters_second_round")
    for key, want in (("max_biofuel_that_could_be_used", {"src:get_biofuel_usage"}),):
        st = [s for s in walk_no_nested(fn) if isinstance(s, ast.Assign) and isinstance(s.targets[0], ast.Subscript)
              and str_const(s.targets[0].slice) == key]
        if len(st) != 1:
            raise AnalysisError(f"compute_parameters_second_round: store to time_consts[{key!r}] not found")
        org = flow.origin(fn, st[0].value, before=st[0].lineno)
        rep.check(org == want, rule, f"round2:{key}", f"the biofuel ceiling of the feed-maximising round originates from {sorted(org)}, "
                  f"expected the biofuel demand schedule", loc=loc(PARAMS, st[0]))
    # the feed ceiling is the feed the round-2 herd ate when offered the feed demand
    hf = herd_feeds(index, fn)
    if len(hf) != 1:
        raise AnalysisError("compute_parameters_second_round: CalculateFeedAndMeat(...) not found")
    herd, af = [hf[0][0]], [hf[0][1]]
    org = flow.origin(fn, af[0], before=herd[0].lineno) if af else {"?"}
    rep.check(org == {"src:get_feed_usage"}, rule, "round2:herd-offered-the-feed-demand",
              f"the round-2 herd is offered {sorted(org)} instead of the feed demand schedule", loc=loc(PARAMS, herd[0]))
    st = [s for s in walk_no_nested(fn) if isinstance(s, ast.Assign) and isinstance(s.targets[0], ast.Subscript)
          and str_const(s.targets[0].slice) == "max_feed_that_could_be_used"]
    ok = len(st) == 1
    if ok:
        org = flow.origin(fn, st[0].value, before=st[0].lineno)
        ok = org == {"src:create_feed_food_from_kcals"}
    rep.check(ok, rule, "round2:max_feed = feed eaten by that herd", "the feed ceiling is not the feed the round-2 herd used", loc=loc(PARAMS, fn),
              detail=str(sorted(org)) if st else "")
    im = index.func(PARAMS, "Parameters.init_meat_and_dairy_and_feed_from_breeding")
    from .core import param_role
    herd_p = param_role(im, r"(\w+)\.feed_used\b")
    fab_p = param_role(im, r"(\w+)\.create_feed_food_from_kcals\(")
    rets_im = [r for r in im.body if isinstance(r, ast.Return) and isinstance(r.value, ast.Tuple)]
    slot0 = Inliner(im).src(rets_im[-1].value.elts[0]) if rets_im else ""
    # slot 0 of what the function returns (the feed charged) is create_feed_food_from_kcals(<herd object parameter>.feed_used)
    rep.check(herd_p is not None and fab_p is not None and slot0 == f"{fab_p}.create_feed_food_from_kcals({herd_p}.feed_used)", rule,
              "feed_used = herd.feed_used", "feed_used is no longer the herd object's feed_used series", loc=loc(PARAMS, im))
    rep.require_min(rule, 4)


def pin(index, rep, flow):
    rule = "C03.PIN"
    rr2 = index.func(RUN, "ScenarioRunner.run_round_2")
    call = [c for c in walk_no_nested(rr2) if isinstance(c, ast.Call) and dotted(c.func) == "self.run_optimizer"]
    if len(call) != 1:
        raise AnalysisError("run_round_2: run_optimizer call not found")
    from .core import bind_args as _ba0
    kw = _ba0(call[0], index.func(RUN, "ScenarioRunner.run_optimizer"))   # by parameter, however the call spells its arguments
    ok = "min_human_food_consumption" in kw and "optimization_type" in kw and norm_src(kw.get("optimization_type")) == "'to_animals'"
    org = flow.origin(rr2, kw["min_human_food_consumption"], before=call[0].lineno) if ok else {"?"}
    rep.check(ok and org == {"src:calculate_human_consumption_for_min_needs"}, rule, "round2:pins-the-round1-hand-off",
              f"the human consumption pinned in round 2 originates from {sorted(org)}, expected calculate_human_consumption_for_min_needs",
              loc=loc(RUN, call[0]))
    inl2 = Inliner(rr2)
    from .core import args_by_ref_names as _abn, ref_params as _rp
    ro_ = index.func(RUN, "ScenarioRunner.run_optimizer")
    args = [inl2.src(a) for a in _abn(call[0], ro_, ["consts_for_optimizer", "time_consts"]) if a is not None]
    okc = len(args) == 2 and all(".compute_parameters_second_round(" in a for a in args) and args[0].endswith("[0]") and args[1].endswith("[1]") \
        and args[0][:-3] == args[1][:-3]
    rep.check(okc, rule, "round2:uses-round2-constants",
              f"round 2 is not solved with (constants, monthly constants) returned by compute_parameters_second_round: {[a[:70] for a in args]}", loc=loc(RUN, call[0]))
    ro = index.func(RUN, "ScenarioRunner.run_optimizer")
    from .core import find_call as _fc, ctor_values
    fc2 = _fc(index.methods(RUN, "ScenarioRunner"), ro, "optimize_feed_to_animals")   # in run_optimizer, or in a dispatch helper it calls
    of = index.func(OPT, "Optimizer.optimize_feed_to_animals")
    oi = index.func(OPT, "Optimizer.__init__")
    RC, RT, RH = _rp(ro, ["consts_for_optimizer", "time_consts", "optimization_type", "min_human_food_consumption"])[0:4:1][0:2] + \
        [_rp(ro, ["consts_for_optimizer", "time_consts", "optimization_type", "min_human_food_consumption"])[3]]
    ok = fc2 is not None
    if ok:
        ofp = [a.arg for a in of.args.args][1:]
        from .core import bind_args as _ba3
        b3 = _ba3(fc2[1], of)
        # the hand-off goes to the parameter that takes it; the two constant tables either go along (and then are run_optimizer's own) or the
        # routine no longer takes them (it uses the ones the Optimizer was constructed with - checked next)
        hand_p = "min_human_food_consumption" if "min_human_food_consumption" in ofp else (ofp[2] if len(ofp) == 3 else (ofp[0] if len(ofp) == 1 else None))
        ok = hand_p is not None and hand_p in b3 and fc2[2].src(b3[hand_p]) == RH
        for nm_, want_ in (("consts_for_optimizer", RC), ("time_consts", RT)):
            if nm_ in ofp:
                ok = ok and nm_ in b3 and fc2[2].src(b3[nm_]) == want_
            elif len(ofp) == 3 and hand_p != "min_human_food_consumption":
                i_ = 0 if nm_ == "consts_for_optimizer" else 1
                ok = ok and ofp[i_] in b3 and fc2[2].src(b3[ofp[i_]]) == want_
        ctor_e = fc2[2].expr(fc2[1].func.value)
        got2 = _abn(ctor_e, oi, ["consts_for_optimizer", "time_consts"]) if isinstance(ctor_e, ast.Call) and dotted(ctor_e.func) == "Optimizer" else [None, None]
        ok = ok and None not in got2 and [norm_src(a) for a in got2] == [RC, RT]
    rep.check(ok, rule, "run_optimizer:passes-hand-off", "run_optimizer does not pass the hand-off to optimize_feed_to_animals", loc=loc(RUN, ro))
    st = [s for s in of.body if isinstance(s, ast.Assign) and norm_src(s.targets[0]) == "self.time_consts['min_human_food_consumption']"]
    ofp_ = [a.arg for a in of.args.args][1:]
    hand_name = "min_human_food_consumption" if "min_human_food_consumption" in ofp_ else (ofp_[2] if len(ofp_) == 3 else (ofp_[0] if len(ofp_) == 1 else "?"))
    rep.check(len(st) == 1 and norm_src(st[0].value) == hand_name, rule, "optimizer:stores-hand-off",
              "optimize_feed_to_animals does not store its hand-off argument where the pins read it", loc=loc(OPT, of))
    # the hand-off was computed from round 1's interpreted results
    c2r = index.func(PARAMS, "Parameters.compute_parameters_second_round")
    c = [x for x in walk_no_nested(c2r) if isinstance(x, ast.Call) and dotted(x.func) == "self.calculate_human_consumption_for_min_needs"]
    chm = index.func(PARAMS, "Parameters.calculate_human_consumption_for_min_needs")
    r1_results = _rp(c2r, ["constants_inputs", "constants_out_round1", "time_consts_round1", "interpreted_results_round1"])[3]
    got_r1 = _abn(c[0], chm, ["constants_inputs", "interpreted_results_round1"])[1] if len(c) == 1 else None
    ok = got_r1 is not None and norm_src(got_r1) == r1_results
    rep.check(ok, rule, "hand-off:from-round1-results", "the hand-off is not computed from round 1's results", loc=loc(PARAMS, c2r))
    call1 = [x for x in walk_no_nested(rr2) if isinstance(x, ast.Call) and isinstance(x.func, ast.Attribute) and x.func.attr == "compute_parameters_second_round"]
    from .core import pos_of as _pos
    rr2_params = [a.arg for a in rr2.args.args][1:]

    def rr2_name(name, ref_index):
        i_ = _pos(rr2, name, ref_index, 8)
        return rr2_params[i_] if i_ is not None and i_ < len(rr2_params) else None
    want4 = [rr2_name("constants_for_params", 1), rr2_name("consts_for_optimizer_round1", 4), rr2_name("time_consts_round1", 5),
             rr2_name("interpreted_results_round1", 2)]
    got4 = _abn(call1[0], c2r, ["constants_inputs", "constants_out_round1", "time_consts_round1", "interpreted_results_round1"]) if len(call1) == 1 else [None]
    ok = None not in got4 and None not in want4 and [norm_src(a) for a in got4] == want4
    rep.check(ok, rule, "round2:parameters-from-round1", "compute_parameters_second_round does not receive round 1's constants and results by position",
              loc=loc(RUN, rr2))
    rep.require_min(rule, 6)


def herd_feeds(index, fn):
    """the herd simulations a function starts: [(call node, expression handed over as available_feed, in the function's own terms)] for
    CalculateFeedAndMeat(...) constructions in the function itself or in a same-class helper it calls whose every exit returns one"""
    from .core import HelperView, bind_args
    methods = index.methods(PARAMS, "Parameters")
    cfm = index.func(ANIMALS, "CalculateFeedAndMeat.__init__") if ANIMALS else None
    out = []
    inl = Inliner(fn)
    for c in walk_no_nested(fn):
        if not isinstance(c, ast.Call):
            continue
        if dotted(c.func) == "CalculateFeedAndMeat":
            b = bind_args(c, cfm) if cfm is not None else {k.arg: k.value for k in c.keywords}
            if "available_feed" in b:
                out.append((c, b["available_feed"]))
        elif isinstance(c.func, ast.Attribute) and isinstance(c.func.value, ast.Name) and c.func.value.id == "self" and c.func.attr in methods \
                and methods[c.func.attr] is not fn:
            h = methods[c.func.attr]
            rets = [r for r in walk_no_nested(h) if isinstance(r, ast.Return)]
            if rets and all(isinstance(r.value, ast.Call) and dotted(r.value.func) == "CalculateFeedAndMeat" for r in rets):
                class _Id:
                    def expr(self, e):
                        from .core import _strip_parents
                        return _strip_parents(e)
                hv = HelperView(_Id(), c, h)
                for r in rets:
                    b = bind_args(r.value, cfm) if cfm is not None else {k.arg: k.value for k in r.value.keywords}
                    if "available_feed" in b:
                        out.append((c, hv.expr(b["available_feed"])))
    return out


def herd_siblings(index, rep):
    """the herd simulations of the three rounds are the same model run on different feed: every construction binds the same parameters of
    CalculateFeedAndMeat, and all but the feed (and grass object) with the same expressions - a round whose herd is built without the scenario
    constants (head-count overrides, meat per animal) is a different herd"""
    from .core import bind_args
    rule = "C03.HERD"
    cfm = index.func(ANIMALS, "CalculateFeedAndMeat.__init__")
    sites = []
    for q in ("Parameters.init_meat_and_dairy_and_feed_from_breeding_and_subtract_feed_biofuels_round1", "Parameters.compute_parameters_second_round",
              "Parameters.compute_parameters_third_round"):
        fn = index.func(PARAMS, q)
        methods = index.methods(PARAMS, "Parameters")
        inl = Inliner(fn, max_depth=0)
        found = [c for c in walk_no_nested(fn) if isinstance(c, ast.Call) and dotted(c.func) == "CalculateFeedAndMeat"]
        for c in walk_no_nested(fn):       # one construction-helper level down
            if isinstance(c, ast.Call) and isinstance(c.func, ast.Attribute) and isinstance(c.func.value, ast.Name) and c.func.value.id == "self" \
                    and c.func.attr in methods and methods[c.func.attr] is not fn:
                found += [x for x in walk_no_nested(methods[c.func.attr]) if isinstance(x, ast.Call) and dotted(x.func) == "CalculateFeedAndMeat"]
        seen = set()
        for c in found:
            if id(c) in seen:
                continue
            seen.add(id(c))
            b = bind_args(c, cfm)
            sites.append((q.split(".")[1], c, {k_: norm_src(v_) for k_, v_ in b.items()}))
    if len(sites) < 3:
        raise AnalysisError(f"only {len(sites)} herd constructions found (expected one per round)")
    keysets = [frozenset(b) for _, _, b in sites]
    majority = max(set(keysets), key=keysets.count)
    for q, c, b in sites:
        missing = sorted(majority - set(b))
        extra = sorted(set(b) - majority)
        rep.check(not missing and not extra, rule, f"{q}: herd built with the same inputs as in the other rounds",
                  f"this round's herd simulation is constructed without {missing or ''}{' and with extra ' + str(extra) if extra else ''}: the rounds simulate "
                  "different herds (e.g. head-count overrides of the scenario reach some rounds only)", loc=loc(PARAMS, c))
    for p_ in sorted(majority):
        if "feed" in p_ or "grass" in p_:
            continue
        vals = {b[p_].replace("constants_for_params", "constants_inputs") for _, _, b in sites if p_ in b}
        rep.check(len(vals) == 1, rule, f"herd parameter {p_}: same value in every round", f"the rounds pass different {p_}: {sorted(vals)}",
                  loc=loc(PARAMS, sites[0][1]))
    rep.require_min(rule, 4)


def bump_slots(index):
    """the bump's own slots: (function, [(series parameter, ceiling parameter) per result]).  Result k is the series it equals when nothing is
    asked for (the routine evaluated with a zero increase returns its first two inputs unchanged); the ceiling of a series is the other
    parameter named for the same use (biofuel / feed)."""
    import ast as _ast
    from .symx import Interp, Obj, Path, Unsupported, explore, Abort
    from .rat import Rat
    bump_fn = index.func(PARAMS, "Parameters.increase_biofuels_then_feed")
    cls = index.cls(PARAMS, "Parameters")
    from .core import own_params
    bparams = own_params(bump_fn)
    bump_is_method = len(bparams) < len(bump_fn.args.args)
    inc_p = [p_ for p_ in bparams if "increase" in p_]
    slots = []
    if len(inc_p) == 1:
        A = {p_: (Rat.const(0) if p_ == inc_p[0] else Rat.atom((p_,))) for p_ in bparams}

        def run_el(it):
            it.classes = {"Parameters": cls}

            def hk(interp, d, a, kw, node):
                if d in ("np.minimum", "np.maximum") and len(a) == 2 and all(isinstance(x, (Rat, Path)) for x in a):
                    x, y = interp.to_rat(a[0]), interp.to_rat(a[1])
                    le = interp.truth(interp.compare(_ast.LtE(), x, y, node), node)
                    return (x if le else y) if d == "np.minimum" else (y if le else x)
                if d == "np.where" and len(a) == 3:
                    return a[1] if interp.truth(a[0], node) else a[2]
                if d in ("np.zeros", "np.zeros_like"):
                    return Rat.const(0)
                if d == "len":
                    return Rat.atom(("len",))
                return NotImplemented

            it.call_hook = hk
            return it.call_function(bump_fn, [A[p_] for p_ in bparams], {}, Obj(cls, {}, "self") if bump_is_method else None)

        try:
            leaves = [x for x in explore(run_el, month_classes=False) if not isinstance(x[2], Abort)]
        except Unsupported:
            leaves = []
        # within the demands (series <= ceiling) a zero request changes nothing: the leaf taken under those conditions names the series
        per_slot = [set(), set()]
        for _, dec, res, it in leaves:
            if isinstance(res, tuple) and len(res) == 2:
                for k_ in range(2):
                    v = it.to_rat(res[k_])
                    m_ = [p_ for p_ in bparams if p_ != inc_p[0] and v == Rat.atom((p_,))]
                    if m_:
                        per_slot[k_].add(m_[0])
        for k_ in range(2):
            base = per_slot[k_].pop() if len(per_slot[k_]) == 1 else None
            use = "biofuel" if base and "biofuel" in base else "feed" if base and "feed" in base else None
            ceil = [p_ for p_ in bparams if use and use in p_ and p_ != base]
            slots.append((base, ceil[0] if len(ceil) == 1 else None))
    return bump_fn, slots


def r3(index, rep, flow):
    rule = "C03.R3"
    fn = index.func(PARAMS, "Parameters.compute_parameters_third_round")
    from .core import find_call
    fc = find_call(index.methods(PARAMS, "Parameters"), fn, "increase_biofuels_then_feed")
    if fc is None:
        raise AnalysisError("compute_parameters_third_round: increase_biofuels_then_feed call not found (also not one helper level down)")
    host, c, inl = fc
    st = c
    while not isinstance(st, ast.Assign):
        st = getattr(st, "_parent", None)
        if st is None:
            raise AnalysisError("bump result is not assigned")
    from .lanes import role_of
    params = [a.arg for a in fn.args.args]
    tg = [inl.src(e) for e in st.targets[0].elts] if isinstance(st.targets[0], ast.Tuple) else []
    if not tg:
        # the pair kept whole first (`t = bump(...); x.kcals = t[0]; y.kcals = t[1]`): the stores that receive result k of this call
        host_inl = Inliner(host)
        call_txt = host_inl.src(c)
        by_slot = {}
        for t_, v_ in host_inl.stores:
            vt = host_inl.src(v_)
            if vt.startswith(call_txt + "[") and vt.endswith("]") and vt[len(call_txt) + 1:-1].isdigit():
                by_slot.setdefault(int(vt[len(call_txt) + 1:-1]), []).append(inl.src(t_))
        if sorted(by_slot) == [0, 1] and all(len(v_) == 1 for v_ in by_slot.values()):
            tg = [by_slot[0][0], by_slot[1][0]]
    # the callee's own slots, from its body: result k = X_k + ..., potential increase of X_k = minimum(X_k + inc, C_k) - X_k
    from .core import bind_args
    bump_fn, slots = bump_slots(index)
    bound = bind_args(c, bump_fn)
    args = [inl.src(a) for a in bound.values()]

    def base_param(e):
        while isinstance(e, (ast.Attribute, ast.Call, ast.Subscript)):
            e = e.func if isinstance(e, ast.Call) else e.value
        return e.id if isinstance(e, ast.Name) and e.id in params else None

    inl_f = Inliner(fn)
    r2 = [p_ for p_ in params if "interpreted_results" in p_ and role_of(p_, ("round1", "round2", "round3")) == "round2"]
    ok = len(tg) == 2 and len(slots) == 2 and len(r2) == 1 and all(x_ is not None and c_ is not None and x_ in bound and c_ in bound for x_, c_ in slots)
    seen_roles = set()
    if ok:
        for k_, (x_, c_) in enumerate(slots):
            if inl.src(bound[x_]) != tg[k_]:
                ok = False  # result k is not stored back into the series it was computed from
                break
            if tg[k_].startswith(f"{r2[0]}.biofuels_sum_kcals_equivalent.") and tg[k_].endswith(".kcals"):
                role = "biofuel"
            elif tg[k_].startswith("self.init_meat_and_dairy_and_feed_from_breeding(") and tg[k_].endswith("[0].kcals"):
                role = "feed"
            else:
                ok = False
                break
            seen_roles.add(role)
            pc = base_param(inl.expr(bound[c_]))
            if pc is None or role_of(pc, ("feed", "biofuel")) != role or "demand" not in pc:
                ok = False  # the ceiling of this series is not the demand of the same use
                break
        ok = ok and seen_roles == {"biofuel", "feed"}
    inl = inl_f
    rep.check(ok, rule, "bump:(biofuel, feed) slots and ceilings",
              f"the bump is not applied as (biofuel, feed) = f(biofuel, feed, inc, biofuel demand, feed demand, ...): targets {tg}, args {args[:5]}",
              loc=loc(PARAMS, c))
    org_f = flow.origin(fn, ast.Name(id="feed_demand", ctx=ast.Load()))
    org_b = flow.origin(fn, ast.Name(id="biofuels_demand", ctx=ast.Load()))
    # in the caller chain these parameters are the demand schedules (positional check in run_round_3 / run_and_analyze_scenario)
    rr3 = index.func(RUN, "ScenarioRunner.run_round_3")
    c3 = [x for x in walk_no_nested(rr3) if isinstance(x, ast.Call) and isinstance(x.func, ast.Attribute) and x.func.attr == "compute_parameters_third_round"]
    p3 = [a.arg for a in fn.args.args][1:]
    from .core import bind_args as _bind
    b3 = _bind(c3[0], fn) if len(c3) == 1 else {}
    ok = len(c3) == 1 and set(b3) == set(p3)
    if ok:
        # every (demand / round-k) parameter of the third round receives run_round_3's parameter of the same role
        rp3 = {a.arg for a in rr3.args.args}
        for p_ in p3:
            if role_of(p_, ("feed", "biofuel")) and "demand" in p_ or role_of(p_, ("round1", "round2", "round3")):
                a_ = norm_src(b3[p_])
                ok = ok and a_ in rp3
                for fam in (("feed", "biofuel"), ("round1", "round2", "round3")):
                    if role_of(p_, fam):
                        ok = ok and role_of(a_, fam) == role_of(p_, fam)
                if "demand" in p_:
                    ok = ok and "demand" in a_
    rep.check(ok, rule, "run_round_3 -> third round: positional binding", "run_round_3 does not pass demands/results to the parameters of the same role",
              loc=loc(RUN, rr3))
    ras = index.func(RUN, "ScenarioRunner.run_and_analyze_scenario")
    cr = [x for x in walk_no_nested(ras) if isinstance(x, ast.Call) and dotted(x.func) == "self.run_round_3"]
    pr = [a.arg for a in rr3.args.args][1:]
    br = _bind(cr[0], rr3) if len(cr) == 1 else {}
    ok = len(cr) == 1 and "feed_demand" in br and "biofuels_demand" in br
    if ok:
        of_ = flow.origin(ras, br["feed_demand"], before=cr[0].lineno)
        ob_ = flow.origin(ras, br["biofuels_demand"], before=cr[0].lineno)
        ok = of_ == {"src:get_feed_usage"} and ob_ == {"src:get_biofuel_usage"}
    rep.check(ok, rule, "run_and_analyze -> run_round_3: demand slots", "the demands reaching round 3 are crossed or not the demand schedules", loc=loc(RUN, ras))
    # what round 3 charges
    rets = [r for r in fn.body if isinstance(r, ast.Return) and isinstance(r.value, ast.Tuple)]
    tc_name = norm_src(rets[-1].value.elts[1]) if rets and len(rets[-1].value.elts) >= 2 else None
    stores = {str_const(s.targets[0].slice): inl.src(s.value) for s in fn.body if isinstance(s, ast.Assign) and isinstance(s.targets[0], ast.Subscript)
              and norm_src(s.targets[0].value) == tc_name}
    okc = len(r2) == 1 and (stores.get("feed") or "").startswith("self.init_meat_and_dairy_and_feed_from_breeding(") and (stores.get("feed") or "").endswith("[0]") \
        and (stores.get("biofuel") or "").startswith(f"{r2[0]}.biofuels_sum_kcals_equivalent.")
    rep.check(okc, rule, "round3:charges",
              f"round 3 does not charge (feed the round-3 herd used, biofuel found in round 2): feed={stores.get('feed', '')[:60]}, biofuel={stores.get('biofuel', '')[:60]}",
              loc=loc(PARAMS, fn))
    rep.check(okc and "in_units_bil_kcals_thou_tons_thou_tons_per_month()" in stores.get("biofuel", ""), rule,
              "round3:biofuel-from-round2", "round 3's biofuel charge is not the biofuel found in round 2", loc=loc(PARAMS, fn))
    afn = [e_ for _, e_ in herd_feeds(index, fn)]
    ok = len(afn) == 1 and len(r2) == 1
    fs = []
    if ok:
        if isinstance(afn[0], ast.BinOp) and isinstance(afn[0].op, ast.Mult) and isinstance(afn[0].right, ast.Constant) \
                and isinstance(afn[0].right.value, float) and 0.9 <= afn[0].right.value <= 1 and not (isinstance(afn[0].left, ast.Name) and len(inl.defs.get(afn[0].left.id, [])) > 1):
            fs = [inl.src(afn[0].left)]          # the round-2 feed scaled down by a constant <= 1
            ok = fs[0].startswith(f"{r2[0]}.feed_sum_kcals_equivalent.")
        elif isinstance(afn[0], ast.Name) and afn[0].id in inl.defs:
            nm = afn[0].id
            fs = [norm_src(d).replace(" ", "") if d is not None else "?" for d in sorted(inl.defs[nm], key=lambda d: getattr(d, "lineno", 0) if d is not None else 0)]
            ok = fs[0].startswith(f"{r2[0]}.feed_sum_kcals_equivalent.") and all(
                v.startswith(f"{r2[0]}.feed_sum_kcals_equivalent.") or (v.startswith(f"{nm}*0.9") and float(v.split("*")[1]) <= 1) for v in fs)
        else:
            fs = [inl.src(afn[0])]
            ok = fs[0].startswith(f"{r2[0]}.feed_sum_kcals_equivalent.")
    rep.check(ok, rule, "round3:herd-fed-round2-feed", "the round-3 herd is not run on the feed found in round 2 (at most scaled down)", loc=loc(PARAMS, fn),
              detail=str(fs))
    # the 20 kcal/person/day safety reduction after round 2 only lowers (clip at 0)
    rr2 = index.func(RUN, "ScenarioRunner.run_round_2")
    clips = [s for s in rr2.body if isinstance(s, ast.Assign) and "np.clip(" in norm_src(s.value)]
    ok = len(clips) == 2
    for s in clips:
        t = norm_src(s.targets[0])
        v = norm_src(s.value).replace(" ", "")
        ok = ok and v.startswith(f"np.clip({t}-") and v.endswith(",0,None)")
    rep.check(ok, rule, "round2:results-only-reduced", "the post-round-2 adjustment of feed/biofuel is not `clip(x - c, 0, None)` of the same series",
              loc=loc(RUN, rr2))
    rep.require_min(rule, 7)


def minimum(index, rep):
    """the share reserved for people before feed and biofuel: KCALS_DAILY x min(configured minimum, no-feed round's percent fed)/100
    (same evaluation as C18.CAP - the hand-off is an anchor of both properties)"""
    from . import c18
    fn = index.func(PARAMS, "Parameters.calculate_human_consumption_for_min_needs")
    c18.cap(index, rep, fn, rule="C03.MIN")


def skip(index, rep):
    """when round 2 is not run or is abandoned, the stand-in for its results that round 3 starts from carries zero feed and zero
    biofuel: nothing but what a solved round found may be charged against human-edible food"""
    rule = "C03.SKIP"
    ras = index.func(RUN, "ScenarioRunner.run_and_analyze_scenario")
    cls = index.cls(RUN, "ScenarioRunner")
    # the stand-in is found by its role: what run_round_3 is handed as round 2's results is, on every path, either what run_round_2 returned
    # or what a stand-in builder (a method of the runner or a module-level function of the file) returned; each builder call is evaluated
    from .core import pos_of as _pos_s
    rr3 = index.func(RUN, "ScenarioRunner.run_round_3")
    rr3_calls = [c for c in walk_no_nested(ras) if isinstance(c, ast.Call) and dotted(c.func) == "self.run_round_3"]
    if len(rr3_calls) != 1:
        raise AnalysisError("run_and_analyze_scenario: expected one call of run_round_3")
    i_r2 = _pos_s(rr3, "interpreted_results_round2", 6, 15)
    from .core import bind_args as _bas
    b_ = _bas(rr3_calls[0], rr3)
    p_r2 = [a.arg for a in rr3.args.args][1:][i_r2] if i_r2 is not None and i_r2 < len(rr3.args.args) - 1 else None
    handed = b_.get(p_r2)
    if not isinstance(handed, ast.Name):
        raise AnalysisError("run_round_3: the argument standing for round 2's results is not a local of run_and_analyze_scenario")
    methods_ = index.methods(RUN, "ScenarioRunner")
    modfuncs_ = {f_.name: f_ for f_ in index.module(RUN).body if isinstance(f_, ast.FunctionDef)}
    sites = []
    for st_ in walk_no_nested(ras):
        if isinstance(st_, ast.Assign) and any(isinstance(t_, ast.Name) and t_.id == handed.id for t_ in st_.targets) and isinstance(st_.value, ast.Call):
            d_ = dotted(st_.value.func) or ""
            if d_.startswith("self.") and d_[5:] in methods_ and not d_[5:].startswith("run_round"):
                sites.append((st_.value, methods_[d_[5:]], True))
            elif d_ in modfuncs_:
                sites.append((st_.value, modfuncs_[d_], False))
    if not sites:
        raise AnalysisError("run_and_analyze_scenario: no stand-in for round 2's results (zero feed requested / round 2 abandoned) was found")
    sites.sort(key=lambda t_: t_[0].lineno)
    for k, (site, fn, as_method) in enumerate(sites):
        def runit(it, site=site):
            it.classes = {"ScenarioRunner": cls}

            def hook(interp, d, a, kw, node):
                if d == "Food":
                    return Obj(None, dict(kw), "food")
                if d in ("copy.deepcopy", "copy.copy"):
                    return Obj(None, {}, "standin")
                if d in ("np.zeros", "np.zeros_like"):
                    return Rat.const(0)
                if d == "print":
                    return None
                if d and d.split(".")[-1].startswith("in_units") and isinstance(node.func, ast.Attribute):
                    recv = interp.eval(node.func.value, interp.call_env)
                    if isinstance(recv, Obj) and recv.name == "food":
                        return recv  # a unit conversion multiplies by a constant: zero stays zero
                return NotImplemented

            it.call_hook = hook
            # each parameter stands for what the call hands over: the number of months (the horizon), or an opaque object of the caller
            kwargs = {}
            for p_, e_ in _bas(site, fn, method=as_method).items():
                kwargs[p_] = Rat.atom(NSYM) if "NMONTHS" in norm_src(e_) else Obj(None, {}, "caller:" + norm_src(e_)[:30])
            return it.call_function(fn, [], kwargs, Obj(cls, {}, "self") if as_method else None)

        label = ("zero feed requested" if k == len(sites) - 1 else "round 2 abandoned") if len(sites) > 1 else "round 2 not run or abandoned"
        try:
            leaves = explore(runit, month_classes=False)
        except Unsupported as e:
            rep.violation(rule, f"stand-in[{label}]", "the stand-in for the round-2 results is not built from zero series (it depends on "
                          f"something the caller passes in: {e})", loc=loc(RUN, site))
            continue
        for _, dec, res, it in leaves:
            if isinstance(res, Abort):
                continue
            attrs = res.attrs if isinstance(res, Obj) else {}
            for attr in ("biofuels_sum_kcals_equivalent", "feed_sum_kcals_equivalent"):
                v = attrs.get(attr)
                if v is None and attr.startswith("feed"):
                    # not touched: the copy keeps the no-feed round's own feed series (zero by construction of that round, C05.ZERO)
                    rep.ok(rule, f"stand-in[{label}]: {attr} is the no-feed round's (not overwritten)")
                    continue
                zero = isinstance(v, Obj) and all(isinstance(v.attrs.get(l), Rat) and v.attrs[l].is_zero() for l in ("kcals", "fat", "protein"))
                rep.check(zero, rule, f"stand-in[{label}]: {attr} is zero",
                          f"when {label}, round 3 starts from a stand-in whose {attr} is not the zero series: feed/biofuel that no round "
                          "found affordable is charged against human-edible food", loc=loc(RUN, site))
    rep.require_min(rule, 2)


def toothless(index, rep):
    """information only: validators of the headline relation that cannot fail"""
    for name in ("assert_round3_percent_fed_not_lower_than_round1", "assert_feed_and_biofuel_used_is_zero_if_humans_are_starving"):
        fn = index.func(VAL, "Validator." + name, required=False)
        if fn is None:
            continue
        def failing(st):
            return isinstance(st, (ast.Raise,)) or (isinstance(st, ast.Assert) and not (isinstance(st.test, ast.Constant)))
        # asserts/raises reachable inside the branch that detects the violation
        inner = [s for s in walk_no_nested(fn) if isinstance(s, ast.If) and "not " in norm_src(s.test)[:4]]
        enforcing = any(failing(x) for s in inner for x in ast.walk(s))
        rep.info("C03.TOOTHLESS", f"Validator.{name}: detecting branch {'raises' if enforcing else 'only prints'} "
                 "(the headline clause of C03 has no enforcement in code)")


def describe(rep):
    rep.explanation = (
        "Static analysis of feed_and_biofuels.py, parameters.py, run_scenario.py and the validators. C03.SHUT: the demand "
        "builders are abstractly evaluated with a symbolic duration d and horizon N; each nutrient series is the run-length "
        "list [u]*d + [0]*(N-d) with u = yearly demand x the documented unit factor, d taken from DELAY[FEED|BIOFUEL_SHUTOFF_"
        "MONTHS]; so demand is exactly zero from the shut-off month on and has N entries. C03.WIRE: tuple-slot (positional) "
        "provenance shows that the first argument of the feed (biofuel) validator is the value returned by get_feed_usage "
        "(get_biofuel_usage) through the four tuple hand-offs, for rounds 1, 2 and 3, called after the round that produced the "
        "results it checks, round 3 unconditionally; the validators assert demand - used x (1-eps) > -1e-6 on the sum of the "
        "five human-edible sources. C03.CEIL/PIN/R3: the round-2 ceilings come from the same demand, round 2 pins the hand-off "
        "computed from round 1, round 3 charges round 2's feed/biofuel (only lowered by the clip, bumped within (biofuel, feed) "
        "demand in the right slots). NOT decided: the relation between the percent fed of rounds 1 and 3 and 'essentially no feed "
        "when people starve' (relations between solver outputs; the code's own guards for them only print, reported as information)."
    )
    rep.assumptions = ["the validators are not disabled by INCLUDE_FAT/INCLUDE_PROTEIN (both are unsupported and rejected by the loader)",
                       "herd feed_used <= offered feed (C07.RES)"]
