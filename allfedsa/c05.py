"""C05 — meat and milk offered to the optimiser match the simulated herds and feed.

  C05.MEAT   meat energy = sum over the five size classes of culled x per-head kcals, x (1 - distribution waste); per-head
             kcals = kcal/kg x kg/head / 1e9 of the matching class; no retail factor (the LP applies it)
  C05.CLASS  the species -> size-class chains of the three sites agree and the five arrays reach the like-named parameters
  C05.MILK   milk energy = milking herd x yield/12 x kcal/kg x (1-dist)(1-retail), herd = this round's herd object
  C05.FEEDGE round-3 feed charged = herd feed_used, only ever raised by the bump
  C05.ZERO   round 1 runs its herd on a zero feed series and charges that herd's (asserted zero) feed
The 120-month herd trajectory itself is C06/C07; 'total preserved under re-timing' is C18.RETIME."""
from __future__ import annotations

import ast
from fractions import Fraction

from .core import AnalysisError, loc, norm_src, walk_no_nested, dotted, str_const, Inliner
from .symx import Interp, Obj, Path, PList, PDict, Unsupported, explore, Abort
from .rat import Rat, K
from .flow import Flow

MD = "src/food_system/meat_and_dairy.py"
PARAMS = "src/optimizer/parameters.py"
ANIM = "src/food_system/animal_populations.py"

LANES = [
    # (parameter of calculate_meat_after_distribution_waste, per-head attribute stem, kcal/kg attr, kg/head source)
    ("init_chickens_culled", "CHICKEN", "SMALL_ANIMAL_KCALS_PER_KG", ("ci", "KG_MEAT_PER_CHICKEN")),
    ("init_pigs_culled", "PIG", "MEDIUM_ANIMAL_KCALS_PER_KG", ("ci", "KG_MEAT_PER_PIG")),
    ("init_small_animals_nonchicken_culled", "SMALL_ANIMAL", "SMALL_ANIMAL_KCALS_PER_KG", ("self", "KG_PER_SMALL_ANIMAL")),
    ("init_medium_animals_nonpigs_culled", "MEDIUM_ANIMAL", "MEDIUM_ANIMAL_KCALS_PER_KG", ("self", "KG_PER_MEDIUM_ANIMAL")),
    ("init_large_animals_culled", "LARGE_ANIMAL", "LARGE_ANIMAL_KCALS_PER_KG", ("self", "KG_PER_LARGE_ANIMAL")),
]


def run(index, rep):
    rep.guard(state5, index, rep)
    rep.guard(meat, index, rep)
    rep.guard(klass, index, rep)
    rep.guard(milk, index, rep)
    flow = Flow(index, [PARAMS, "src/food_system/feed_and_biofuels.py"], sources=("create_feed_food_from_kcals", "increase_biofuels_then_feed"))
    rep.guard(feedge, index, rep, flow)
    rep.guard(zero, index, rep, flow)
    rep.guard(lp_meat, index, rep)
    rep.guard(no_alias_writes, index, rep)


def no_alias_writes(index, rep):
    """the series a round hands to the optimiser are what the herd run produced: none of them is rewritten in place through a local that is
    the series' own storage"""
    rule = "C05.STATE"
    from .memo import series_changed_through_alias
    hits = series_changed_through_alias(index, PARAMS, "Parameters")
    for fn, st, name, src in hits:
        rep.violation(rule, f"Parameters.{fn.name}: {name} is {src}",
                      f"`{norm_src(st)[:80]}` changes `{name}` in place, and `{name}` is the stored series `{src}` itself (no copy): the series "
                      "handed to the optimiser is silently rewritten (e.g. meat of the final round minus meat of round 1)", loc=loc(PARAMS, st))
    # ... nor anywhere else in src/ (exporters, plotters, validators read the same objects the rounds hand on)
    from .memo import storage_alias_writes
    rels = [r_ for r_ in index.py_files("src") if not r_.endswith("food_system/food.py")]
    seen_st = {id(st) for _, st, _, _ in hits}
    more = [h_ for h_ in storage_alias_writes(index, rels) if id(h_[2]) not in seen_st and not (h_[0] == PARAMS and any(h_[2].lineno == st.lineno for _, st, _, _ in hits))]
    for rel, fn, st, name, src in more:
        rep.violation(rule, f"{fn.name}: {name} is {src}",
                      f"`{norm_src(st)[:80]}` changes `{name}` in place, and `{name}` is the storage of the series `{src}` of an object that lives "
                      "outside the function (no copy): the series the caller and the later rounds still hold is silently rewritten", loc=loc(rel, st))
    rep.note_analysed("files_scanned_for_in_place_writes_through_aliases", len(rels))
    if not hits and not more:
        rep.ok(rule, "no series of the hand-off tables is changed in place through an alias", detail="x = table[key].<lane> followed by x -= / x[...] = / x.fill")


def lp_meat(index, rep):
    """the last step of 'made available to people': which hand-off the LP bounds the meat of a month by"""
    from .lpdb import LPDB
    from .c01 import meat_supply_read
    db = LPDB(index)
    for opt in ("to_humans", "to_animals"):
        db.extract_resource("ADD_MEAT", opt)
    meat_supply_read(db, rep, "C05.LP")


def state5(index, rep):
    from .memo import hidden_state_rules
    hidden_state_rules(index, rep, "C05.STATE", [MD, PARAMS], "the meat and milk offered to the optimiser")


def meat(index, rep):
    rule = "C05.MEAT"
    cls = index.cls(MD, "MeatAndDairy")
    init = index.func(MD, "MeatAndDairy.initialize_this_country_animal_kcals")
    calc = index.func(MD, "MeatAndDairy.calculate_meat_after_distribution_waste")
    params = [a.arg for a in calc.args.args][1:]
    if len(params) not in (len(LANES), 1 + len(LANES)):
        raise AnalysisError(f"calculate_meat_after_distribution_waste parameters changed: {params}")
    culled = [Rat.atom(("culled", i)) for i in range(5)]
    from .core import bind_named as _bn5
    calc_a, calc_k = _bn5(calc, [("constants_inputs", Path(("ci",)))] + list(zip([l[0] for l in LANES], culled)), optional=("constants_inputs",))

    def runit(it):
        it.classes = {"MeatAndDairy": cls}
        obj = Obj(cls, {}, "self")
        it.call_function(init, [Path(("ci",))], {}, obj)
        return it.call_function(calc, list(calc_a), dict(calc_k), obj), obj

    try:
        envs = explore(runit, month_classes=False)
    except Unsupported as e:
        raise AnalysisError(f"meat energy computation outside the analysed fragment: {e}")
    it0 = Interp()
    wd = Rat.atom(K(("self", "MEAT_WASTE_DISTRIBUTION"), None))
    want = Rat.const(0)
    for (p, stem, kk, kg), c in zip(LANES, culled):
        kcalkg = it0.to_rat(Path(("self", kk)))
        kgh = it0.to_rat(Path(kg))
        want = want + c * kcalkg * kgh / Rat.const(10**9)
    want_post = want * (Rat.const(1) - wd / Rat.const(100))
    n = 0
    for _, dec, res, it in envs:
        if isinstance(res, Abort):
            continue
        (out, obj) = res
        if not (isinstance(out, tuple) and len(out) == 3):
            raise AnalysisError("calculate_meat_after_distribution_waste no longer returns (kcals, fat fraction, protein fraction)")
        n += 1
        kc = it.to_rat(out[0])
        rep.check(kc == want_post, rule, f"meat-kcals[{'>0' if any(dec.values()) else '=0'}]",
                  "meat energy is not sum(culled_i x kcal/kg_i x kg/head_i)/1e9 x (1 - distribution waste) with each herd class paired with its "
                  "own yield (a class uses another class's per-head value, a factor is missing, or retail waste is applied here too)",
                  loc=loc(MD, calc), detail=f"got {kc}")
        for i, (p, stem, kk, kg) in enumerate(LANES):
            a = obj.attrs.get("KCALS_PER_" + stem)
            wantk = it0.to_rat(Path(("self", kk))) * it0.to_rat(Path(kg)) / Rat.const(10**9)
            rep.check(isinstance(a, Rat) and a == wantk, rule, f"per-head:KCALS_PER_{stem}",
                      f"KCALS_PER_{stem} is not {kk} x {'.'.join(kg)} / 1e9", loc=loc(MD, init), detail=str(a))
        # fat/protein fractions in the positive arm: ratio of lane sums with the same pairing
        if any(dec.values()):
            for slot, nut in ((1, "FAT"), (2, "PROTEIN")):
                num = Rat.const(0)
                for (p, stem, kk, kg), c in zip(LANES, culled):
                    attr = f"{nut}_PER_{stem}" if not (nut == "PROTEIN" and stem == "MEDIUM_ANIMAL") else "PROTEIN_MEDIUM_ANIMAL"
                    v = obj.attrs.get(attr)
                    if v is None:
                        raise AnalysisError(f"per-head attribute {attr} not set by initialize_this_country_animal_kcals")
                    num = num + c * it.to_rat(v)
                den = Rat.const(0)
                for (p, stem, kk, kg), c in zip(LANES, culled):
                    den = den + c * it.to_rat(obj.attrs["KCALS_PER_" + stem])
                rep.check(it.to_rat(out[slot]) == num / den, rule, f"meat-fraction:{nut.lower()}",
                          f"{nut.lower()} fraction is not sum(culled_i x {nut.lower()}/head_i) / sum(culled_i x kcals/head_i)", loc=loc(MD, calc))
    if n < 2:
        raise AnalysisError("meat computation: expected a positive and a zero arm")
    # waste provenance
    i0 = index.func(MD, "MeatAndDairy.__init__")
    asg = {norm_src(s.targets[0]): norm_src(s.value) for s in walk_no_nested(i0) if isinstance(s, ast.Assign)}
    rep.check(asg.get("self.MEAT_WASTE_DISTRIBUTION") == "constants_for_params['WASTE_DISTRIBUTION']['MEAT']" and
              asg.get("self.MILK_WASTE_DISTRIBUTION") == "constants_for_params['WASTE_DISTRIBUTION']['MILK']" and
              asg.get("self.MILK_WASTE_RETAIL") == "constants_for_params['WASTE_RETAIL']", rule, "waste:provenance",
              "meat/milk waste factors are not the scenario's WASTE_DISTRIBUTION[MEAT|MILK] / WASTE_RETAIL", loc=loc(MD, i0))
    # monthly series: element m uses the m-th entry of each of the five arrays
    g = index.func(MD, "MeatAndDairy.get_max_slaughter_monthly_after_distribution_waste")
    call = [c for c in walk_no_nested(g) if isinstance(c, ast.Call) and dotted(c.func) == "self.calculate_meat_after_distribution_waste"]
    ok = len(call) == 1
    if ok:
        from .core import bind_args as _ba5
        from .core import Inliner as _Inl5b, plain_text as _pt5b
        holder = next((s_ for s_ in ast.walk(g) if isinstance(s_, (ast.Assign, ast.Expr, ast.AugAssign, ast.Return)) and call[0] in list(ast.walk(s_))), None)
        at5 = _Inl5b(g).at(holder) if holder is not None else None
        # arguments after copy propagation: a month's five numbers gathered in a local first read the same
        kw = {k_: (_pt5b(at5.expr(v_)) if at5 is not None else norm_src(v_)) for k_, v_ in _ba5(call[0], calc).items()}
        pairs = {"init_chickens_culled": "chickens_culled", "init_pigs_culled": "pigs_culled",
                 "init_small_animals_nonchicken_culled": "small_animals_nonchicken_culled",
                 "init_medium_animals_nonpigs_culled": "medium_animals_nonpig_culled", "init_large_animals_culled": "large_animals_culled"}
        loopvar = None
        for f in walk_no_nested(g):
            if isinstance(f, ast.For) and call[0] in list(ast.walk(f)):
                loopvar = norm_src(f.target)
                from .core import Inliner as _Inl5, plain_text as _pt5
                rng = _pt5(_Inl5(g).at(f).expr(f.iter))
        ok = loopvar is not None and all(kw.get(a) == f"{b}[{loopvar}]" for a, b in pairs.items()) and rng.startswith("range(len(")
        st = [s for s in walk_no_nested(g) if isinstance(s, ast.Assign) and isinstance(s.targets[0], ast.Subscript) and isinstance(s.targets[0].value, ast.Name)
              and norm_src(s.targets[0].slice) == loopvar]
        retn = [norm_src(r.value) for r in g.body if isinstance(r, ast.Return)]
        ok = ok and len(st) == 1 and retn == [st[0].targets[0].value.id]
    rep.check(ok, rule, "monthly:element-m-from-month-m", "the monthly meat series does not take month m of each of the five slaughter arrays into entry m",
              loc=loc(MD, g))
    rep.require_min(rule, 10)


CHAIN = [
    ("animal.animal_type == 'chicken'", "CHICKEN"),
    ("animal.animal_type == 'pig'", "PIG"),
    ("animal.animal_size == 'small' and animal.animal_type != 'chicken'", "SMALL"),
    ("animal.animal_size == 'medium' and animal.animal_type != 'pig'", "MEDIUM"),
    ("animal.animal_size == 'large'", "LARGE"),
]


def chain_of(fn):
    """first if/elif chain over animal type/size in fn: ([(test text with the loop variable written as `animal`, body)], loop variable)"""
    import re
    for st in walk_no_nested(fn):
        if isinstance(st, ast.If):
            m = re.fullmatch(r"(\w+)\.animal_type == 'chicken'", norm_src(st.test))
            if not m:
                continue
            var = m.group(1)
            out = []
            cur = st
            while True:
                out.append((re.sub(rf"\b{var}\.", "animal.", norm_src(cur.test)), cur.body))
                if len(cur.orelse) == 1 and isinstance(cur.orelse[0], ast.If):
                    cur = cur.orelse[0]
                else:
                    out.append(("else", cur.orelse))
                    break
            return out, var
    return None, None


LANE_NAMES = ["CHICKEN", "PIG", "SMALL", "MEDIUM", "LARGE"]


def expected_lane(atype, size):
    """chicken and pig are classes of their own whatever their size; every other species goes by size"""
    if atype == "chicken":
        return 0
    if atype == "pig":
        return 1
    return {"small": 2, "medium": 3, "large": 4}[size]


def classify_site(index, rel, q, lane_of):
    """runs the per-animal loop of function q for every (type, size) combination on a generic animal whose type and size are concrete
    strings; lane_of(events, env, interp, fn) -> lane index the animal's slaughter series / yield was routed to (or None)"""
    from .trace import trace_block
    from .symx import Path as P_
    fn = index.func(rel, q)
    loops = [s_ for s_ in fn.body if isinstance(s_, ast.For)]
    if not loops:
        raise AnalysisError(f"{q}: per-animal loop not found")
    loop = loops[0]
    pre = fn.body[: fn.body.index(loop)]
    env0 = {a.arg: P_((f"P{i}",)) for i, a in enumerate(fn.args.args)}
    out = {}
    for atype in ("chicken", "pig", "goat"):
        for size in ("small", "medium", "large"):
            try:
                leaves = trace_block(fn, [s_ for s_ in pre if isinstance(s_, ast.Assign)] + [loop], dict(env0),
                                     elem_attrs={"animal_type": atype, "animal_size": size})
            except Unsupported as e:
                raise AnalysisError(f"{q}: per-animal loop outside the analysed fragment: {e}")
            lanes = set()
            for dec, ev, env, it in leaves:
                lanes.add(lane_of(ev, env, it, fn))
            out[(atype, size)] = lanes
    return fn, out


def _slaughter_tags(ev):
    """tags of the values np.array(elem.slaughter) produced in this trace"""
    out = set()
    for k, e in enumerate(ev):
        if e.kind == "call" and e.name in ("np.array", "np.asarray") and e.args and isinstance(e.args[0], Path) and e.args[0].parts[:2] == ("elem", "slaughter"):
            out.add(f"ret:{e.name}@{k + 1}")
    return out


def klass(index, rep):
    rule = "C05.CLASS"
    from .trace import tags

    def lane_produced(ev, env, it, fn):
        ret = [r for r in fn.body if isinstance(r, ast.Return) and isinstance(r.value, ast.Tuple)]
        names = [norm_src(e) for e in ret[-1].value.elts] if ret else []
        st = _slaughter_tags(ev)
        hit = [i for i, nme in enumerate(names) if nme in env and (tags(env[nme]) & st)]
        return hit[0] if len(hit) == 1 and len(names) == 5 else None

    def lane_dictionary(ev, env, it, fn):
        calls = [e for e in ev if e.kind == "call" and e.name == "get_max_slaughter_monthly_after_distribution_waste"]
        if len(calls) != 1:
            return None
        callee = index.func(MD, "MeatAndDairy.get_max_slaughter_monthly_after_distribution_waste")
        order = [a.arg for a in callee.args.args if a.arg.endswith("_culled")]
        st = _slaughter_tags(ev)
        params = [a.arg for a in callee.args.args if a.arg not in ("self", "cls")]
        bound = dict(zip(params, calls[0].args))          # by parameter, however the call spells its arguments
        bound.update(calls[0].kwargs or {})
        hit = [order.index(k) for k, v in bound.items() if k in order and (tags(v) & st)]
        zero = [k for k, v in bound.items() if k in order and not (tags(v) & st)]
        return hit[0] if len(hit) == 1 and len(zero) == 4 and len(order) == 5 else None

    def lane_yield(ev, env, it, fn):
        keys = ["KCALS_PER_CHICKEN", "KCALS_PER_PIG", "KCALS_PER_SMALL_ANIMAL", "KCALS_PER_MEDIUM_ANIMAL", "KCALS_PER_LARGE_ANIMAL"]
        stores = [e for e in ev if e.kind == "store" and e.elem]
        found = set()
        for e in stores:
            for t in tags(e.args[1]):
                for i, k in enumerate(keys):
                    if t.endswith("." + k):
                        found.add(i)
        return found.pop() if len(found) == 1 else None

    sites = (("CalculateFeedAndMeat.get_meat_produced", ANIM, lane_produced, "slaughter series accumulated"),
             ("Parameters.get_animal_meat_dictionary", PARAMS, lane_dictionary, "slaughter series passed"),
             ("AnimalModelBuilder.get_optimal_next_animal_to_feed", ANIM, lane_yield, "per-head meat yield used"))
    for q, rel, lane_of, what in sites:
        fn, table = classify_site(index, rel, q, lane_of)
        for (atype, size), lanes in sorted(table.items()):
            want = expected_lane(atype, size)
            ok = lanes == {want}
            got = sorted(LANE_NAMES[l] if l is not None else "none/ambiguous" for l in lanes)
            rep.check(ok, rule, f"{q}:{atype if atype != 'goat' else 'other species'}/{size} -> {LANE_NAMES[want]}",
                      f"{what} for a {size} {atype if atype != 'goat' else 'animal of another species'} goes to {got}, expected the {LANE_NAMES[want]} class "
                      "(chicken, pig by species; everything else by size) - the three classification chains must agree", loc=loc(rel, fn))
    cm = index.func(PARAMS, "Parameters.calculate_meat_from_feed_results")
    # result k of the herd object's get_meat_produced() reaches the k-th slaughter parameter of both MeatAndDairy routines (as it is /
    # summed over the months) - whether unpacked into five names, kept as one tuple and spread with *, or passed by keyword
    from .core import expand_star_args, bind_args as _bacm
    inl_k = Inliner(cm)
    gmp = index.func(ANIM, "CalculateFeedAndMeat.get_meat_produced")
    gr = [r for r in walk_no_nested(gmp) if isinstance(r, ast.Return)]
    n_res = len(gr[-1].value.elts) if gr and isinstance(gr[-1].value, ast.Tuple) else None
    hp = [a.arg for a in cm.args.args if "feed_meat" in a.arg]
    if n_res != 5 or len(hp) != 1:
        raise AnalysisError("calculate_meat_from_feed_results: get_meat_produced() no longer returns the five slaughter arrays of the herd object parameter")
    src_call = f"{hp[0]}.get_meat_produced()"
    kws = ["chickens_culled", "pigs_culled", "small_animals_nonchicken_culled", "medium_animals_nonpig_culled", "large_animals_culled"]
    kws2 = [l[0] for l in LANES]
    for c in walk_no_nested(cm):
        if isinstance(c, ast.Call) and isinstance(c.func, ast.Attribute) and c.func.attr in (
                "get_max_slaughter_monthly_after_distribution_waste", "calculate_meat_after_distribution_waste"):
            callee = index.func(MD, "MeatAndDairy." + c.func.attr)
            pos = expand_star_args(c, inl_k, lambda t: 5 if t == src_call else None)
            if pos is None:
                kw = {}
            else:
                import copy as _copy
                flat = _copy.copy(c)
                flat.args = pos
                kw = {k_: norm_src(inl_k.expr(v_)) for k_, v_ in _bacm(flat, callee).items()}
            keys = kws if c.func.attr.startswith("get_max") else kws2
            got = [kw.get(k, "?") for k in keys]
            wantv = [f"{src_call}[{i}]" for i in range(5)] if c.func.attr.startswith("get_max") else [f"np.sum({src_call}[{i}])" for i in range(5)]
            rep.check(got == wantv, rule, f"calculate_meat_from_feed_results:{c.func.attr}:slot-binding",
                      f"the five slaughter arrays (by return position) do not reach the like-positioned keyword parameters: {got}", loc=loc(PARAMS, c))
    # the monthly series and its running total are the same object, stored for the optimiser
    inl_cm = Inliner(cm)
    st = {str_const(s.targets[0].slice): inl_cm.src(s.value) for s in cm.body if isinstance(s, ast.Assign) and isinstance(s.targets[0], ast.Subscript)
          and isinstance(s.targets[0].value, ast.Name) and s.targets[0].value.id in [a.arg for a in cm.args.args]}
    monthly = st.get("each_month_meat_slaughtered")
    rep.check(monthly is not None and ".get_max_slaughter_monthly_after_distribution_waste(" in monthly and
              st.get("max_consumed_culled_kcals_each_month") == monthly + ".get_running_total_nutrients_sum().kcals", rule,
              "time_consts:monthly-and-running-total-of-the-same-series", "the running slaughter total is not computed from the stored monthly series",
              loc=loc(PARAMS, cm))
    rep.require_min(rule, 20)


MILK_POP_PARAM = [None]


def milk(index, rep):
    rule = "C05.MILK"
    cls = index.cls(MD, "MeatAndDairy")
    g = index.func(MD, "MeatAndDairy.get_milk_produced_postwaste")
    it = Interp()
    it.classes = {"MeatAndDairy": cls}

    def hook(interp, d, args, kwargs, node):
        if d == "np.array" and len(args) == 1:
            return args[0]
        return NotImplemented

    it.call_hook = hook
    t = Rat.atom(("tons",))
    try:
        res = it.call_function(g, [t], {}, Obj(cls, {}, "self"))
    except Exception as e:
        raise AnalysisError(f"get_milk_produced_postwaste outside the fragment: {e!r}")
    wd = it.to_rat(Path(("self", "MILK_WASTE_DISTRIBUTION")))
    wr = it.to_rat(Path(("self", "MILK_WASTE_RETAIL")))
    keep = (Rat.const(1) - wd / Rat.const(100)) * (Rat.const(1) - wr / Rat.const(100))
    want = t * Rat.const(1000) * it.to_rat(Path(("self", "MILK_KCALS"))) / Rat.const(10**9) * keep
    ok = isinstance(res, tuple) and len(res) == 3 and it.to_rat(res[0]) == want
    rep.check(ok, rule, "milk-kcals = tons x 1e3 x kcal/kg / 1e9 x (1-dist)(1-retail)",
              "milk energy is not tonnes x 1000 kg x kcal/kg / 1e9 reduced by distribution AND retail waste", loc=loc(MD, g),
              detail=str(res[0]) if isinstance(res, tuple) else str(res))
    if isinstance(res, tuple) and len(res) == 3:
        for slot, nm in ((1, "MILK_FAT"), (2, "MILK_PROTEIN")):
            w = t / Rat.const(1000) * it.to_rat(Path(("self", nm))) * keep
            rep.check(it.to_rat(res[slot]) == w, rule, f"milk-{nm.split('_')[1].lower()}", f"milk {nm} is not tonnes/1e3 x {nm} x both waste factors",
                      loc=loc(MD, g))
    c = index.func(PARAMS, "Parameters.calculate_non_meat_and_dairy_from_feed_results")
    it2 = Interp(decisions={"ci.ADD_MILK": True})
    pcls = index.cls(PARAMS, "Parameters")
    it2.classes = {"Parameters": pcls}
    tc = PDict()
    co = PDict()

    def hook2(interp, d, args, kwargs, node):
        if d and d.endswith(".get_milk_produced_postwaste"):
            return (Rat.atom(("MILKFN", str(interp.to_rat(args[0])))), Rat.atom(("mf",)), Rat.atom(("mp",)))
        if d and d.endswith(".get_meat_nutrition"):
            # the per-kg constants (not what this rule is about) in whatever shape the routine hands them back: a tuple, or a table to merge
            gm = index.func(MD, "MeatAndDairy.get_meat_nutrition", required=False)
            rt = [r_.value for r_ in ast.walk(gm) if isinstance(r_, ast.Return) and r_.value is not None] if gm is not None else []
            if rt and all(isinstance(v_, ast.Tuple) for v_ in rt):
                return tuple(Rat.atom(("mn", i)) for i in range(len(rt[0].elts)))
            if rt and all(isinstance(v_, (ast.Dict, ast.DictComp)) for v_ in rt):
                return PDict()
            return tuple(Rat.atom(("mn", i)) for i in range(8))
        return NotImplemented

    it2.call_hook = hook2
    pop = Rat.atom(("pop",))
    from .core import param_role as _pr
    roles = {"md": _pr(c, r"(\w+)\.get_milk_produced_postwaste\("),
             "ci": _pr(c, r"(\w+)\['MILK_YIELD_KG_PER_MILK_BEARING_ANIMAL_PER_YEAR'\]")}
    cparams = [a.arg for a in c.args.args if a.arg != "self"]
    if None in roles.values():
        raise AnalysisError(f"calculate_non_meat_and_dairy_from_feed_results: parameter roles not identified ({roles})")
    # the herd-size parameter: the one the caller binds to <herd>.get_total_milk_bearing_animals() (identified below), here: the only
    # parameter that is neither a dictionary nor the MeatAndDairy object and is used in arithmetic with the milk yield
    rest = [p_ for p_ in cparams if p_ not in roles.values()]
    import re as _re
    popp = [p_ for p_ in rest if _re.search(rf"\b{p_}\b\s*\*|\*\s*\b{p_}\b", norm_src(c))]
    if len(popp) != 1:
        raise AnalysisError(f"calculate_non_meat_and_dairy_from_feed_results: herd-size parameter not identified ({rest})")
    # every other parameter is a dictionary of its own: the one that receives "milk_kcals" is the monthly-constants hand-off
    kwargs2 = {roles["ci"]: Path(("ci",)), popp[0]: pop, roles["md"]: Path(("md",))}
    dicts = {}
    for p_ in cparams:
        if p_ not in kwargs2:
            dicts[p_] = PDict()
            kwargs2[p_] = dicts[p_]
    try:
        it2.call_function(c, [], kwargs2, Obj(pcls, {}, "self"))
    except Exception as e:
        raise AnalysisError(f"calculate_non_meat_and_dairy_from_feed_results outside the fragment: {e!r}")
    MILK_POP_PARAM[0] = popp[0]
    holders = [d_ for d_ in dicts.values() if "milk_kcals" in d_.d]
    if len(holders) != 1:
        raise AnalysisError("calculate_non_meat_and_dairy_from_feed_results: no (or more than one) dictionary receives 'milk_kcals'")
    tc = holders[0]
    y = it2.to_rat(Path(("ci", "MILK_YIELD_KG_PER_MILK_BEARING_ANIMAL_PER_YEAR")))
    want_arg = pop * y / Rat.const(12) / Rat.const(1000)
    rep.check(tc.d.get("milk_kcals") == Rat.atom(("MILKFN", str(want_arg))), rule, "milk-tonnes = herd x yield / 12 / 1000",
              "the monthly milk tonnage handed to the waste step is not milking herd x annual yield [kg] / 12 / 1000", loc=loc(PARAMS, c),
              detail=str(tc.d.get("milk_kcals")))
    im = index.func(PARAMS, "Parameters.init_meat_and_dairy_and_feed_from_breeding")
    call = [x for x in walk_no_nested(im) if isinstance(x, ast.Call) and dotted(x.func) == "self.calculate_non_meat_and_dairy_from_feed_results"]
    inl_im = Inliner(im)
    from .core import param_role, bind_args
    herd_param = param_role(im, r"(\w+)\.feed_used\b")
    ok = len(call) == 1 and herd_param is not None
    if ok:
        bound = bind_args(call[0], index.func(PARAMS, "Parameters.calculate_non_meat_and_dairy_from_feed_results"))
        herd_args = [p_ for p_, a_ in bound.items() if inl_im.src(a_) == f"{herd_param}.get_total_milk_bearing_animals()"]
        ok = len(herd_args) == 1 and herd_args[0] == MILK_POP_PARAM[0]
    rep.check(ok, rule, "herd = this round's milk-bearing animals", "the milking herd is not get_total_milk_bearing_animals() of the same round's herd object",
              loc=loc(PARAMS, im))
    # read with the helpers of the class it calls merged in (a shared "sum the herds that ..." helper with a predicate argument reads the same)
    tm = index.flat_func(ANIM, "CalculateFeedAndMeat.get_total_milk_bearing_animals", depth=2)
    ok = False
    for lp in [n_ for n_ in walk_no_nested(tm) if isinstance(n_, ast.For) and isinstance(n_.target, ast.Name) and norm_src(n_.iter) == "self.all_animals"]:
        var = lp.target.id
        for cond in [n_ for n_ in lp.body if isinstance(n_, ast.If) and not n_.orelse]:
            if norm_src(cond.test) != f"'milk' in {var}.animal_type":
                continue
            adds = [n_ for n_ in cond.body if isinstance(n_, ast.AugAssign) and isinstance(n_.op, ast.Add) and isinstance(n_.target, ast.Name)
                    and norm_src(n_.value) in (f"np.array({var}.population)", f"{var}.population")]
            rets = [r_ for r_ in tm.body if isinstance(r_, ast.Return)]
            ok = ok or (len(adds) == 1 and len(cond.body) == 1 and len(rets) == 1 and norm_src(rets[0].value) == adds[0].target.id)
    rep.check(ok, rule, "milk-bearing = sum of milk species' populations",
              "get_total_milk_bearing_animals no longer sums the population of the milk species", loc=loc(ANIM, tm))
    rep.require_min(rule, 5)


def feedge(index, rep, flow):
    rule = "C05.FEEDGE"
    fn = index.func(PARAMS, "Parameters.compute_parameters_third_round")
    rets = [r for r in fn.body if isinstance(r, ast.Return) and isinstance(r.value, ast.Tuple)]
    tc_name = norm_src(rets[-1].value.elts[1]) if rets and len(rets[-1].value.elts) >= 2 else None
    st = [s for s in fn.body if isinstance(s, ast.Assign) and isinstance(s.targets[0], ast.Subscript) and str_const(s.targets[0].slice) == "feed"
          and norm_src(s.targets[0].value) == tc_name]
    if len(st) != 1:
        raise AnalysisError("third round: store of the feed charge into the returned monthly constants not found")
    name = norm_src(st[0].value)
    org = flow.origin(fn, st[0].value, before=st[0].lineno)
    rep.check(org == {"src:create_feed_food_from_kcals"}, rule, "round3:feed = feed the round-3 herd used",
              f"round 3 charges feed originating from {sorted(org)}, not the feed its herd object ate", loc=loc(PARAMS, st[0]))
    # every store to <name>.kcals is the feed slot of the bump applied to itself
    from .c03 import bump_slots
    from .core import bind_args
    bump_fn, slots = bump_slots(index)
    inl_w = Inliner(fn)
    ok = True
    n_w = 0
    for t_, v_ in inl_w.stores:           # every store to <name>.kcals, also as an element of tuple unpacking or through a kept tuple
        if norm_src(t_) != f"{name}.kcals":
            continue
        n_w += 1
        ve = inl_w.expr(v_)
        okw = isinstance(ve, ast.Subscript) and isinstance(ve.slice, ast.Constant) and isinstance(ve.value, ast.Call) \
            and dotted(ve.value.func) == "self.increase_biofuels_then_feed" and isinstance(ve.slice.value, int) and 0 <= ve.slice.value < len(slots)
        if okw:
            bound = bind_args(ve.value, bump_fn)
            k_ = ve.slice.value
            okw = slots[k_][0] in bound and norm_src(bound[slots[k_][0]]) == inl_w.src(ast.parse(f"{name}.kcals", mode="eval").body)
        ok = ok and okw
    rep.check(ok, rule, "round3:feed only changed by the bump (feed slot in, feed slot out)",
              "the feed charged in round 3 is modified other than by the never-lowering bump", loc=loc(PARAMS, fn))
    aug = [s for s in walk_no_nested(fn) if isinstance(s, ast.AugAssign) and name in norm_src(s.target)]
    rep.check(not aug, rule, "round3:no-in-place-change", "the feed charge is changed in place", loc=loc(PARAMS, fn))
    # the herd object: when round 2 ran, a herd run on round 2's feed; otherwise round 1's herd object
    call = [c for c in walk_no_nested(fn) if isinstance(c, ast.Call) and dotted(c.func) == "self.init_meat_and_dairy_and_feed_from_breeding"]
    inl = Inliner(fn)
    params = [a.arg for a in fn.args.args]
    from .core import bind_args as _ba, param_role as _pr2
    imf = index.func(PARAMS, "Parameters.init_meat_and_dairy_and_feed_from_breeding")
    herd_role = _pr2(imf, r"(\w+)\.feed_used\b")
    herd_arg = _ba(call[0], imf).get(herd_role) if len(call) == 1 and herd_role else None
    from .core import through_helpers as _th5
    alts = _th5(index.methods(PARAMS, "Parameters"), inl, herd_arg) if herd_arg is not None else None   # a construction helper is looked through
    herd_src = sorted({("CalculateFeedAndMeat" if a.startswith("CalculateFeedAndMeat(") else a) for a in (alts or ["?"])})
    r1 = [p_ for p_ in params if "feed_meat_object" in p_]
    rep.check(len(r1) == 1 and herd_src == sorted(["CalculateFeedAndMeat", r1[0]]), rule, "round3:herd-object",
              f"the round-3 herd object comes from {herd_src} (expected a herd run on round 2's feed, or round 1's herd object when round 2 was skipped)",
              loc=loc(PARAMS, fn))
    # the same object's feed_used is what is charged: slot 0 of that one call is the stored feed
    rep.check(len(call) == 1 and inl.src(st[0].value) == inl.src(call[0]) + "[0]", rule, "round3:meat-from-the-same-herd",
              "meat/milk and feed of round 3 are not taken from the same herd object", loc=loc(PARAMS, fn))
    rep.require_min(rule, 5)


def zero(index, rep, flow):
    rule = "C05.ZERO"
    fn = index.func(PARAMS, "Parameters.init_meat_and_dairy_and_feed_from_breeding_and_subtract_feed_biofuels_round1")
    from .c03 import herd_feeds
    hf = herd_feeds(index, fn)
    if len(hf) != 1:
        raise AnalysisError("round 1: herd construction not found")
    herd, af = [hf[0][0]], [hf[0][1]]
    # what the herd is offered, evaluated (a Food(...) of np.zeros series, however it is built - literal or through a helper)
    ok = bool(af)
    if ok:
        it_z = Interp()
        pcls_z = index.cls(PARAMS, "Parameters")
        it_z.classes = {"Parameters": pcls_z}

        def hook_z(interp, d, a, kw, node):
            if d == "Food":
                return Obj(None, dict(kw), "food")
            if d in ("np.zeros", "np.zeros_like"):
                return Rat.const(0)
            return NotImplemented

        it_z.call_hook = hook_z
        e_z = Inliner(fn, max_depth=1).expr(af[0])  # the defining expression of the offered feed; its operands stay opaque locals
        env_z = {n_.id: Path((n_.id,)) for n_ in ast.walk(e_z) if isinstance(n_, ast.Name) and n_.id not in ("np", "Food")
                 and not (Interp.resolver is not None and Interp.resolver(n_.id) is not None)}
        env_z[fn.args.args[0].arg] = Obj(pcls_z, {}, "self")
        try:
            v_z = it_z.eval(e_z, env_z)
            ok = isinstance(v_z, Obj) and v_z.name == "food" and all(isinstance(v_z.attrs.get(l), Rat) and v_z.attrs[l].is_zero() for l in ("kcals", "fat", "protein"))
        except (Unsupported, Abort):
            ok = False
    rep.check(ok, rule, "round1:herd-offered-zero-feed", "the round-1 herd is not run on an all-zero feed series", loc=loc(PARAMS, herd[0]))
    st = {str_const(s.targets[0].slice): norm_src(s.value) for s in fn.body if isinstance(s, ast.Assign) and isinstance(s.targets[0], ast.Subscript)
          and norm_src(s.targets[0].value) == "time_consts"}
    org = flow.origin(fn, ast.Name(id=st.get("feed", "?"), ctx=ast.Load())) if st.get("feed") else {"?"}
    rep.check(org == {"src:create_feed_food_from_kcals"}, rule, "round1:charges-its-herd's-feed", f"round 1 charges feed from {sorted(org)}", loc=loc(PARAMS, fn))
    asserts = [norm_src(a.test) for a in fn.body if isinstance(a, ast.Assert)]
    rep.check(f"{st.get('feed')}.all_equals_zero()" in asserts, rule, "round1:feed-asserted-zero", "the round-1 feed charge is no longer asserted to be zero",
              loc=loc(PARAMS, fn))
    rep.require_min(rule, 3)


def describe(rep):
    rep.explanation = (
        "Static analysis of meat_and_dairy.py, parameters.py and the herd/optimiser coupling. C05.MEAT: the per-head yield "
        "initialiser and the meat-energy function are abstractly evaluated with symbolic head counts: kcals = sum_i culled_i x "
        "kcal/kg(class i) x kg/head(class i)/1e9 x (1 - MEAT distribution waste), both arms, fat/protein fractions with the same "
        "pairing, waste provenance, and month m of the five arrays goes to entry m. C05.CLASS: the three species->size-class "
        "chains have identical ordered predicates and each arm feeds its own lane; the five arrays reach the keyword parameters "
        "by return position; the running total is computed from the stored monthly series. C05.MILK: milk kcals = herd x yield/12/"
        "1000 t x 1e3 x kcal/kg/1e9 x (1-dist)(1-retail) with the herd = this round's milk-bearing population. C05.FEEDGE: round 3 "
        "charges create_feed_food_from_kcals(herd.feed_used) of its own herd object and only the never-lowering bump (C18.BUMP) "
        "may change it. C05.ZERO: round 1's herd is offered np.zeros and its (asserted zero) feed is what is charged. The herd "
        "trajectory itself and grass use are C06/C07; total preservation under re-timing is C18.RETIME."
    )
    rep.assumptions = ["the slaughter/population arrays are those the herd simulation produced (C06)", "waste percentages < 100"]
